"""Independent RFC 9001 / RFC 9369 packet protection pieces.

Nothing here imports aioquic.  Key derivation is written from RFC 5869 and
RFC 8446 §7.1 on top of the standard library's hmac/hashlib; the AEAD and the
header-protection block/stream ciphers come from `cryptography` (not from
aioquic/_crypto.c).  Every constant (labels, salts, Retry keys, cipher per
suite) is read from the LEAN spec tables (`prot.tables` of the driver), so the
tables that `AQ.Props.C02b.tables_match_rfc` talks about are the ones used."""
import hashlib
import hmac
import struct

from cryptography.exceptions import InvalidTag
from cryptography.hazmat.primitives.ciphers import Cipher, algorithms, modes
from cryptography.hazmat.primitives.ciphers.aead import AESGCM, ChaCha20Poly1305

from . import lean

HASH = {4865: hashlib.sha256, 4866: hashlib.sha384, 4867: hashlib.sha256}   # RFC 8446 B.4


class Tables:
    def __init__(self):
        out = lean.run_driver(["prot.tables"])[0]
        assert out.startswith("ok "), out
        kv = dict(t.split("=", 1) for t in out[3:].split(" ") if "=" in t and not t.startswith("lt"))
        self.raw = out
        self.suites = {}
        for ent in kv["suites"].split(","):
            i, hp, aead, klen = ent.split(":")
            self.suites[int(i)] = (hp, aead, int(klen))
        self.initial_suite = int(kv["initial"])
        self.v1 = int(kv["v1"])
        self.v2 = int(kv["v2"])
        self.labels = {self.v1: [bytes.fromhex(x) for x in kv["labels1"].split(",")],
                       self.v2: [bytes.fromhex(x) for x in kv["labels2"].split(",")]}
        self.cin = bytes.fromhex(kv["cin"])
        self.sin = bytes.fromhex(kv["sin"])
        self.salt = {self.v1: bytes.fromhex(kv["salt1"]), self.v2: bytes.fromhex(kv["salt2"])}
        self.retry = {self.v1: (bytes.fromhex(kv["rk1"]), bytes.fromhex(kv["rn1"])),
                      self.v2: (bytes.fromhex(kv["rk2"]), bytes.fromhex(kv["rn2"]))}


# ------------------------------------------------------------------ RFC 5869
def hkdf_extract(h, salt, ikm):
    return hmac.new(salt, ikm, h).digest()


def hkdf_expand(h, prk, info, length):
    out = b""
    t = b""
    i = 1
    while len(out) < length:
        t = hmac.new(prk, t + info + bytes([i]), h).digest()
        out += t
        i += 1
    return out[:length]


# ------------------------------------------------------------ RFC 8446 §7.1
def hkdf_expand_label(h, secret, label, context, length):
    full = b"tls13 " + label
    info = struct.pack("!H", length) + bytes([len(full)]) + full + bytes([len(context)]) + context
    return hkdf_expand(h, secret, info, length)


class Rfc:
    """RFC 9001 §5 with the constants of the Lean spec"""

    def __init__(self, tables):
        self.t = tables

    def keys(self, suite, version, secret):
        """(key, iv, hp) — RFC 9001 §5.1"""
        h = HASH[suite]
        lk, li, lh, _ = self.t.labels[version]
        klen = self.t.suites[suite][2]
        return (hkdf_expand_label(h, secret, lk, b"", klen),
                hkdf_expand_label(h, secret, li, b"", 12),
                hkdf_expand_label(h, secret, lh, b"", klen))

    def next_secret(self, suite, version, secret):
        """RFC 9001 §6.1 / RFC 9369 §3.3.1"""
        h = HASH[suite]
        return hkdf_expand_label(h, secret, self.t.labels[version][3], b"", h().digest_size)

    def initial_secrets(self, version, dcid):
        """(client_initial_secret, server_initial_secret) — RFC 9001 §5.2"""
        h = HASH[self.t.initial_suite]
        init = hkdf_extract(h, self.t.salt[version], dcid)
        return (hkdf_expand_label(h, init, self.t.cin, b"", 32),
                hkdf_expand_label(h, init, self.t.sin, b"", 32))

    # primitives (cryptography, not _crypto.c)
    def _aead(self, suite, key):
        name = self.t.suites[suite][1]
        if name.startswith("aes-"):
            return AESGCM(key)
        assert name == "chacha20-poly1305", name
        return ChaCha20Poly1305(key)

    def seal(self, suite, key, nonce, ad, plain):
        return self._aead(suite, key).encrypt(nonce, plain, ad)

    def open(self, suite, key, nonce, ad, ct):
        try:
            return self._aead(suite, key).decrypt(nonce, ct, ad)
        except InvalidTag:
            return None

    def mask(self, suite, hp_key, sample):
        """RFC 9001 §5.4.3 / §5.4.4"""
        name = self.t.suites[suite][0]
        if len(sample) != 16:
            return b""
        if name.startswith("aes-"):
            enc = Cipher(algorithms.AES(hp_key), modes.ECB()).encryptor()
            return enc.update(sample) + enc.finalize()
        assert name == "chacha20", name
        enc = Cipher(algorithms.ChaCha20(hp_key, sample), mode=None).encryptor()
        return enc.update(bytes(5))

    def retry_tag(self, version, pseudo):
        key, nonce = self.t.retry[version]
        return AESGCM(key).encrypt(nonce, b"", pseudo)
