"""Key-holding peer: builds correctly protected packets carrying arbitrary
payload bytes with the live send keys of one endpoint of a Sim (the packet is
indistinguishable from one its QuicConnection could have produced)."""


def build(sim, src, payload, epoch="ONE_RTT", pn=None, dcid=None, pad_to=None):
    """returns datagram bytes protected with `src`'s current send keys"""
    from aioquic import tls
    from aioquic.quic.packet import QuicPacketType
    from aioquic.quic.packet_builder import QuicPacketBuilder

    conn = src.conn
    ep = {"INITIAL": tls.Epoch.INITIAL, "HANDSHAKE": tls.Epoch.HANDSHAKE,
          "ZERO_RTT": tls.Epoch.ZERO_RTT, "ONE_RTT": tls.Epoch.ONE_RTT}[epoch]
    ptype = {"INITIAL": QuicPacketType.INITIAL, "HANDSHAKE": QuicPacketType.HANDSHAKE,
             "ZERO_RTT": QuicPacketType.ZERO_RTT, "ONE_RTT": QuicPacketType.ONE_RTT}[epoch]
    crypto = conn._cryptos[ep]
    if not crypto.send.is_valid():
        return None
    number = conn._packet_number if pn is None else pn
    builder = QuicPacketBuilder(
        host_cid=conn.host_cid, peer_cid=dcid if dcid is not None else conn._peer_cid.cid,
        is_client=conn._is_client, version=conn._version,
        max_datagram_size=max(conn._max_datagram_size, len(payload) + 100),
        packet_number=number, peer_token=conn._peer_token,
    )
    builder.start_packet(ptype, crypto)
    builder._buffer.push_bytes(payload)
    if pad_to:
        extra = pad_to - builder._buffer.tell() - 16
        if extra > 0:
            builder._buffer.push_bytes(bytes(extra))
    datagrams, _ = builder.flush()
    if pn is None:
        conn._packet_number = builder.packet_number
    return datagrams[0] if datagrams else None


def inject(sim, src, payload, **kw):
    """deliver an injected packet from `src` to its peer right now"""
    data = build(sim, src, payload, **kw)
    if data is None:
        return False
    d = {"id": -1, "src": src, "dst": src.peer, "data": data, "to": src.peer.addr, "from": src.addr,
         "t": sim.now, "injected": True}
    sim.deliver(d)
    return True
