"""Scenarios on real tls.Context objects: contexts driven into each of the 13
handshake states, pools of well-formed messages of every type."""
from . import tlsdrive as D

CLIENT_STATES = ["CLIENT_HANDSHAKE_START", "CLIENT_EXPECT_SERVER_HELLO", "CLIENT_EXPECT_ENCRYPTED_EXTENSIONS",
                 "CLIENT_EXPECT_CERTIFICATE_REQUEST_OR_CERTIFICATE", "CLIENT_EXPECT_CERTIFICATE",
                 "CLIENT_EXPECT_CERTIFICATE_VERIFY", "CLIENT_EXPECT_FINISHED", "CLIENT_POST_HANDSHAKE"]
SERVER_STATES = ["SERVER_EXPECT_CLIENT_HELLO", "SERVER_EXPECT_CERTIFICATE", "SERVER_EXPECT_CERTIFICATE_VERIFY",
                 "SERVER_EXPECT_FINISHED", "SERVER_POST_HANDSHAKE"]
_ident = {}


def ident(kind):
    if kind not in _ident:
        _ident[kind] = D.server_identity(kind)
    return _ident[kind]


def full_pair(cr=True, client_cert=True, tickets=True, kind="rsa"):
    """client and server configured so that an honest handshake uses every message type"""
    idt = ident(kind)
    c = D.client(ident=idt if kind != "rsa" else None)
    s = D.server(ident=idt, request_client_certificate=cr)
    if client_cert:
        ci = ident("ec256")
        c.certificate, c.certificate_chain, c.certificate_private_key = ci
    if tickets:
        c.new_session_ticket_cb = lambda t: None
        s.new_session_ticket_cb = lambda t: None
    return D.Pair(c, s)


def pool():
    """one well-formed message of every type an honest handshake produces"""
    p = full_pair()
    ce, se = p.run()
    assert ce is None and se is None, (ce, se)
    msgs = {p.client_hello[0]: p.client_hello}
    for m in p.server_flight + p.client_flight + p.server_late:
        msgs.setdefault(m[0], m)
    return msgs


def drive(state):
    """fresh contexts with one side in `state`; returns (ctx, keytap, genuine next message or None)"""
    from aioquic import tls
    want = tls.State[state]
    p = full_pair()
    if state in CLIENT_STATES:
        if p.c.state == want:
            return p.c, p.ck, b""
        p.hello()
        if p.c.state == want:
            assert p.serve() is None
            return p.c, p.ck, p.server_flight[0]
        assert p.serve() is None
        for i, m in enumerate(p.server_flight):
            exc, _ = D.feed(p.c, m)
            assert exc is None, exc
            if p.c.state == want:
                nxt = p.server_flight[i + 1] if i + 1 < len(p.server_flight) else None
                if nxt is None and state == "CLIENT_POST_HANDSHAKE":
                    nxt = D.minimal(4)
                return p.c, p.ck, nxt
        raise AssertionError(f"client never reached {state}")
    if p.s.state == want:
        p.hello()
        return p.s, p.sk, p.client_hello
    p.hello()
    assert p.serve() is None
    if p.s.state == want:
        pass
    exc, out = D.feed(p.c, b"".join(p.server_flight))
    assert exc is None, exc
    flight = D.split(out)
    if p.s.state == want:
        return p.s, p.sk, flight[0]
    for i, m in enumerate(flight):
        exc, _ = D.feed(p.s, m)
        assert exc is None, exc
        if p.s.state == want:
            return p.s, p.sk, flight[i + 1] if i + 1 < len(flight) else None
    if state == "SERVER_EXPECT_FINISHED":
        # reached when no client certificate is requested
        q = full_pair(cr=False, client_cert=False)
        q.hello()
        assert q.serve() is None
        exc, out = D.feed(q.c, b"".join(q.server_flight))
        return q.s, q.sk, D.split(out)[0]
    raise AssertionError(f"server never reached {state}")


class TicketStore:
    def __init__(self):
        self.client, self.server = [], {}

    def add_server(self, t):
        self.server[t.ticket] = t

    def fetch(self, label):
        return self.server.get(label)


def ticket_store(kind="rsa", max_early_data=None):
    """first handshake that hands out a session ticket"""
    idt = ident(kind)
    st = TicketStore()
    c = D.client(ident=idt if kind != "rsa" else None)
    s = D.server(ident=idt)
    if max_early_data is not None:
        s._max_early_data = max_early_data
    c.new_session_ticket_cb = st.client.append
    s.new_session_ticket_cb = st.add_server
    p = D.Pair(c, s)
    ce, se = p.run()
    assert ce is None and se is None, (ce, se)
    exc, _ = D.feed(c, b"".join(p.server_late))
    assert exc is None and st.client, exc
    return st


def resumed_pair(store, kind="rsa", offer=True, accept=True):
    idt = ident(kind)
    c = D.client(ident=idt if kind != "rsa" else None)
    s = D.server(ident=idt)
    if offer:
        c.session_ticket = store.client[0]
    if accept:
        s.get_session_ticket_cb = store.fetch
    return D.Pair(c, s)
