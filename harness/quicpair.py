"""Real client/server QuicConnection pairs (harness/sim.py) for configuration
lattices: certificates, cipher suites, ALPN, versions, resumption; collects what
both endpoints report (events, negotiated values, key-log secrets)."""
import datetime
import io
import os

from . import sim as simmod
from . import tlsdrive as D

V1, V2 = 0x00000001, 0x6B3343CF


class KeyLog(io.StringIO):
    def secrets(self):
        out = {}
        for line in self.getvalue().splitlines():
            p = line.split()
            if len(p) == 3:
                out.setdefault(p[0], []).append(p[2])
        return out


def make_cert(kind, name="localhost", days=(-1, 10), key=None):
    """self-signed certificate of the given key type, validity window in days from now"""
    import sys
    sys.path.insert(0, D.TESTS)
    from cryptography import x509
    from cryptography.hazmat.primitives import hashes
    from cryptography.hazmat.primitives.asymmetric import ec, ed448, ed25519, rsa
    if key is None:
        key = {"rsa": lambda: rsa.generate_private_key(65537, 2048), "ec256": lambda: ec.generate_private_key(ec.SECP256R1()),
               "ec384": lambda: ec.generate_private_key(ec.SECP384R1()), "ed25519": ed25519.Ed25519PrivateKey.generate,
               "ed448": ed448.Ed448PrivateKey.generate}[kind]()
    now = datetime.datetime.now(datetime.timezone.utc)
    subject = x509.Name([x509.NameAttribute(x509.NameOID.COMMON_NAME, name)])
    b = (x509.CertificateBuilder().subject_name(subject).issuer_name(subject).public_key(key.public_key())
         .serial_number(x509.random_serial_number()).not_valid_before(now + datetime.timedelta(days=days[0]))
         .not_valid_after(now + datetime.timedelta(days=days[1]))
         .add_extension(x509.SubjectAlternativeName([x509.DNSName(name)]), critical=False))
    alg = None if kind in ("ed25519", "ed448") else hashes.SHA256()
    return b.sign(key, alg), key


class Result:
    pass


def run(seed, client_options=None, server_options=None, identity=None, trust=None, tickets=None,
        offer_ticket=None, lossy=False, vn=True, max_steps=400):
    """one connection attempt; identity=(cert, chain, key) for the server (default
    tests/ssl_cert.pem), trust=PEM bytes the client trusts instead of pycacert"""
    co = dict(client_options or {})
    so = dict(server_options or {})
    ckl, skl = KeyLog(), KeyLog()
    co.setdefault("secrets_log_file", ckl)
    so.setdefault("secrets_log_file", skl)
    co.setdefault("server_name", "localhost")
    if offer_ticket is not None:
        co["session_ticket"] = offer_ticket
    s = simmod.Sim(seed, client_options=co, server_options=so)
    res = Result()
    res.sim = s
    try:
        cc, sc = s.client.conn, s.server.conn
        if identity is not None:
            sc._configuration.certificate, sc._configuration.certificate_chain, sc._configuration.private_key = identity
        if trust is not None:
            cc._configuration.cafile = None
            cc._configuration.cadata = trust
        got = []
        if tickets is not None:
            sc._session_ticket_fetcher = tickets.fetch
            sc._session_ticket_handler = tickets.add_server
            cc._session_ticket_handler = got.append
        s.connect()
        # a standalone QuicConnection server does not answer unsupported versions;
        # play the part of the listening socket (asyncio/server.py): Version Negotiation
        if vn and cc._version not in sc._configuration.supported_versions:
            from aioquic.quic.packet import encode_quic_version_negotiation
            s.pending.clear()
            pkt = encode_quic_version_negotiation(source_cid=cc._peer_cid.cid, destination_cid=cc.host_cid,
                                                  supported_versions=list(sc._configuration.supported_versions))
            s.api(s.client, "receive_datagram", pkt, simmod.SERVER_ADDR, now=s.now)
            s.transmit(s.client)
            # the server object must see the new first flight as its first packet
            if s.pending and not s.client.terminated:
                from aioquic.quic.connection import QuicConnection
                s.server.conn = QuicConnection(configuration=sc._configuration,
                                               original_destination_connection_id=cc.original_destination_connection_id)
                sc = s.server.conn
                if tickets is not None:
                    sc._session_ticket_fetcher = tickets.fetch
                    sc._session_ticket_handler = tickets.add_server
            res.vn = True
        else:
            res.vn = False
        done = lambda: (cc._handshake_confirmed and sc._handshake_confirmed and not s.pending) or \
            s.client.terminated or s.server.terminated
        if lossy:
            for _ in range(max_steps):
                if done() or not s.adversarial_step(p_drop=0.2, p_dup=0.1, p_reorder=0.3):
                    break
        s.fair_phase(max_steps=max_steps, done=done)
        for _ in range(3):
            if s.pending:
                s.fair_phase(max_steps=50, done=lambda: not s.pending)
    finally:
        s.close_taps()
    res.tickets = got if tickets is not None else []
    for name, ep, kl in (("client", s.client, ckl), ("server", s.server, skl)):
        conn = ep.conn
        hc = [e for _, e in ep.events if type(e).__name__ == "HandshakeCompleted"]
        term = [e for _, e in ep.events if type(e).__name__ == "ConnectionTerminated"]
        info = {
            "completed": bool(hc),
            "event": None if not hc else (hc[0].alpn_protocol, hc[0].session_resumed, hc[0].early_data_accepted),
            "terminated": None if not term else (term[0].error_code, term[0].reason_phrase),
            "alpn": conn.tls.alpn_negotiated if getattr(conn, "tls", None) else None,
            "version": conn._version,
            "cipher_suite": int(conn.tls.key_schedule.cipher_suite) if getattr(conn, "tls", None) and conn.tls.key_schedule else None,
            "resumed": conn.tls.session_resumed if getattr(conn, "tls", None) else None,
            "secrets": kl.secrets(),
            "raised": [(a, type(e).__name__) for a, e in ep.raised],
        }
        setattr(res, name, info)
    return res


def make_ca(name="aq throw-away CA", issuer=None):
    """CA certificate (EC P-256): self-signed, or an intermediate signed by issuer=(cert, key); returns (cert, key)"""
    from cryptography import x509
    from cryptography.hazmat.primitives import hashes
    from cryptography.hazmat.primitives.asymmetric import ec
    key = ec.generate_private_key(ec.SECP256R1())
    now = datetime.datetime.now(datetime.timezone.utc)
    subject = x509.Name([x509.NameAttribute(x509.NameOID.COMMON_NAME, name)])
    cert = (x509.CertificateBuilder().subject_name(subject)
            .issuer_name(subject if issuer is None else issuer[0].subject).public_key(key.public_key())
            .serial_number(x509.random_serial_number()).not_valid_before(now - datetime.timedelta(days=1))
            .not_valid_after(now + datetime.timedelta(days=10))
            .add_extension(x509.BasicConstraints(ca=True, path_length=None), critical=True)
            .add_extension(x509.KeyUsage(digital_signature=True, key_cert_sign=True, crl_sign=True, content_commitment=False,
                                         key_encipherment=False, data_encipherment=False, key_agreement=False,
                                         encipher_only=False, decipher_only=False), critical=True)
            .sign(key if issuer is None else issuer[1], hashes.SHA256()))
    return cert, key


def make_leaf(ca, ca_key, sans, common_name="leaf"):
    """end-entity certificate signed by the CA; `sans` are DNS names or IP literals"""
    import ipaddress
    from cryptography import x509
    from cryptography.hazmat.primitives import hashes
    from cryptography.hazmat.primitives.asymmetric import ec
    key = ec.generate_private_key(ec.SECP256R1())
    now = datetime.datetime.now(datetime.timezone.utc)
    names = []
    for n in sans:
        try:
            names.append(x509.IPAddress(ipaddress.ip_address(n)))
        except ValueError:
            names.append(x509.DNSName(n))
    cert = (x509.CertificateBuilder()
            .subject_name(x509.Name([x509.NameAttribute(x509.NameOID.COMMON_NAME, common_name)]))
            .issuer_name(ca.subject).public_key(key.public_key()).serial_number(x509.random_serial_number())
            .not_valid_before(now - datetime.timedelta(days=1)).not_valid_after(now + datetime.timedelta(days=10))
            .add_extension(x509.BasicConstraints(ca=False, path_length=None), critical=True)
            .add_extension(x509.SubjectAlternativeName(names), critical=False)
            .sign(ca_key, hashes.SHA256()))
    return cert, key
