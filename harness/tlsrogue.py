"""Rogue-server scenarios on a real client `tls.Context` (failing-input search
for C03 / C11; the full set is cheap (about 3 s) and also runs on every C03 check).

The rogue server performs the key exchange honestly (so it knows the handshake
secrets and can compute any Finished over the public transcript) but holds
NEITHER the private key of a certificate the client trusts for the requested
name NOR a resumption secret the client offered.  Whatever it sends, the client
must not reach CLIENT_POST_HANDSHAKE.

Oracle (from the property text of C03 / C11): "a client reports handshake
completion only after the server has proved possession of the private key of a
certificate that validates for the requested name (or of a resumption secret the
client offered)".
"""
import itertools

from . import tlsdrive as D
from . import tlsscen as S

EE, CR, CERT, CV, FIN = 8, 13, 11, 15, 20


def _ser(push, obj, cap=16384):
    from aioquic.buffer import Buffer
    b = Buffer(capacity=cap)
    push(b, obj)
    return b.data


def _rogue_identity():
    """self-signed certificate for the requested name that the client does NOT trust"""
    from . import quicpair as Q
    cert, key = Q.make_cert("ec256", name="localhost")
    return cert, [], key


def tamper_hello(tls, sh_bytes, psk):
    """ServerHello with an unsolicited / altered pre_shared_key extension"""
    from aioquic.buffer import Buffer
    sh = tls.pull_server_hello(Buffer(data=sh_bytes))
    sh.pre_shared_key = psk
    return _ser(tls.push_server_hello, sh)


def flights(full):
    base = [EE, CR, CERT, CV, FIN]
    if full:
        out = []
        for k in range(0, 6):
            for sub in itertools.combinations(base, k):
                out += [list(p) for p in itertools.permutations(sub)]
        return out
    return [[EE, FIN], [EE, CERT, CV, FIN], [EE, CERT, FIN], [EE, CR, FIN], [FIN], [EE, CR, CERT, CV, FIN], [EE, CV, FIN]]


def scenarios(full):
    """(name, client offers a PSK, pre_shared_key value put into ServerHello or None,
    which certificate the rogue shows: 'rogue' (own, untrusted) | 'victim' (the genuine
    server's public certificate, whose key the rogue does not have), flight)"""
    out = []
    for fl in flights(full):
        for psk in (None, 0) + ((1,) if full else ()):
            for cert in ("rogue", "victim"):
                if cert == "victim" and CERT not in fl:
                    continue
                out.append((f"psk={psk} cert={cert} flight={fl}", False, psk, cert, fl))
    # the client DID offer a PSK, the rogue does not know it
    # (a REAL ticket from a genuine earlier handshake), the rogue does not know it and either
    # leaves pre_shared_key out of its ServerHello or claims to have selected it
    for fl in ([[EE, FIN], [EE, CERT, CV, FIN]] if not full else flights(True)):
        for psk in (None, 0, 1):
            out.append((f"client-offers-psk psk={psk} cert=rogue flight={fl}", True, psk, "rogue", fl))
    return out


def run(ctx, full=False, label="rogue-server", only=None):
    """run the scenario set; every completion is a witness with the concrete flight.
    `only` = (offers, psk, cert, flight) re-executes one recorded scenario."""
    from aioquic import tls
    D.tap_extract()
    POST = tls.State.CLIENT_POST_HANDSHAKE
    rogue = _rogue_identity()
    victim_cert = None
    store = None
    n = hits = 0
    todo = scenarios(full)
    if only is not None:
        o_, p_, w_, f_ = only
        todo = [(f"replay offers={o_} psk={p_} cert={w_} flight={f_}", o_, p_, w_, list(f_))]
    for name, offers, psk, which, fl in todo:
        if offers and store is None:
            store = S.ticket_store()
        c = D.client()                       # trusts tests/pycacert.pem only, verify_mode = CERT_REQUIRED
        if offers:
            c.session_ticket = store.client[0]
        s = D.server(ident=rogue)            # no get_session_ticket_cb: it cannot know any PSK
        p = D.Pair(c, s)
        p.hello()
        if p.serve() is not None:
            continue
        f = D.Forger(p)
        if psk is not None:
            f.sh = tamper_hello(tls, f.sh, psk)
        if which == "victim":
            if victim_cert is None:
                victim_cert = S.pool()[CERT]
            cert_msg = victim_cert
        else:
            cert_msg = None                  # the rogue's own Certificate message
        msgs = f.flight(fl, cr=D.minimal(CR), cert=cert_msg)
        exc, _ = D.feed(c, f.sh)
        sent = [f.sh]
        if exc is None:
            for m in msgs:
                sent.append(m)
                exc, _ = D.feed(c, m)
                if exc is not None or c.state == POST:
                    break
        n += 1
        ctx.count((label, name), True)
        if c.state == POST:
            hits += 1
            ctx.witness(
                f"client reached CLIENT_POST_HANDSHAKE (session_resumed={c.session_resumed}) with a server that holds "
                f"neither a trusted certificate's private key nor a pre-shared key the client offered: {name}; "
                f"client {'offered' if offers else 'did NOT offer'} a PSK",
                {"kind": "rogue", "offers": offers, "psk": psk, "cert": which, "flight": fl,
                 "scenario": name, "client_hello": p.client_hello.hex(), "server_messages": [m.hex() for m in sent],
                 "client_offered_psk": offers, "server_hello_pre_shared_key": psk},
                {"oracle": "completes-without-authentication", "level": "tls", "rogue": "unsolicited-psk" if psk is not None
                 and not offers else ("unknown-psk" if offers else "no-certificate-proof"),
                 "processed": [m[0] for m in sent[1:]]})
    ctx.notes[label] = {"scenarios": n, "completed": hits}
    if only is None:
        hits += genuine_dfs(ctx, label + "-genuine")
        hits += rogue_content_dfs(ctx, label + "-content")
        hits += key_release_oracle(ctx, label + "-keys")
        hits += refusal_oracle(ctx, label + "-refusals")
        hits += bad_certificate_refusals(ctx, label + "-badcert")
        hits += binder_refusals(ctx, label + "-binder")
        hits += quic_bad_cert_split(ctx, label + "-quic-badcert-split", thorough=getattr(ctx, "tier", "quick") == "thorough")
        hits += quic_binder_refusals(ctx, label + "-quic-binder")
    return hits


# ------------------------------------------------------------------ message CONTENT variations
SH_VARIANTS = ["plain", "psk0", "psk1", "unknown-ext", "psk0+unknown-ext"]
EE_VARIANTS = ["early_data", "early_data+alpn", "alpn", "unknown-ext", "empty", "early_data+unknown-ext"]


def _vary_sh(tls, sh_bytes, variant):
    from aioquic.buffer import Buffer
    sh = tls.pull_server_hello(Buffer(data=sh_bytes))
    if "psk0" in variant:
        sh.pre_shared_key = 0
    if "psk1" in variant:
        sh.pre_shared_key = 1
    if "unknown-ext" in variant:
        sh.other_extensions = list(sh.other_extensions) + [(0xFEED, b"\x01\x02")]
    return _ser(tls.push_server_hello, sh)


def _vary_ee(tls, variant):
    tp = (tls.ExtensionType.QUIC_TRANSPORT_PARAMETERS, D.SERVER_TP)
    others = [] if variant == "empty" else [tp]
    if "unknown-ext" in variant:
        others.append((0xFEED, b"\x00"))
    return _ser(tls.push_encrypted_extensions, tls.EncryptedExtensions(
        alpn_protocol="h3" if "alpn" in variant else None, early_data="early_data" in variant, other_extensions=others))


def rogue_content_dfs(ctx, label="rogue-server-content", only=None):
    """Rogue server (no trusted key, no PSK) that also varies the CONTENT of
    ServerHello (pre_shared_key 0 / 1, unknown extension) and EncryptedExtensions
    (early_data, ALPN, unknown extension, no extension at all) for every flight
    shape; flights are explored as a prefix tree on the real client (a refused
    prefix refuses its extensions).  The client must never complete.
    `only` = (offers, sh variant, ee variant, cert, flight) re-executes one case."""
    from aioquic import tls
    D.tap_extract()
    POST = tls.State.CLIENT_POST_HANDSHAKE
    rogue = _rogue_identity()
    store = S.ticket_store()
    victim = S.pool()[CERT]
    total = hits = 0
    combos = [(o, sv, ev, w) for o in (False, True) for sv in SH_VARIANTS for ev in EE_VARIANTS for w in ("rogue", "victim")]
    if only is not None:
        combos = [tuple(only[:4])]
    for offers, sv, ev, which in combos:
        frontier = [[]]
        while frontier:
            prefix = frontier.pop()
            for t in (EE, CR, CERT, CV, FIN):
                if only is not None:
                    if t != EE:
                        continue
                    seq = list(only[4])
                elif t in prefix:
                    continue
                else:
                    seq = prefix + [t]
                c = D.client(alpn=["h3"] if "alpn" in ev else None)
                if offers:
                    c.session_ticket = store.client[0]
                p = D.Pair(c, D.server(ident=rogue, alpn=["h3"] if "alpn" in ev else None))
                p.hello()
                if p.serve() is not None:
                    continue
                f = D.Forger(p)
                f.sh = _vary_sh(tls, f.sh, sv)
                f.msgs[EE] = _vary_ee(tls, ev)
                msgs = f.flight(seq, cr=D.minimal(CR), cert=victim if which == "victim" else None)
                exc, _ = D.feed(c, f.sh)
                ok = exc is None
                if ok:
                    for m in msgs:
                        exc, _ = D.feed(c, m)
                        if exc is not None:
                            ok = False
                            break
                total += 1
                ctx.count((label, offers, sv, ev, which, tuple(seq)), True)
                if ok and c.state == POST:
                    hits += 1
                    ctx.witness(
                        f"client (PSK {'offered' if offers else 'NOT offered'}, CERT_REQUIRED) reached CLIENT_POST_HANDSHAKE "
                        f"with a server holding neither a trusted certificate key nor the PSK: ServerHello [{sv}], "
                        f"EncryptedExtensions [{ev}], flight {seq}, certificate shown: {which}; "
                        f"peer certificate = {c._peer_certificate!r}, session_resumed={c.session_resumed}",
                        {"kind": "rogue-content", "offers": offers, "sh": sv, "ee": ev, "cert": which, "flight": seq,
                         "client_hello": p.client_hello.hex(), "server_messages": [f.sh.hex()] + [m.hex() for m in msgs]},
                        {"oracle": "completes-without-authentication", "level": "tls", "rogue": "content",
                         "early_data_in_ee": "early_data" in ev, "psk_in_sh": "psk" in sv, "processed": seq})
                elif ok and only is None:
                    frontier.append(seq)
    ctx.notes[label] = {"runs": total, "completed": hits}
    return hits


LEGAL = {False: [[EE, CERT, CV, FIN], [EE, CR, CERT, CV, FIN]], True: [[EE, FIN]]}


def genuine_dfs(ctx, label="genuine-server-repetitions", max_len=8, max_rep=2, only=None):
    """Key-holding GENUINE server (trusted certificate, and the PSK when the client
    resumes) that sends ANY sequence of flight messages with repetitions — every
    message up to `max_rep` times, up to `max_len` messages — CertificateVerify and
    Finished recomputed over the transcript actually sent.

    The sequence space is explored as a prefix tree driven by the real client: a
    prefix is extended only while the client accepted it without exception and has
    not completed, so every accepted ordering / omission / repetition is reached
    (a refused prefix refuses all its extensions).  Oracle: the messages processed
    when the client completes must be exactly a legal flight of RFC 8446."""
    from aioquic import tls
    D.tap_extract()
    POST = tls.State.CLIENT_POST_HANDSHAKE
    store = S.ticket_store()
    pool = S.pool()
    rsa = S.ident("rsa")

    def plain():
        return D.Pair(D.client(), D.server()), False

    def client_auth():
        c = D.client()
        c.certificate, c.certificate_chain, c.certificate_private_key = S.ident("ec256")
        return D.Pair(c, D.server()), False

    def resumed():
        return S.resumed_pair(store), True

    def ticket_not_honoured():
        # the client holds and offers a real ticket; the genuine server does its own ECDHE only
        return S.resumed_pair(store, accept=False), False

    def ec256():
        idt = S.ident("ec256")
        return D.Pair(D.client(ident=idt), D.server(ident=idt)), False

    total = hits = 0
    completed = []
    variants = [("certificate", plain), ("client-auth", client_auth), ("resumed", resumed),
                ("ticket-not-honoured", ticket_not_honoured)]
    if only is not None:       # `only` = (variant, flight): re-execute one recorded flight
        variants = [(v, m) for v, m in variants + [("certificate-ec256", ec256)] if v == only[0]]
    for vname, mk in variants:
        frontier = [[]]
        while frontier:
            prefix = frontier.pop()
            for t in (EE, CR, CERT, CV, FIN):
                if only is not None:
                    if t != EE:
                        continue
                    seq = list(only[1])
                elif prefix.count(t) >= max_rep or len(prefix) >= max_len:
                    continue
                else:
                    seq = prefix + [t]
                p, res = mk()
                p.hello()
                if p.serve() is not None or p.s.session_resumed != res:
                    continue
                f = D.Forger(p)
                if res:
                    f.key, f.sigalg = rsa[2], 0x0804        # the genuine server also has its long-term key
                msgs = f.flight(seq, cr=pool[CR], cert=pool[CERT] if res else None)
                exc, _ = D.feed(p.c, f.sh)
                ok = exc is None
                if ok:
                    for m in msgs:
                        exc, _ = D.feed(p.c, m)
                        if exc is not None:
                            ok = False
                            break
                total += 1
                ctx.count((label, vname, tuple(seq)), True)
                if not ok:
                    continue
                if p.c.state == POST:
                    completed.append(seq)
                    if seq not in LEGAL[res]:
                        hits += 1
                        ctx.witness(
                            f"client ({vname}) completed the handshake on the server flight {seq} — not a legal TLS 1.3 "
                            f"flight (legal: {LEGAL[res]}); every message was produced by a key-holding server, "
                            f"CertificateVerify / Finished recomputed over the transcript sent"
                            + ("; the client's peer certificate is None" if p.c._peer_certificate is None else ""),
                            {"kind": "genuine", "variant": vname, "flight": seq, "client_hello": p.client_hello.hex(),
                             "server_messages": [f.sh.hex()] + [m.hex() for m in msgs],
                             "session_resumed": p.c.session_resumed},
                            {"oracle": "illegal-flight-completes", "level": "tls-dfs", "variant": vname, "flight": seq})
                elif only is None:
                    frontier.append(seq)
    ctx.notes[label] = {"sequences": total, "illegal_completed": hits, "completed": len(completed)}
    return hits


# ------------------------------------------------------------------ when are traffic secrets released
# RFC 8446 §7.1 / §4.4.4 and RFC 9001 §4.1.4 / §5.7: the message whose successful processing
# may hand a secret to QUIC (None = while producing the ClientHello)
CH, SH = 1, 2
RELEASE_RULE = {
    ("client", "ENCRYPT", "ZERO_RTT"): {None},           # from the offered PSK
    ("client", "DECRYPT", "HANDSHAKE"): {SH},
    ("client", "ENCRYPT", "HANDSHAKE"): {SH, EE},
    ("client", "DECRYPT", "ONE_RTT"): {FIN},             # only once the server Finished verified
    ("client", "ENCRYPT", "ONE_RTT"): {FIN},
    ("server", "DECRYPT", "ZERO_RTT"): {CH},             # binder verified
    ("server", "ENCRYPT", "HANDSHAKE"): {CH},
    ("server", "DECRYPT", "HANDSHAKE"): {CH},
    ("server", "ENCRYPT", "ONE_RTT"): {CH},              # 0.5-RTT data is allowed
    ("server", "DECRYPT", "ONE_RTT"): {FIN},             # only once the CLIENT Finished verified
}


class _Tap:
    """update_traffic_key_cb recorder: (role, direction, epoch, type of the message being processed,
    TLS state at the time of the call)"""

    def __init__(self, role, ctx_obj, log):
        self.role, self.c, self.log, self.current = role, ctx_obj, log, None
        ctx_obj.update_traffic_key_cb = self

    def __call__(self, direction, epoch, cipher_suite, secret):
        self.log.append((self.role, direction.name, epoch.name, self.current, self.c.state.name))


def key_release_oracle(ctx, label="key-release"):
    """honest handshakes (certificate, client-auth, resumed with 0-RTT, ticket refused), message by
    message, plus a forged client Finished: every traffic secret must be released only while
    processing the message that authenticates it (table above, written from the RFCs)"""
    from aioquic import tls
    D.tap_extract()
    store = S.ticket_store(max_early_data=0xFFFFFFFF)
    variants = [("certificate", lambda: D.Pair(D.client(), D.server())),
                ("client-auth", lambda: S.full_pair(tickets=False)),
                ("resumed-0rtt", lambda: S.resumed_pair(store)),
                ("ticket-refused", lambda: S.resumed_pair(store, accept=False))]
    n = hits = 0
    for vname, mk in variants:
        for forged_finished in (False, True):
            p = mk()
            log = []
            ct, st = _Tap("client", p.c, log), _Tap("server", p.s, log)
            exc, out = D.feed(p.c, b"")
            queue = [("s", m) for m in D.split(out)]
            steps = 0
            while queue and steps < 40:
                steps += 1
                dst, m = queue.pop(0)
                ctxo, tap, back = (p.s, st, "c") if dst == "s" else (p.c, ct, "s")
                if forged_finished and dst == "s" and m[0] == FIN:
                    m = m[:-1] + bytes([m[-1] ^ 0x01])
                tap.current = m[0]
                exc, out = D.feed(ctxo, m)
                tap.current = None
                if exc is not None:
                    break
                queue += [(back, x) for x in D.split(out)]
            n += 1
            ctx.count((label, vname, forged_finished), True)
            for role, d, e, mtype, state in log:
                allowed = RELEASE_RULE.get((role, d, e), set())
                if mtype not in allowed:
                    hits += 1
                    rel = f"{role} {d}/{e} while processing message type {mtype} in state {state}"
                    ctx.witness(
                        f"{vname}{' (client Finished forged)' if forged_finished else ''}: the {role} handed the "
                        f"{d} {e} traffic secret to QUIC while processing message type {mtype} (TLS state {state}); "
                        f"TLS 1.3 allows it only while processing {sorted(x for x in allowed if x is not None) or 'the ClientHello build'}"
                        f" — the secret is released before the message that authenticates it was verified",
                        {"kind": "key-release", "variant": vname, "forged_finished": forged_finished, "release": rel,
                         "releases": [list(x) for x in log]},
                        {"oracle": "key-before-authentication", "role": role, "direction": d, "epoch": e, "during": mtype})
            if forged_finished and any(r == "server" and d == "DECRYPT" and e == "ONE_RTT" for r, d, e, _, _ in log):
                hits += 1
                ctx.witness(f"{vname}: the server released its 1-RTT read secret although the client Finished did not verify",
                            {"kind": "key-release", "variant": vname, "forged_finished": True, "release": "forged",
                             "releases": [list(x) for x in log]},
                            {"oracle": "key-before-authentication", "role": "server", "forged": True})
    ctx.notes[label] = {"handshakes": n, "violations": hits}
    return hits


def _forge(tls, m):
    """the same message with its authentication value (Finished verify_data / CertificateVerify
    signature: the last byte) altered"""
    return m[:-1] + bytes([m[-1] ^ 0x01])


def refusal_oracle(ctx, label="refusals", only=None):
    """"A refused message changes nothing": honest handshakes (certificate, client-auth, resumed) are
    driven message by message; before every authentication message (server / client Finished, server /
    client CertificateVerify) a FORGED copy is delivered first.  It must be refused with an alert, must
    release no traffic secret and must leave the receiver exactly as it was — handshake state, key
    schedule generation and secret, transcript hash, pending secrets, flags (tlsdrive.digest) — and the
    genuine message delivered afterwards must still be accepted and the handshake must complete."""
    from aioquic import tls
    D.tap_extract()
    store = S.ticket_store()
    variants = [("certificate", lambda: D.Pair(D.client(), D.server())),
                ("client-auth", lambda: S.full_pair(tickets=False)),
                ("resumed", lambda: S.resumed_pair(store))]
    POST = {tls.State.CLIENT_POST_HANDSHAKE, tls.State.SERVER_POST_HANDSHAKE}
    n = hits = 0
    for vname, mk in variants:
        # which (receiver, message type) pairs get a forged copy first: one at a time
        ref = mk()
        targets = []
        exc, out = D.feed(ref.c, b"")
        queue = [("s", m) for m in D.split(out)]
        while queue:
            dst, m = queue.pop(0)
            if m[0] in (FIN, CV):
                targets.append((dst, m[0]))
            exc, out = D.feed(ref.s if dst == "s" else ref.c, m)
            if exc is not None:
                break
            queue += [("c" if dst == "s" else "s", x) for x in D.split(out)]
        for target in targets:
            if only is not None and (vname, target[0], target[1]) != tuple(only):
                continue
            p = mk()
            keys = {"c": D.KeyTap(p.c), "s": D.KeyTap(p.s)}
            exc, out = D.feed(p.c, b"")
            queue = [("s", m) for m in D.split(out)]
            problems, forged_hex, done_forge = [], None, False
            while queue:
                dst, m = queue.pop(0)
                rcv = p.s if dst == "s" else p.c
                if (dst, m[0]) == target and not done_forge:
                    done_forge = True
                    bad_m = _forge(tls, m)
                    forged_hex = bad_m.hex()
                    before, k0 = D.digest(rcv), len(keys[dst].calls)
                    exc, _ = D.feed(rcv, bad_m)
                    after = D.digest(rcv)
                    if exc is None:
                        problems.append("the forged message was ACCEPTED")
                    elif not isinstance(exc, tls.Alert):
                        problems.append(f"the forged message raised {type(exc).__name__}, not an alert")
                    if len(keys[dst].calls) != k0:
                        problems.append(f"traffic secrets were released while processing it: {keys[dst].names(k0)}")
                    changed = D.digest_diff(before, after)
                    if changed:
                        problems.append(f"the refused message changed {changed}")
                exc, out = D.feed(rcv, m)
                if exc is not None:
                    if done_forge:
                        problems.append(f"the genuine message delivered after the refused forgery was refused: {exc!r}")
                    break
                queue += [("c" if dst == "s" else "s", x) for x in D.split(out)]
            if done_forge and not problems and not (p.c.state in POST and p.s.state in POST):
                problems.append(f"the handshake did not complete after the refused forgery ({p.c.state.name}, {p.s.state.name})")
            n += 1
            ctx.count((label, vname, target), True)
            if problems:
                hits += 1
                who = "server" if target[0] == "s" else "client"
                ctx.witness(
                    f"{vname}: a forged message of type {target[1]} (authentication value altered) delivered to the {who} "
                    f"in the right place of an otherwise genuine handshake: " + "; ".join(problems),
                    {"kind": "refusal", "variant": vname, "receiver": target[0], "type": target[1], "forged_message": forged_hex,
                     "problems": problems},
                    {"oracle": "refused-message-changes-state", "receiver": who, "type": target[1]})
    ctx.notes[label] = {"cases": n, "violations": hits}
    return hits


def _frames(blob):
    out, pos = [], 0
    while pos + 4 <= len(blob):
        n = 4 + int.from_bytes(blob[pos + 1:pos + 4], "big")
        out.append(blob[pos:pos + n])
        pos += n
    return out


def _locate(msgs, k):
    """byte offset k of a flight -> (message index, offset in it): fresh certificates and signatures differ
    in length from run to run, a replayed cut is placed relative to the message it fell into"""
    pos = 0
    for i, m in enumerate(msgs):
        if k < pos + len(m):
            return [i, k - pos]
        pos += len(m)
    return [len(msgs), k - pos]


def _unlocate(msgs, loc):
    i, off = loc
    return sum(len(m) for m in msgs[:i]) + (min(off, len(msgs[i]) - 1) if i < len(msgs) else off)


def bad_certificate_refusals(ctx, label="bad-certificate-refusals", only=None):
    """Refusal points that are about the CERTIFICATE, not the signature: a server that genuinely holds
    the key of a certificate the client must not accept (untrusted self-signed / expired / valid for
    another name) and signs correctly.  (1) delivered message by message: the CertificateVerify is
    refused with an alert, releases nothing and leaves the client exactly as it was (strict digest);
    whatever is delivered AFTER the refusal — the connection keeps handing CRYPTO data to the TLS engine
    until it has sent its close — must not let the client complete.  (2) the whole server flight cut
    into two deliveries at EVERY byte boundary, the second delivered even if the first raised."""
    from aioquic import tls
    from . import quicpair as Q
    D.tap_extract()
    POST = tls.State.CLIENT_POST_HANDSHAKE
    good = Q.make_cert("ec256", name="localhost")
    cases = {
        "untrusted": (Q.make_cert("ec256", name="localhost"), good[0]),          # client trusts another certificate
        "expired": ((lambda c: (c, c[0]))(Q.make_cert("ec256", name="localhost", days=(-10, -1)))),
        "wrong-name": ((lambda c: (c, c[0]))(Q.make_cert("ec256", name="evil.example"))),
    }
    n = hits = 0

    def fresh(kind):
        (cert, key), anchor = cases[kind]
        p = D.Pair(D.client(server_name="localhost", cadata=D.pem(anchor)), D.server(ident=(cert, [], key)))
        p.hello()
        assert p.serve() is None
        return p

    def report(kind, how, problems, extra):
        nonlocal hits
        hits += 1
        ctx.witness(f"server with a genuine key but a certificate the client must refuse ({kind}), {how}: " + "; ".join(problems),
                    dict({"kind": "bad-cert-refusal", "case": kind, "how": how, "problems": problems}, **extra),
                    {"oracle": "refused-message-changes-state" if "split" not in how else "completes-without-authentication",
                     "certificate": kind, "delivery": how.split(" ")[0]})

    for kind in cases:
        if only is not None and only[0] != kind:
            continue
        # ---- (1) message by message
        if only is None or only[1] == "message-by-message":
            p = fresh(kind)
            kt = D.KeyTap(p.c)
            problems, refused = [], False
            for m in p.server_flight:
                before, k0 = D.digest(p.c), len(kt.calls)
                exc, _ = D.feed(p.c, m)
                if exc is not None:
                    refused = True
                    if not isinstance(exc, tls.Alert):
                        problems.append(f"message type {m[0]} raised {type(exc).__name__}, not an alert")
                    if len(kt.calls) != k0:
                        problems.append(f"traffic secrets released while refusing message type {m[0]}: {kt.names(k0)}")
                    changed = D.digest_diff(before, D.digest(p.c))
                    if changed:
                        problems.append(f"the refused message type {m[0]} changed {changed}")
            if not refused:
                problems.append("no message of the flight was refused")
            if p.c.state == POST:
                problems.append("the client reached CLIENT_POST_HANDSHAKE")
            n += 1
            ctx.count((label, kind, "messages"), True)
            if problems:
                report(kind, "message-by-message delivery (continuing after the alert)", problems,
                       {"server_messages": [m.hex() for m in p.server_flight]})
        # ---- (2) every byte boundary
        if only is None or only[1] == "split":
            size = len(b"".join(fresh(kind).server_flight))
            ks = range(size + 8) if only is None else [None]
            for k in ks:
                p = fresh(kind)
                blob = b"".join(p.server_flight)
                if k is None:
                    k = _unlocate(p.server_flight, only[2])
                D.feed(p.c, blob[:k])
                D.feed(p.c, blob[k:])
                n += 1
                if p.c.state == POST:
                    ctx.count((label, kind, "split", k), True)
                    report(kind, f"split flight: delivered in two pieces cut at byte {k} (second piece delivered after the "
                                 f"first raised)", ["the client reached CLIENT_POST_HANDSHAKE"],
                           {"split_at": k, "split_in_message": _locate(p.server_flight, k), "flight": blob.hex()})
                    break
            ctx.count((label, kind, "split"), True)
    ctx.notes[label] = {"cases": n, "violations": hits}
    return hits


def binder_refusals(ctx, label="binder-refusals", only=None):
    """a resumed ClientHello naming a VALID ticket identity and offering early data whose binder does
    not verify (computed from a wrong secret, last byte flipped, truncated), on a server with a ticket
    store and early data enabled: it is refused and, before that, nothing may have been handed out —
    no traffic secret (in particular no 0-RTT read secret), `early_data_accepted` and
    `session_resumed` stay False, the state does not move.  A wrong identity with a right binder is
    not resumed."""
    import dataclasses
    from aioquic import tls
    from aioquic.buffer import Buffer
    D.tap_extract()
    store = S.ticket_store(max_early_data=0xFFFFFFFF)
    ticket = store.client[0]
    n = hits = 0

    def hello(tk):
        c = D.client()
        c.session_ticket = tk
        exc, out = D.feed(c, b"")
        assert exc is None
        return out

    def reencode(ch, f):
        h = tls.pull_client_hello(Buffer(data=ch))
        f(h)
        b = Buffer(capacity=len(ch) + 64)
        tls.push_client_hello(b, h)
        return b.data

    good = hello(ticket)
    variants = [("binder from a wrong secret", hello(dataclasses.replace(ticket, resumption_secret=bytes(len(ticket.resumption_secret)))), True),
                ("binder last byte flipped", good[:-1] + bytes([good[-1] ^ 1]), True)]
    for k in (0, 1, 16, 31, 32, 47):
        variants.append((f"binder truncated to {k} bytes",
                         reencode(good, lambda h, k=k: h.pre_shared_key.binders.__setitem__(0, h.pre_shared_key.binders[0][:k])), True))
    variants.append(("unknown identity with the right binder",
                     reencode(good, lambda h: h.pre_shared_key.identities.__setitem__(0, (b"unknown-" + h.pre_shared_key.identities[0][0][8:], h.pre_shared_key.identities[0][1]))), False))
    for name, ch, must_refuse in variants:
        if only is not None and only != name:
            continue
        s = S.resumed_pair(store).s
        kt = D.KeyTap(s)
        st0 = s.state
        exc, _ = D.feed(s, ch)
        problems = []
        zero = [x for x in kt.names() if x.endswith("ZERO_RTT")]
        if must_refuse:
            if exc is None:
                problems.append("the ClientHello was accepted")
            elif not isinstance(exc, tls.Alert):
                problems.append(f"raised {type(exc).__name__}, not an alert")
            if kt.calls:
                problems.append(f"traffic secrets were released before the binder was checked: {kt.names()}")
            if s.state != st0:
                problems.append(f"state moved to {s.state.name}")
        if zero and (must_refuse or not s.session_resumed):
            problems.append(f"0-RTT read secret released: {zero}")
        if s.early_data_accepted and (exc is not None or not s.session_resumed):
            problems.append("early_data_accepted was set")
        if s.session_resumed and (must_refuse or "unknown identity" in name):
            problems.append("session_resumed was set")
        n += 1
        ctx.count((label, name), True)
        if problems:
            hits += 1
            ctx.witness(f"server with ticket store and early data, resumed ClientHello with {name}: " + "; ".join(problems),
                        {"kind": "binder-refusal", "variant": name, "client_hello": ch.hex(), "problems": problems},
                        {"oracle": "key-before-authentication" if zero or kt.calls else "refused-message-changes-state",
                         "binder": name.split(" ")[0] + " " + name.split(" ")[1]})
    ctx.notes[label] = {"cases": n, "violations": hits}
    return hits


def quic_bad_cert_split(ctx, label="quic-bad-certificate-split", thorough=False, only=None, seed=6100):
    """QUIC level of `bad_certificate_refusals`: a real QuicConnection server with an untrusted self-signed
    certificate; its Handshake-level CRYPTO flight is cut at byte k into two datagram batches, both handed to
    the client WITHOUT a transmit in between (the client decides to close on the first but only acts on it
    when it next sends).  The client must never report HandshakeCompleted.  quick: every message boundary
    -1/0/+1 and a stride; thorough: every byte."""
    from aioquic import tls
    from aioquic.quic.rangeset import RangeSet
    from . import sim as simmod, quicpair as Q
    cert, key = Q.make_cert("ec256", name="localhost")

    def attempt(loc):       # loc = (message index, offset in it): signatures differ in length between attempts
        s = simmod.Sim(seed, client_options={"server_name": "localhost"}, server_options={})
        try:
            sc = s.server.conn
            sc._configuration.certificate, sc._configuration.certificate_chain, sc._configuration.private_key = cert, [], key
            s.connect()
            for d in list(s.pending):
                s.api(s.server, "receive_datagram", d["data"], d["from"], now=s.now)
            s.pending.clear()
            snd = sc._crypto_streams[tls.Epoch.HANDSHAKE].sender
            full = bytes(snd._buffer)
            if loc is None:
                return full
            k = _unlocate(_frames(full), loc)
            snd._buffer, snd._buffer_stop, snd._pending = bytearray(full[:k]), k, RangeSet()
            if k:
                snd._pending.add(0, k)
            s.transmit(s.server)
            if k < len(full):
                snd.write(full[k:])
                s.transmit(s.server)
            batch = list(s.pending)
            s.pending.clear()
            for d in batch:
                s.api(s.client, "receive_datagram", d["data"], d["from"], now=s.now)
            s.transmit(s.client)
            names = [type(e).__name__ for _, e in s.client.events]
            return "HandshakeCompleted" in names, names, [d["data"].hex() for d in batch], k, len(full)
        finally:
            s.close_taps()

    full = attempt(None)
    if only is not None:
        ks = [only]
    elif thorough:
        ks = [_locate(_frames(full), k) for k in range(len(full) + 1)]
    else:
        bounds, pos = set(), 0
        while pos < len(full):
            pos += 4 + int.from_bytes(full[pos + 1:pos + 4], "big")
            bounds.update((pos - 1, pos, pos + 1))
        ks = [_locate(_frames(full), k) for k in sorted(bounds | set(range(0, len(full), 61))) if 0 <= k <= len(full)]
        ks += [[i, len(m) - 1] for i, m in enumerate(_frames(full))]
    hits = 0
    for loc in ks:
        done, names, dgrams, k, size = attempt(loc)
        ctx.count((label, tuple(loc)), True)
        if done:
            hits += 1
            ctx.witness(f"QUIC client, server with an untrusted self-signed certificate, Handshake CRYPTO flight cut at byte {k} "
                        f"of {size} (message #{loc[0]} of the flight, offset {loc[1]}) into two datagram batches delivered without a transmit in between: the client "
                        f"reported HandshakeCompleted (events {names})",
                        {"kind": "quic-bad-cert-split", "split_at": k, "split_in_message": list(loc), "seed": seed, "datagrams_to_client": dgrams},
                        {"oracle": "completes-without-authentication", "level": "quic", "delivery": "split"})
            break
    ctx.notes[label] = {"cases": len(ks), "violations": hits}
    return hits


def quic_binder_refusals(ctx, label="quic-binder-refusals", only=None, seed=6200):
    """QUIC level of `binder_refusals`: a ticket earned on a real connection is offered again with early data,
    with a resumption secret the server does not share (wrong binder) / under an identity the server does not
    know.  The server's 0-RTT receive keys must never become valid and nothing may be resumed."""
    import dataclasses
    from aioquic import tls
    from . import quicpair as Q
    store = S.TicketStore()
    r1 = Q.run(seed, {}, {}, tickets=store)
    if not (r1.client["completed"] and r1.tickets):
        ctx.witness("no session ticket from a first connection", {}, {"oracle": "no-ticket"})
        return 1
    t = r1.tickets[0]
    variants = {"wrong resumption secret": dataclasses.replace(t, resumption_secret=bytes(len(t.resumption_secret))),
                "unknown identity": dataclasses.replace(t, ticket=b"unknown-" + t.ticket[8:])}
    hits = 0
    for i, (name, tk) in enumerate(variants.items()):
        if only is not None and only != name:
            continue
        res = Q.run(seed + 1 + i, {}, {}, tickets=store, offer_ticket=tk)
        sconn = res.sim.server.conn
        problems = []
        if sconn._cryptos[tls.Epoch.ZERO_RTT].recv.is_valid():
            problems.append("the server installed 0-RTT receive keys")
        if any(k.startswith("CLIENT_EARLY") for k in res.server["secrets"]):
            problems.append("the server derived and logged a client early traffic secret")
        for side in ("client", "server"):
            info = getattr(res, side)
            if info["completed"] and (info["event"][1] or info["event"][2]):
                problems.append(f"{side} HandshakeCompleted with session_resumed={info['event'][1]} early_data_accepted={info['event'][2]}")
        if name == "wrong resumption secret" and res.server["completed"]:
            problems.append("the server completed the handshake")
        ctx.count((label, name), True)
        if problems:
            hits += 1
            ctx.witness(f"QUIC server with ticket store, ticket re-offered with early data and {name}: " + "; ".join(problems),
                        {"kind": "quic-binder-refusal", "variant": name, "seed": seed, "problems": problems},
                        {"oracle": "key-before-authentication", "level": "quic", "binder": name})
    ctx.notes[label] = {"cases": len(variants), "violations": hits}
    return hits


def replay(rep):
    """re-execute a recorded rogue / genuine-server flight on the current tree;
    returns the list of witnesses it produces again (empty = no longer failing)"""
    from . import core
    ctx = core.Ctx("replay", "quick")
    if rep.get("kind") == "rogue-content":
        rogue_content_dfs(ctx, label="replay", only=(rep["offers"], rep["sh"], rep["ee"], rep["cert"], rep["flight"]))
    elif rep.get("kind") == "key-release":
        key_release_oracle(ctx, label="replay")
    elif rep.get("kind") == "bad-cert-refusal":
        bad_certificate_refusals(ctx, label="replay", only=(rep["case"], "split" if "split_at" in rep else "message-by-message",
                                                             rep.get("split_in_message")))
    elif rep.get("kind") == "quic-bad-cert-split":
        quic_bad_cert_split(ctx, label="replay", only=rep["split_in_message"], seed=rep["seed"])
    elif rep.get("kind") == "quic-binder-refusal":
        quic_binder_refusals(ctx, label="replay", only=rep["variant"], seed=rep["seed"])
    elif rep.get("kind") == "binder-refusal":
        binder_refusals(ctx, label="replay", only=rep["variant"])
    elif rep.get("kind") == "refusal":
        refusal_oracle(ctx, label="replay", only=(rep["variant"], rep["receiver"], rep["type"]))
    elif rep.get("kind") == "rogue":
        run(ctx, label="replay", only=(rep["offers"], rep["psk"], rep["cert"], rep["flight"]))
    elif rep.get("kind") == "genuine":
        v = {"cert-rsa": "certificate", "cert-ec256": "certificate-ec256"}.get(rep["variant"], rep["variant"])
        genuine_dfs(ctx, label="replay", only=(v, rep["flight"]))
    else:
        return None
    if rep.get("kind") == "key-release":
        return [w for w in ctx.witnesses if w["replay"].get("release") == rep.get("release")]
    return ctx.witnesses
