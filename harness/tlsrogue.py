"""Rogue-server scenarios on a real client `tls.Context` (failing-input search
for C03 / C11; the full set is cheap (about 3 s) and also runs on every C03 check).

The rogue server performs the key exchange honestly (so it knows the handshake
secrets and can compute any Finished over the public transcript) but holds
NEITHER the private key of a certificate the client trusts for the requested
name NOR a resumption secret the client offered.  Whatever it sends, the client
must not reach CLIENT_POST_HANDSHAKE.

Oracle (from the property text of C03 / C11): "a client reports handshake
completion only after the server has proved possession of the private key of a
certificate that validates for the requested name (or of a resumption secret the
client offered)".
"""
import itertools

from . import tlsdrive as D
from . import tlsscen as S

EE, CR, CERT, CV, FIN = 8, 13, 11, 15, 20


def _ser(push, obj, cap=16384):
    from aioquic.buffer import Buffer
    b = Buffer(capacity=cap)
    push(b, obj)
    return b.data


def _rogue_identity():
    """self-signed certificate for the requested name that the client does NOT trust"""
    from . import quicpair as Q
    cert, key = Q.make_cert("ec256", name="localhost")
    return cert, [], key


def tamper_hello(tls, sh_bytes, psk):
    """ServerHello with an unsolicited / altered pre_shared_key extension"""
    from aioquic.buffer import Buffer
    sh = tls.pull_server_hello(Buffer(data=sh_bytes))
    sh.pre_shared_key = psk
    return _ser(tls.push_server_hello, sh)


def flights(full):
    base = [EE, CR, CERT, CV, FIN]
    if full:
        out = []
        for k in range(0, 6):
            for sub in itertools.combinations(base, k):
                out += [list(p) for p in itertools.permutations(sub)]
        return out
    return [[EE, FIN], [EE, CERT, CV, FIN], [EE, CERT, FIN], [EE, CR, FIN], [FIN], [EE, CR, CERT, CV, FIN], [EE, CV, FIN]]


def scenarios(full):
    """(name, client offers a PSK, pre_shared_key value put into ServerHello or None,
    which certificate the rogue shows: 'rogue' (own, untrusted) | 'victim' (the genuine
    server's public certificate, whose key the rogue does not have), flight)"""
    out = []
    for fl in flights(full):
        for psk in (None, 0) + ((1,) if full else ()):
            for cert in ("rogue", "victim"):
                if cert == "victim" and CERT not in fl:
                    continue
                out.append((f"psk={psk} cert={cert} flight={fl}", False, psk, cert, fl))
    # the client DID offer a PSK, the rogue does not know it
    # (a REAL ticket from a genuine earlier handshake), the rogue does not know it and either
    # leaves pre_shared_key out of its ServerHello or claims to have selected it
    for fl in ([[EE, FIN], [EE, CERT, CV, FIN]] if not full else flights(True)):
        for psk in (None, 0, 1):
            out.append((f"client-offers-psk psk={psk} cert=rogue flight={fl}", True, psk, "rogue", fl))
    return out


def run(ctx, full=False, label="rogue-server", only=None):
    """run the scenario set; every completion is a witness with the concrete flight.
    `only` = (offers, psk, cert, flight) re-executes one recorded scenario."""
    from aioquic import tls
    D.tap_extract()
    POST = tls.State.CLIENT_POST_HANDSHAKE
    rogue = _rogue_identity()
    victim_cert = None
    store = None
    n = hits = 0
    todo = scenarios(full)
    if only is not None:
        o_, p_, w_, f_ = only
        todo = [(f"replay offers={o_} psk={p_} cert={w_} flight={f_}", o_, p_, w_, list(f_))]
    for name, offers, psk, which, fl in todo:
        if offers and store is None:
            store = S.ticket_store()
        c = D.client()                       # trusts tests/pycacert.pem only, verify_mode = CERT_REQUIRED
        if offers:
            c.session_ticket = store.client[0]
        s = D.server(ident=rogue)            # no get_session_ticket_cb: it cannot know any PSK
        p = D.Pair(c, s)
        p.hello()
        if p.serve() is not None:
            continue
        f = D.Forger(p)
        if psk is not None:
            f.sh = tamper_hello(tls, f.sh, psk)
        if which == "victim":
            if victim_cert is None:
                victim_cert = S.pool()[CERT]
            cert_msg = victim_cert
        else:
            cert_msg = None                  # the rogue's own Certificate message
        msgs = f.flight(fl, cr=D.minimal(CR), cert=cert_msg)
        exc, _ = D.feed(c, f.sh)
        sent = [f.sh]
        if exc is None:
            for m in msgs:
                sent.append(m)
                exc, _ = D.feed(c, m)
                if exc is not None or c.state == POST:
                    break
        n += 1
        ctx.count((label, name), True)
        if c.state == POST:
            hits += 1
            ctx.witness(
                f"client reached CLIENT_POST_HANDSHAKE (session_resumed={c.session_resumed}) with a server that holds "
                f"neither a trusted certificate's private key nor a pre-shared key the client offered: {name}; "
                f"client {'offered' if offers else 'did NOT offer'} a PSK",
                {"kind": "rogue", "offers": offers, "psk": psk, "cert": which, "flight": fl,
                 "scenario": name, "client_hello": p.client_hello.hex(), "server_messages": [m.hex() for m in sent],
                 "client_offered_psk": offers, "server_hello_pre_shared_key": psk},
                {"oracle": "completes-without-authentication", "level": "tls", "rogue": "unsolicited-psk" if psk is not None
                 and not offers else ("unknown-psk" if offers else "no-certificate-proof"),
                 "processed": [m[0] for m in sent[1:]]})
    ctx.notes[label] = {"scenarios": n, "completed": hits}
    if only is None:
        hits += genuine_dfs(ctx, label + "-genuine")
        hits += rogue_content_dfs(ctx, label + "-content")
        hits += key_release_oracle(ctx, label + "-keys")
        hits += refusal_oracle(ctx, label + "-refusals")
    return hits


# ------------------------------------------------------------------ message CONTENT variations
SH_VARIANTS = ["plain", "psk0", "psk1", "unknown-ext", "psk0+unknown-ext"]
EE_VARIANTS = ["early_data", "early_data+alpn", "alpn", "unknown-ext", "empty", "early_data+unknown-ext"]


def _vary_sh(tls, sh_bytes, variant):
    from aioquic.buffer import Buffer
    sh = tls.pull_server_hello(Buffer(data=sh_bytes))
    if "psk0" in variant:
        sh.pre_shared_key = 0
    if "psk1" in variant:
        sh.pre_shared_key = 1
    if "unknown-ext" in variant:
        sh.other_extensions = list(sh.other_extensions) + [(0xFEED, b"\x01\x02")]
    return _ser(tls.push_server_hello, sh)


def _vary_ee(tls, variant):
    tp = (tls.ExtensionType.QUIC_TRANSPORT_PARAMETERS, D.SERVER_TP)
    others = [] if variant == "empty" else [tp]
    if "unknown-ext" in variant:
        others.append((0xFEED, b"\x00"))
    return _ser(tls.push_encrypted_extensions, tls.EncryptedExtensions(
        alpn_protocol="h3" if "alpn" in variant else None, early_data="early_data" in variant, other_extensions=others))


def rogue_content_dfs(ctx, label="rogue-server-content", only=None):
    """Rogue server (no trusted key, no PSK) that also varies the CONTENT of
    ServerHello (pre_shared_key 0 / 1, unknown extension) and EncryptedExtensions
    (early_data, ALPN, unknown extension, no extension at all) for every flight
    shape; flights are explored as a prefix tree on the real client (a refused
    prefix refuses its extensions).  The client must never complete.
    `only` = (offers, sh variant, ee variant, cert, flight) re-executes one case."""
    from aioquic import tls
    D.tap_extract()
    POST = tls.State.CLIENT_POST_HANDSHAKE
    rogue = _rogue_identity()
    store = S.ticket_store()
    victim = S.pool()[CERT]
    total = hits = 0
    combos = [(o, sv, ev, w) for o in (False, True) for sv in SH_VARIANTS for ev in EE_VARIANTS for w in ("rogue", "victim")]
    if only is not None:
        combos = [tuple(only[:4])]
    for offers, sv, ev, which in combos:
        frontier = [[]]
        while frontier:
            prefix = frontier.pop()
            for t in (EE, CR, CERT, CV, FIN):
                if only is not None:
                    if t != EE:
                        continue
                    seq = list(only[4])
                elif t in prefix:
                    continue
                else:
                    seq = prefix + [t]
                c = D.client(alpn=["h3"] if "alpn" in ev else None)
                if offers:
                    c.session_ticket = store.client[0]
                p = D.Pair(c, D.server(ident=rogue, alpn=["h3"] if "alpn" in ev else None))
                p.hello()
                if p.serve() is not None:
                    continue
                f = D.Forger(p)
                f.sh = _vary_sh(tls, f.sh, sv)
                f.msgs[EE] = _vary_ee(tls, ev)
                msgs = f.flight(seq, cr=D.minimal(CR), cert=victim if which == "victim" else None)
                exc, _ = D.feed(c, f.sh)
                ok = exc is None
                if ok:
                    for m in msgs:
                        exc, _ = D.feed(c, m)
                        if exc is not None:
                            ok = False
                            break
                total += 1
                ctx.count((label, offers, sv, ev, which, tuple(seq)), True)
                if ok and c.state == POST:
                    hits += 1
                    ctx.witness(
                        f"client (PSK {'offered' if offers else 'NOT offered'}, CERT_REQUIRED) reached CLIENT_POST_HANDSHAKE "
                        f"with a server holding neither a trusted certificate key nor the PSK: ServerHello [{sv}], "
                        f"EncryptedExtensions [{ev}], flight {seq}, certificate shown: {which}; "
                        f"peer certificate = {c._peer_certificate!r}, session_resumed={c.session_resumed}",
                        {"kind": "rogue-content", "offers": offers, "sh": sv, "ee": ev, "cert": which, "flight": seq,
                         "client_hello": p.client_hello.hex(), "server_messages": [f.sh.hex()] + [m.hex() for m in msgs]},
                        {"oracle": "completes-without-authentication", "level": "tls", "rogue": "content",
                         "early_data_in_ee": "early_data" in ev, "psk_in_sh": "psk" in sv, "processed": seq})
                elif ok and only is None:
                    frontier.append(seq)
    ctx.notes[label] = {"runs": total, "completed": hits}
    return hits


LEGAL = {False: [[EE, CERT, CV, FIN], [EE, CR, CERT, CV, FIN]], True: [[EE, FIN]]}


def genuine_dfs(ctx, label="genuine-server-repetitions", max_len=8, max_rep=2, only=None):
    """Key-holding GENUINE server (trusted certificate, and the PSK when the client
    resumes) that sends ANY sequence of flight messages with repetitions — every
    message up to `max_rep` times, up to `max_len` messages — CertificateVerify and
    Finished recomputed over the transcript actually sent.

    The sequence space is explored as a prefix tree driven by the real client: a
    prefix is extended only while the client accepted it without exception and has
    not completed, so every accepted ordering / omission / repetition is reached
    (a refused prefix refuses all its extensions).  Oracle: the messages processed
    when the client completes must be exactly a legal flight of RFC 8446."""
    from aioquic import tls
    D.tap_extract()
    POST = tls.State.CLIENT_POST_HANDSHAKE
    store = S.ticket_store()
    pool = S.pool()
    rsa = S.ident("rsa")

    def plain():
        return D.Pair(D.client(), D.server()), False

    def client_auth():
        c = D.client()
        c.certificate, c.certificate_chain, c.certificate_private_key = S.ident("ec256")
        return D.Pair(c, D.server()), False

    def resumed():
        return S.resumed_pair(store), True

    def ticket_not_honoured():
        # the client holds and offers a real ticket; the genuine server does its own ECDHE only
        return S.resumed_pair(store, accept=False), False

    def ec256():
        idt = S.ident("ec256")
        return D.Pair(D.client(ident=idt), D.server(ident=idt)), False

    total = hits = 0
    completed = []
    variants = [("certificate", plain), ("client-auth", client_auth), ("resumed", resumed),
                ("ticket-not-honoured", ticket_not_honoured)]
    if only is not None:       # `only` = (variant, flight): re-execute one recorded flight
        variants = [(v, m) for v, m in variants + [("certificate-ec256", ec256)] if v == only[0]]
    for vname, mk in variants:
        frontier = [[]]
        while frontier:
            prefix = frontier.pop()
            for t in (EE, CR, CERT, CV, FIN):
                if only is not None:
                    if t != EE:
                        continue
                    seq = list(only[1])
                elif prefix.count(t) >= max_rep or len(prefix) >= max_len:
                    continue
                else:
                    seq = prefix + [t]
                p, res = mk()
                p.hello()
                if p.serve() is not None or p.s.session_resumed != res:
                    continue
                f = D.Forger(p)
                if res:
                    f.key, f.sigalg = rsa[2], 0x0804        # the genuine server also has its long-term key
                msgs = f.flight(seq, cr=pool[CR], cert=pool[CERT] if res else None)
                exc, _ = D.feed(p.c, f.sh)
                ok = exc is None
                if ok:
                    for m in msgs:
                        exc, _ = D.feed(p.c, m)
                        if exc is not None:
                            ok = False
                            break
                total += 1
                ctx.count((label, vname, tuple(seq)), True)
                if not ok:
                    continue
                if p.c.state == POST:
                    completed.append(seq)
                    if seq not in LEGAL[res]:
                        hits += 1
                        ctx.witness(
                            f"client ({vname}) completed the handshake on the server flight {seq} — not a legal TLS 1.3 "
                            f"flight (legal: {LEGAL[res]}); every message was produced by a key-holding server, "
                            f"CertificateVerify / Finished recomputed over the transcript sent"
                            + ("; the client's peer certificate is None" if p.c._peer_certificate is None else ""),
                            {"kind": "genuine", "variant": vname, "flight": seq, "client_hello": p.client_hello.hex(),
                             "server_messages": [f.sh.hex()] + [m.hex() for m in msgs],
                             "session_resumed": p.c.session_resumed},
                            {"oracle": "illegal-flight-completes", "level": "tls-dfs", "variant": vname, "flight": seq})
                elif only is None:
                    frontier.append(seq)
    ctx.notes[label] = {"sequences": total, "illegal_completed": hits, "completed": len(completed)}
    return hits


# ------------------------------------------------------------------ when are traffic secrets released
# RFC 8446 §7.1 / §4.4.4 and RFC 9001 §4.1.4 / §5.7: the message whose successful processing
# may hand a secret to QUIC (None = while producing the ClientHello)
CH, SH = 1, 2
RELEASE_RULE = {
    ("client", "ENCRYPT", "ZERO_RTT"): {None},           # from the offered PSK
    ("client", "DECRYPT", "HANDSHAKE"): {SH},
    ("client", "ENCRYPT", "HANDSHAKE"): {SH, EE},
    ("client", "DECRYPT", "ONE_RTT"): {FIN},             # only once the server Finished verified
    ("client", "ENCRYPT", "ONE_RTT"): {FIN},
    ("server", "DECRYPT", "ZERO_RTT"): {CH},             # binder verified
    ("server", "ENCRYPT", "HANDSHAKE"): {CH},
    ("server", "DECRYPT", "HANDSHAKE"): {CH},
    ("server", "ENCRYPT", "ONE_RTT"): {CH},              # 0.5-RTT data is allowed
    ("server", "DECRYPT", "ONE_RTT"): {FIN},             # only once the CLIENT Finished verified
}


class _Tap:
    """update_traffic_key_cb recorder: (role, direction, epoch, type of the message being processed,
    TLS state at the time of the call)"""

    def __init__(self, role, ctx_obj, log):
        self.role, self.c, self.log, self.current = role, ctx_obj, log, None
        ctx_obj.update_traffic_key_cb = self

    def __call__(self, direction, epoch, cipher_suite, secret):
        self.log.append((self.role, direction.name, epoch.name, self.current, self.c.state.name))


def key_release_oracle(ctx, label="key-release"):
    """honest handshakes (certificate, client-auth, resumed with 0-RTT, ticket refused), message by
    message, plus a forged client Finished: every traffic secret must be released only while
    processing the message that authenticates it (table above, written from the RFCs)"""
    from aioquic import tls
    D.tap_extract()
    store = S.ticket_store(max_early_data=0xFFFFFFFF)
    variants = [("certificate", lambda: D.Pair(D.client(), D.server())),
                ("client-auth", lambda: S.full_pair(tickets=False)),
                ("resumed-0rtt", lambda: S.resumed_pair(store)),
                ("ticket-refused", lambda: S.resumed_pair(store, accept=False))]
    n = hits = 0
    for vname, mk in variants:
        for forged_finished in (False, True):
            p = mk()
            log = []
            ct, st = _Tap("client", p.c, log), _Tap("server", p.s, log)
            exc, out = D.feed(p.c, b"")
            queue = [("s", m) for m in D.split(out)]
            steps = 0
            while queue and steps < 40:
                steps += 1
                dst, m = queue.pop(0)
                ctxo, tap, back = (p.s, st, "c") if dst == "s" else (p.c, ct, "s")
                if forged_finished and dst == "s" and m[0] == FIN:
                    m = m[:-1] + bytes([m[-1] ^ 0x01])
                tap.current = m[0]
                exc, out = D.feed(ctxo, m)
                tap.current = None
                if exc is not None:
                    break
                queue += [(back, x) for x in D.split(out)]
            n += 1
            ctx.count((label, vname, forged_finished), True)
            for role, d, e, mtype, state in log:
                allowed = RELEASE_RULE.get((role, d, e), set())
                if mtype not in allowed:
                    hits += 1
                    rel = f"{role} {d}/{e} while processing message type {mtype} in state {state}"
                    ctx.witness(
                        f"{vname}{' (client Finished forged)' if forged_finished else ''}: the {role} handed the "
                        f"{d} {e} traffic secret to QUIC while processing message type {mtype} (TLS state {state}); "
                        f"TLS 1.3 allows it only while processing {sorted(x for x in allowed if x is not None) or 'the ClientHello build'}"
                        f" — the secret is released before the message that authenticates it was verified",
                        {"kind": "key-release", "variant": vname, "forged_finished": forged_finished, "release": rel,
                         "releases": [list(x) for x in log]},
                        {"oracle": "key-before-authentication", "role": role, "direction": d, "epoch": e, "during": mtype})
            if forged_finished and any(r == "server" and d == "DECRYPT" and e == "ONE_RTT" for r, d, e, _, _ in log):
                hits += 1
                ctx.witness(f"{vname}: the server released its 1-RTT read secret although the client Finished did not verify",
                            {"kind": "key-release", "variant": vname, "forged_finished": True, "release": "forged",
                             "releases": [list(x) for x in log]},
                            {"oracle": "key-before-authentication", "role": "server", "forged": True})
    ctx.notes[label] = {"handshakes": n, "violations": hits}
    return hits


def _forge(tls, m):
    """the same message with its authentication value (Finished verify_data / CertificateVerify
    signature: the last byte) altered"""
    return m[:-1] + bytes([m[-1] ^ 0x01])


def refusal_oracle(ctx, label="refusals", only=None):
    """"A refused message changes nothing": honest handshakes (certificate, client-auth, resumed) are
    driven message by message; before every authentication message (server / client Finished, server /
    client CertificateVerify) a FORGED copy is delivered first.  It must be refused with an alert, must
    release no traffic secret and must leave the receiver exactly as it was — handshake state, key
    schedule generation and secret, transcript hash, pending secrets, flags (tlsdrive.digest) — and the
    genuine message delivered afterwards must still be accepted and the handshake must complete."""
    from aioquic import tls
    D.tap_extract()
    store = S.ticket_store()
    variants = [("certificate", lambda: D.Pair(D.client(), D.server())),
                ("client-auth", lambda: S.full_pair(tickets=False)),
                ("resumed", lambda: S.resumed_pair(store))]
    POST = {tls.State.CLIENT_POST_HANDSHAKE, tls.State.SERVER_POST_HANDSHAKE}
    n = hits = 0
    for vname, mk in variants:
        # which (receiver, message type) pairs get a forged copy first: one at a time
        ref = mk()
        targets = []
        exc, out = D.feed(ref.c, b"")
        queue = [("s", m) for m in D.split(out)]
        while queue:
            dst, m = queue.pop(0)
            if m[0] in (FIN, CV):
                targets.append((dst, m[0]))
            exc, out = D.feed(ref.s if dst == "s" else ref.c, m)
            if exc is not None:
                break
            queue += [("c" if dst == "s" else "s", x) for x in D.split(out)]
        for target in targets:
            if only is not None and (vname, target[0], target[1]) != tuple(only):
                continue
            p = mk()
            keys = {"c": D.KeyTap(p.c), "s": D.KeyTap(p.s)}
            exc, out = D.feed(p.c, b"")
            queue = [("s", m) for m in D.split(out)]
            problems, forged_hex, done_forge = [], None, False
            while queue:
                dst, m = queue.pop(0)
                rcv = p.s if dst == "s" else p.c
                if (dst, m[0]) == target and not done_forge:
                    done_forge = True
                    bad_m = _forge(tls, m)
                    forged_hex = bad_m.hex()
                    before, k0 = D.digest(rcv), len(keys[dst].calls)
                    exc, _ = D.feed(rcv, bad_m)
                    after = D.digest(rcv)
                    if exc is None:
                        problems.append("the forged message was ACCEPTED")
                    elif not isinstance(exc, tls.Alert):
                        problems.append(f"the forged message raised {type(exc).__name__}, not an alert")
                    if len(keys[dst].calls) != k0:
                        problems.append(f"traffic secrets were released while processing it: {keys[dst].names(k0)}")
                    changed = D.digest_diff(before, after)
                    if changed:
                        problems.append(f"the refused message changed {changed}")
                exc, out = D.feed(rcv, m)
                if exc is not None:
                    if done_forge:
                        problems.append(f"the genuine message delivered after the refused forgery was refused: {exc!r}")
                    break
                queue += [("c" if dst == "s" else "s", x) for x in D.split(out)]
            if done_forge and not problems and not (p.c.state in POST and p.s.state in POST):
                problems.append(f"the handshake did not complete after the refused forgery ({p.c.state.name}, {p.s.state.name})")
            n += 1
            ctx.count((label, vname, target), True)
            if problems:
                hits += 1
                who = "server" if target[0] == "s" else "client"
                ctx.witness(
                    f"{vname}: a forged message of type {target[1]} (authentication value altered) delivered to the {who} "
                    f"in the right place of an otherwise genuine handshake: " + "; ".join(problems),
                    {"kind": "refusal", "variant": vname, "receiver": target[0], "type": target[1], "forged_message": forged_hex,
                     "problems": problems},
                    {"oracle": "refused-message-changes-state", "receiver": who, "type": target[1]})
    ctx.notes[label] = {"cases": n, "violations": hits}
    return hits


def replay(rep):
    """re-execute a recorded rogue / genuine-server flight on the current tree;
    returns the list of witnesses it produces again (empty = no longer failing)"""
    from . import core
    ctx = core.Ctx("replay", "quick")
    if rep.get("kind") == "rogue-content":
        rogue_content_dfs(ctx, label="replay", only=(rep["offers"], rep["sh"], rep["ee"], rep["cert"], rep["flight"]))
    elif rep.get("kind") == "key-release":
        key_release_oracle(ctx, label="replay")
    elif rep.get("kind") == "refusal":
        refusal_oracle(ctx, label="replay", only=(rep["variant"], rep["receiver"], rep["type"]))
    elif rep.get("kind") == "rogue":
        run(ctx, label="replay", only=(rep["offers"], rep["psk"], rep["cert"], rep["flight"]))
    elif rep.get("kind") == "genuine":
        v = {"cert-rsa": "certificate", "cert-ec256": "certificate-ec256"}.get(rep["variant"], rep["variant"])
        genuine_dfs(ctx, label="replay", only=(v, rep["flight"]))
    else:
        return None
    if rep.get("kind") == "key-release":
        return [w for w in ctx.witnesses if w["replay"].get("release") == rep.get("release")]
    return ctx.witnesses
