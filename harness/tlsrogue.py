"""Rogue-server scenarios on a real client `tls.Context` (failing-input search
for C03 / C11; the full set is cheap (about 3 s) and also runs on every C03 check).

The rogue server performs the key exchange honestly (so it knows the handshake
secrets and can compute any Finished over the public transcript) but holds
NEITHER the private key of a certificate the client trusts for the requested
name NOR a resumption secret the client offered.  Whatever it sends, the client
must not reach CLIENT_POST_HANDSHAKE.

Oracle (from the property text of C03 / C11): "a client reports handshake
completion only after the server has proved possession of the private key of a
certificate that validates for the requested name (or of a resumption secret the
client offered)".
"""
import itertools

from . import tlsdrive as D
from . import tlsscen as S

EE, CR, CERT, CV, FIN = 8, 13, 11, 15, 20


def _ser(push, obj, cap=16384):
    from aioquic.buffer import Buffer
    b = Buffer(capacity=cap)
    push(b, obj)
    return b.data


def _rogue_identity():
    """self-signed certificate for the requested name that the client does NOT trust"""
    from . import quicpair as Q
    cert, key = Q.make_cert("ec256", name="localhost")
    return cert, [], key


def tamper_hello(tls, sh_bytes, psk):
    """ServerHello with an unsolicited / altered pre_shared_key extension"""
    from aioquic.buffer import Buffer
    sh = tls.pull_server_hello(Buffer(data=sh_bytes))
    sh.pre_shared_key = psk
    return _ser(tls.push_server_hello, sh)


def flights(full):
    base = [EE, CR, CERT, CV, FIN]
    if full:
        out = []
        for k in range(0, 6):
            for sub in itertools.combinations(base, k):
                out += [list(p) for p in itertools.permutations(sub)]
        return out
    return [[EE, FIN], [EE, CERT, CV, FIN], [EE, CERT, FIN], [EE, CR, FIN], [FIN], [EE, CR, CERT, CV, FIN], [EE, CV, FIN]]


def scenarios(full):
    """(name, client offers a PSK, pre_shared_key value put into ServerHello or None,
    which certificate the rogue shows: 'rogue' (own, untrusted) | 'victim' (the genuine
    server's public certificate, whose key the rogue does not have), flight)"""
    out = []
    for fl in flights(full):
        for psk in (None, 0) + ((1,) if full else ()):
            for cert in ("rogue", "victim"):
                if cert == "victim" and CERT not in fl:
                    continue
                out.append((f"psk={psk} cert={cert} flight={fl}", False, psk, cert, fl))
    # the client DID offer a PSK, the rogue does not know it
    for fl in ([[EE, FIN], [EE, CERT, CV, FIN]] if not full else flights(False)):
        for psk in (0, 1):
            out.append((f"client-offers-psk psk={psk} cert=rogue flight={fl}", True, psk, "rogue", fl))
    return out


def run(ctx, full=False, label="rogue-server"):
    """run the scenario set; every completion is a witness with the concrete flight"""
    from aioquic import tls
    D.tap_extract()
    POST = tls.State.CLIENT_POST_HANDSHAKE
    rogue = _rogue_identity()
    victim_cert = None
    store = None
    n = hits = 0
    for name, offers, psk, which, fl in scenarios(full):
        if offers and store is None:
            store = S.ticket_store()
        c = D.client()                       # trusts tests/pycacert.pem only, verify_mode = CERT_REQUIRED
        if offers:
            c.session_ticket = store.client[0]
        s = D.server(ident=rogue)            # no get_session_ticket_cb: it cannot know any PSK
        p = D.Pair(c, s)
        p.hello()
        if p.serve() is not None:
            continue
        f = D.Forger(p)
        if psk is not None:
            f.sh = tamper_hello(tls, f.sh, psk)
        if which == "victim":
            if victim_cert is None:
                victim_cert = S.pool()[CERT]
            cert_msg = victim_cert
        else:
            cert_msg = None                  # the rogue's own Certificate message
        msgs = f.flight(fl, cr=D.minimal(CR), cert=cert_msg)
        exc, _ = D.feed(c, f.sh)
        sent = [f.sh]
        if exc is None:
            for m in msgs:
                sent.append(m)
                exc, _ = D.feed(c, m)
                if exc is not None or c.state == POST:
                    break
        n += 1
        ctx.count((label, name), True)
        if c.state == POST:
            hits += 1
            ctx.witness(
                f"client reached CLIENT_POST_HANDSHAKE (session_resumed={c.session_resumed}) with a server that holds "
                f"neither a trusted certificate's private key nor a pre-shared key the client offered: {name}; "
                f"client {'offered' if offers else 'did NOT offer'} a PSK",
                {"scenario": name, "client_hello": p.client_hello.hex(), "server_messages": [m.hex() for m in sent],
                 "client_offered_psk": offers, "server_hello_pre_shared_key": psk},
                {"oracle": "completes-without-authentication", "level": "tls", "rogue": "unsolicited-psk" if psk is not None
                 and not offers else ("unknown-psk" if offers else "no-certificate-proof"),
                 "processed": [m[0] for m in sent[1:]]})
    ctx.notes[label] = {"scenarios": n, "completed": hits}
    return hits
