"""`frame.*` line protocol on the Python side.

* `frame.decode` / `frame.spec` are answered by harness/frames.py — the
  independent RFC 9000 §19 codec (not aioquic, not the Lean model).
* `frame.reencode <payload>` is answered by echoing the payload: the check only
  issues it for plaintext payloads that the REAL connections built (tap
  `on_packet_built` of harness/sim.py), so the line states "the real writers
  produced these bytes"; the model must decode them and write them back
  byte-exactly with its `_write_*` scripts.
* `frame.token` / `frame.token_pull` run the real QuicRetryTokenHandler with an
  identity "RSA key" so that the plaintext is visible.
"""
import ipaddress

from . import frames as F


def _hx(b):
    return bytes(b).hex() if b else "-"


def _unhex(s):
    return b"" if s == "-" else bytes.fromhex(s)


NAME_OF = {
    0x10: "MAX_DATA", 0x12: "MAX_STREAMS_BIDI", 0x13: "MAX_STREAMS_UNI", 0x14: "DATA_BLOCKED",
    0x16: "STREAMS_BLOCKED_BIDI", 0x17: "STREAMS_BLOCKED_UNI",
}
TYPE_OF = {v: k for k, v in NAME_OF.items()}


def show_frame(f):
    """frames.py dict -> canonical text of lean/Driver/Frame.lean"""
    t = f["type"]
    if t == 0x00:
        return f"PADDING:n={f['length']}"
    if t == 0x01:
        return "PING"
    if t in (0x02, 0x03):
        rs = "/".join(f"{lo}:{hi + 1}" for lo, hi in sorted(f["ranges"]))
        return f"{'ACK' if t == 2 else 'ACK_ECN'}:rs={rs},delay={f['delay']}"
    if t == 0x04:
        return f"RESET_STREAM:sid={f['stream_id']},err={f['error_code']},final={f['final_size']}"
    if t == 0x05:
        return f"STOP_SENDING:sid={f['stream_id']},err={f['error_code']}"
    if t == 0x06:
        return f"CRYPTO:off={f['offset']},data={_hx(f['data'])}"
    if t == 0x07:
        return f"NEW_TOKEN:token={_hx(f['token'])}"
    if 0x08 <= t <= 0x0F:
        return (f"STREAM:sid={f['stream_id']},off={f['offset']},data={_hx(f['data'])},fin={t & 1},"
                f"o={(t >> 2) & 1},l={(t >> 1) & 1}")
    if t in NAME_OF:
        return f"{NAME_OF[t]}:v={f['value']}"
    if t == 0x11:
        return f"MAX_STREAM_DATA:sid={f['stream_id']},v={f['value']}"
    if t == 0x15:
        return f"STREAM_DATA_BLOCKED:sid={f['stream_id']},v={f['value']}"
    if t == 0x18:
        return f"NEW_CONNECTION_ID:seq={f['seq']},rpt={f['retire_prior_to']},cid={_hx(f['cid'])},token={_hx(f['token'])}"
    if t == 0x19:
        return f"RETIRE_CONNECTION_ID:seq={f['seq']}"
    if t == 0x1A:
        return f"PATH_CHALLENGE:data={_hx(f['data'])}"
    if t == 0x1B:
        return f"PATH_RESPONSE:data={_hx(f['data'])}"
    if t == 0x1C:
        return f"TRANSPORT_CLOSE:err={f['error_code']},ft={f['frame_type']},reason={_hx(f['reason'])}"
    if t == 0x1D:
        return f"APPLICATION_CLOSE:err={f['error_code']},reason={_hx(f['reason'])}"
    if t == 0x1E:
        return "HANDSHAKE_DONE"
    if t in (0x30, 0x31):
        return f"DATAGRAM:data={_hx(f['data'])},l={t & 1}"
    raise AssertionError(t)


def enc_frame_text(txt):
    """canonical text -> bytes with harness/frames.py's encoders / put_varint (shortest varints)"""
    name, _, rest = txt.partition(":")
    d = dict(kv.split("=", 1) for kv in rest.split(",")) if rest else {}
    n = lambda k: int(d[k])          # noqa: E731
    b = lambda k: _unhex(d[k])       # noqa: E731
    v = F.put_varint
    if name == "PADDING":
        return bytes(n("n"))
    if name == "PING":
        return b"\x01"
    if name in ("ACK", "ACK_ECN"):
        rs = [(int(x.split(":")[0]), int(x.split(":")[1]) - 1) for x in d["rs"].split("/")]
        body = F.enc_ack(rs, n("delay"))
        return body if name == "ACK" else b"\x03" + body[1:] + b"\x00\x00\x00"
    if name == "RESET_STREAM":
        return F.enc_reset_stream(n("sid"), n("err"), n("final"))
    if name == "STOP_SENDING":
        return F.enc_stop_sending(n("sid"), n("err"))
    if name == "CRYPTO":
        return F.enc_crypto(n("off"), b("data"))
    if name == "NEW_TOKEN":
        return b"\x07" + v(len(b("token"))) + b("token")
    if name == "STREAM":
        t = 0x08 | (4 if d["o"] == "1" else 0) | (2 if d["l"] == "1" else 0) | (1 if d["fin"] == "1" else 0)
        out = bytes([t]) + v(n("sid"))
        if d["o"] == "1":
            out += v(n("off"))
        if d["l"] == "1":
            out += v(len(b("data")))
        return out + b("data")
    if name in TYPE_OF:
        return bytes([TYPE_OF[name]]) + v(n("v"))
    if name == "MAX_STREAM_DATA":
        return F.enc_max_stream_data(n("sid"), n("v"))
    if name == "STREAM_DATA_BLOCKED":
        return b"\x15" + v(n("sid")) + v(n("v"))
    if name == "NEW_CONNECTION_ID":
        return F.enc_new_connection_id(n("seq"), n("rpt"), b("cid"), b("token"))
    if name == "RETIRE_CONNECTION_ID":
        return F.enc_retire_connection_id(n("seq"))
    if name == "PATH_CHALLENGE":
        return F.enc_path_challenge(b("data"))
    if name == "PATH_RESPONSE":
        return F.enc_path_response(b("data"))
    if name == "TRANSPORT_CLOSE":
        return F.enc_close(n("err"), n("ft"), b("reason"))
    if name == "APPLICATION_CLOSE":
        return F.enc_close(n("err"), 0, b("reason"), app=True)
    if name == "HANDSHAKE_DONE":
        return b"\x1e"
    if name == "DATAGRAM":
        return (b"\x31" + v(len(b("data"))) if d["l"] == "1" else b"\x30") + b("data")
    raise AssertionError(name)


class _IdentityKey:
    """stands for the RSA-OAEP key of QuicRetryTokenHandler: the token is its plaintext"""
    def public_key(self):
        return self

    def encrypt(self, data, padding):
        return data

    def decrypt(self, data, padding):
        return data


class FrameImpl:
    def __init__(self):
        from aioquic.quic import retry
        self.handler = retry.QuicRetryTokenHandler.__new__(retry.QuicRetryTokenHandler)
        self.handler._key = _IdentityKey()

    @staticmethod
    def addr_of(enc):
        host = str(ipaddress.ip_address(enc[:-2]))
        return (host, int.from_bytes(enc[-2:], "big"))

    def step(self, line):
        t = line.split()
        op = t[0]
        try:
            if op == "frame.decode":
                try:
                    fs = F.parse_frames(_unhex(t[1]))
                except F.ParseError:
                    return "err QuicConnectionError(7)"
                return "ok " + (";".join(show_frame(f) for f in fs) if fs else "-")
            if op == "frame.reencode":
                return "ok " + t[1]
            if op == "frame.spec":
                if t[1] == "-":
                    return "ok -"
                return "ok " + _hx(b"".join(enc_frame_text(x) for x in t[1].split(";")))
            if op == "frame.token":
                tok = self.handler.create_token(self.addr_of(_unhex(t[1])), _unhex(t[2]), _unhex(t[3]))
                return "ok " + _hx(tok)
            if op == "frame.token_pull":
                o, r = self.handler.validate_token(self.addr_of(_unhex(t[2])), _unhex(t[1]))
                return f"ok odcid={_hx(o)} rscid={_hx(r)}"
            return "bad-op"
        except Exception as e:  # canonical error line
            return f"err {type(e).__name__}"


# ---------------------------------------------------------------- real payloads
class _Collector:
    def __init__(self):
        self.payloads = []
        self.calls = []       # (endpoint name, api name, args, kwargs)

    def on_packet_built(self, sim, ep, epoch, pn, header, payload, size):
        self.payloads.append((ep.name, epoch, bytes(payload)))

    def before_api(self, sim, ep, name, args, kw):
        if name in ("reset_stream", "stop_stream", "send_datagram_frame", "close"):
            self.calls.append((ep.name, name, tuple(args), dict(kw)))


def api_field_problems(payloads, calls):
    """the fields of the frames an endpoint BUILT are the values its application
    passed to the public API (guards the field ORDER of the writers, which a pure
    byte-level re-encoding cannot see); frames are read with harness/frames.py"""
    other = {"client": "server", "server": "client"}
    resets = {(e, a[0], a[1]) for e, n, a, _ in calls if n == "reset_stream"}
    stops = {(e, a[0], a[1]) for e, n, a, _ in calls if n == "stop_stream"}
    dgrams = {(e, bytes(a[0])) for e, n, a, _ in calls if n == "send_datagram_frame"}
    closes = [(e, k) for e, n, _, k in calls if n == "close"]
    problems = []
    seen_close = {}
    for e, _, p in payloads:
        try:
            fs = F.parse_frames(p)
        except F.ParseError:
            continue
        for f in fs:
            if f["name"] == "RESET_STREAM":
                sid, err = f["stream_id"], f["error_code"]
                # a reset is also sent (code 0) in answer to the peer's STOP_SENDING
                if (e, sid, err) not in resets and not (err == 0 and any(s[0] == other[e] and s[1] == sid for s in stops)):
                    problems.append(f"{e} built RESET_STREAM sid={sid} err={err} final={f['final_size']}; "
                                    f"reset_stream calls: {sorted(x[1:] for x in resets if x[0] == e)}")
            elif f["name"] == "STOP_SENDING":
                if (e, f["stream_id"], f["error_code"]) not in stops:
                    problems.append(f"{e} built STOP_SENDING sid={f['stream_id']} err={f['error_code']}; "
                                    f"stop_stream calls: {sorted(x[1:] for x in stops if x[0] == e)}")
            elif f["name"] == "DATAGRAM_LEN":
                if (e, f["data"]) not in dgrams:
                    problems.append(f"{e} built DATAGRAM with data that no send_datagram_frame call passed")
            elif f["name"] in ("TRANSPORT_CLOSE", "APPLICATION_CLOSE"):
                seen_close.setdefault(e, []).append(f)
    for e, k in closes:
        fr = seen_close.get(e, [])
        want = (k.get("error_code", 0), k.get("reason_phrase", "").encode("utf8"))
        # an endpoint that was asked to close with (code, reason) and built close frames must have
        # built one carrying them (in 1-RTT; an earlier epoch rewrites application closes)
        # (the writer may truncate the reason phrase to the space left in the packet)
        if fr and not any(f["error_code"] == want[0] and want[1].startswith(f["reason"]) for f in fr) and \
                not all(f["name"] == "TRANSPORT_CLOSE" and f["error_code"] == 0xC for f in fr):
            problems.append(f"{e} close({want}) but built {[(f['name'], f['error_code'], f['reason']) for f in fr][:3]}")
    return problems


def collect_built_payloads(seed, steps=120, version=None, with_calls=False):
    """one adversarial connection exercising every frame writer the public API
    reaches; returns the plaintext payload of every packet either endpoint built"""
    import random
    from . import sim as simmod
    r = random.Random(f"c17-frames/{seed}")
    col = _Collector()
    opts = {"max_datagram_frame_size": 65536, "max_data": r.choice([30000, 200000, 1048576]),
            "max_stream_data": r.choice([20000, 100000, 1048576])}
    copts = dict(opts)
    if version is not None:
        copts.update(original_version=version, supported_versions=[version])
    s = simmod.Sim(seed, client_options=copts, server_options=dict(opts), monitors=[col])
    try:
        s.handshake()
        sids = {"client": [0, 2, 4, 6], "server": [1, 3, 5, 7]}
        many = r.random() < 0.5     # also walk through the stream-count limit (STREAMS_BLOCKED / MAX_STREAMS)
        nxt = {"client": 8, "server": 9}
        for i in range(steps):
            if any(ep.terminated for ep in s.endpoints):
                break
            ep = r.choice(s.endpoints)
            x = r.random()
            if x < 0.35:
                sid = r.choice(sids[ep.name])
                if many and r.random() < 0.7:
                    for _ in range(r.randrange(1, 40)):
                        sid = nxt[ep.name]
                        nxt[ep.name] += 4 if r.random() < 0.5 else 2
                        s.api(ep, "send_stream_data", sid, b"x", end_stream=True)
                s.api(ep, "send_stream_data", sid, r.randbytes(r.choice([0, 1, 30, 700, 5000, 40000])),
                      end_stream=r.random() < 0.15)
            elif x < 0.42:
                s.api(ep, "reset_stream", r.choice(sids[ep.name]), r.choice([0, 63, 64, 1 << 30, (1 << 62) - 1]))
            elif x < 0.49:
                s.api(ep, "stop_stream", r.choice(sids[ep.peer.name][:2]), r.choice([0, 7, 16384]))
            elif x < 0.57:
                s.api(ep, "send_datagram_frame", r.randbytes(r.choice([0, 1, 63, 64, 900])))
            elif x < 0.63:
                s.api(ep, "send_ping", i)
            elif x < 0.69:
                s.api(ep, "change_connection_id")
            elif x < 0.72:
                s.api(ep, "request_key_update")
            if r.random() < 0.6:
                s.transmit(ep)
            for _ in range(r.randrange(0, 4)):
                s.adversarial_step(p_drop=0.1, p_dup=0.05, p_reorder=0.3, p_timer=0.2,
                                   p_rebind=0.03 if i > 20 else 0.0)
        ep = r.choice(s.endpoints)
        if not ep.terminated:
            if r.random() < 0.5:
                s.api(ep, "close", error_code=r.choice([0, 7, 300]), reason_phrase=r.choice(["", "bye", "é" * 20]))
            else:
                s.api(ep, "close", error_code=r.choice([0, 10]), frame_type=r.choice([None, 6, 0x1c]),
                      reason_phrase="x" * r.choice([0, 1, 70]))
            s.transmit(ep)
        s.fair_phase(max_steps=60)
    finally:
        s.close_taps()
    if with_calls:
        return col.payloads, col.calls
    return col.payloads
