"""Decision flow shared by all checks (DESIGN §3.5)."""
import hashlib
import json
import os
import sys
import time
import traceback

from . import lean, rng

VERIF = lean.VERIF
EVID = os.path.join(VERIF, "evidence")
REPLAYS = os.path.join(VERIF, "replays")
KNOWN = os.path.join(VERIF, "known_findings.jsonl")


def load_known(prop):
    res = []
    if os.path.exists(KNOWN):
        for line in open(KNOWN):
            line = line.strip()
            if not line or line.startswith("#"):
                continue
            e = json.loads(line)
            if e.get("property") == prop:
                res.append(e)
    return res


class Ctx:
    def __init__(self, prop, tier):
        self.prop = prop
        self.tier = tier
        self.seed = rng.seed()
        self.t0 = time.time()
        self.cov = {
            "obligations": 0, "discharged": 0, "checker_cmd": "", "trusted_base": [],
            "evaluations": 0, "distinct_nontrivial": 0, "rule": "", "samples": [],
            "traces_validated_against_impl": 0, "exhaustive": False,
        }
        self.assumptions = []
        self.broken = []        # broken obligations / correspondences: dicts
        self.witnesses = []     # concrete failing inputs on the implementation
        self.known = load_known(prop)
        self.known_hit = {}     # finding id -> witness description
        self._distinct = set()
        self.notes = {}
        self.modules = []
        self.search = None      # callable run when an obligation/correspondence broke and no witness exists yet

    # ------------------------------------------------------------ proof side
    def prove(self, prop_modules, sync_modules=(), thorough_checker=True):
        """build property + sync modules, audit axioms; records broken obligations"""
        mods = list(prop_modules) + list(sync_modules)
        self.modules = mods
        res = lean.lake_build_each(mods)
        built = [m for m in mods if res[m][0]]
        for m in mods:
            if not res[m][0]:
                self.broken.append({"kind": "broken-theorem", "module": m, "log": res[m][1][-3000:]})
        nthm = 0
        for m in mods:
            nthm += len(lean.theorems_in(lean.module_path(m)))
        ax, raw = lean.print_axioms(built)
        good = 0
        bad_ax = []
        for n, a in ax.items():
            if a is None:
                bad_ax.append((n, "not reported"))
            elif not a <= lean.ALLOWED_AXIOMS:
                bad_ax.append((n, sorted(a)))
            else:
                good += 1
        for n, a in bad_ax:
            self.broken.append({"kind": "broken-theorem", "theorem": n, "axioms": a})
        hits = lean.grep_forbidden(lean.lean_sources())
        for h in hits:
            self.broken.append({"kind": "audit", "hit": h})
        self.cov["obligations"] += nthm
        self.cov["discharged"] += good
        cmd = "lake build " + " ".join(mods) + " && lake env lean <#print axioms of every theorem>"
        if self.tier == "thorough" and thorough_checker and built:
            import subprocess
            t = time.time()
            r = subprocess.run(["lake", "env", "leanchecker"] + built, cwd=lean.LEAN,
                               capture_output=True, text=True)
            self.notes["leanchecker_s"] = round(time.time() - t, 1)
            self.notes["leanchecker_rc"] = r.returncode
            if r.returncode != 0:
                self.broken.append({"kind": "broken-theorem", "module": "leanchecker", "log": (r.stdout + r.stderr)[-2000:]})
            cmd += " && lake env leanchecker " + " ".join(built)
        self.cov["checker_cmd"] = cmd
        self.notes["theorems"] = sorted(ax.keys())

    # --------------------------------------------------- correspondence side
    def count(self, case_key, nontrivial):
        self.cov["evaluations"] += 1
        if nontrivial:
            h = hashlib.sha1(repr(case_key).encode()).digest()[:8]
            self._distinct.add(h)

    def sample(self, s):
        if len(self.cov["samples"]) < 6:
            self.cov["samples"].append(s)

    def disagreement(self, name, case, model_out, impl_out, index):
        self.broken.append({
            "kind": "broken-correspondence", "correspondence": name, "ops": case,
            "first_diff_index": index, "model": model_out, "impl": impl_out,
        })

    def witness(self, what, replay, signature=None):
        """a concrete failing input shown on the implementation"""
        self.witnesses.append({"what": what, "replay": replay, "signature": signature or {}})

    # ----------------------------------------------------------------- end
    def _match_known(self, w):
        for k in self.known:
            if k.get("status") != "finding":
                continue
            sig = k.get("signature", {})
            if sig and all(w["signature"].get(a) == b for a, b in sig.items()):
                return k
        return None

    def finish(self):
        os.makedirs(EVID, exist_ok=True)
        os.makedirs(REPLAYS, exist_ok=True)
        self.cov["distinct_nontrivial"] = len(self._distinct)
        violations = []
        printed_known = set()
        seen_sig = set()
        for w in self.witnesses:
            key = json.dumps(w["signature"], sort_keys=True, default=str) if w["signature"] else w["what"]
            k = self._match_known(w)
            if k is not None:
                if k["id"] not in printed_known:
                    printed_known.add(k["id"])
                    print(f"KNOWN-FINDING: property={self.prop} {k['what']}")
                continue
            if key in seen_sig:
                continue    # one VIOLATION line per distinct failure signature
            seen_sig.add(key)
            violations.append(("impl-witness", w))
        if self.broken and not violations and self.search is not None and not getattr(self, "_searched", False):
            # a proof obligation or the correspondence no longer checks: hunt for a
            # concrete failing input on the implementation before concluding
            self._searched = True
            t = time.time()
            try:
                self.search()
            except Exception as e:  # noqa
                self.notes["search_error"] = repr(e)
            self.notes["failing_input_search_s"] = round(time.time() - t, 1)
            return self.finish()
        if self.broken and not violations:
            violations.append(("broken", self.broken))
        n = 0
        for kind, v in violations:
            n += 1
            path = os.path.join(REPLAYS, f"{self.prop}-{self.seed}-{n}.json")
            if kind == "impl-witness":
                json.dump({"property": self.prop, "kind": "impl-witness", **v,
                           "rerun": f"./check {self.prop} --replay {path}"}, open(path, "w"), indent=1, default=str)
                print(f"VIOLATION property={self.prop} replay={path}")
            else:
                json.dump({"property": self.prop, "kind": "no-longer-checks", "broken": v,
                           "note": "a proof obligation or the model/implementation correspondence no longer checks; "
                                   "the failing-input search on the implementation found no concrete violating input"},
                          open(path, "w"), indent=1, default=str)
                print(f"VIOLATION property={self.prop} replay={path} no-failing-input-found")
        # listed findings whose witness was not re-derived are still announced
        # only if they reproduced; silent otherwise.
        ev = {
            "property_id": self.prop, "tier": self.tier, "seed": self.seed, "level": "proof",
            "coverage": self.cov, "assumptions": self.assumptions,
            "wall_s": round(time.time() - self.t0, 2), "violations": len(violations),
            "notes": self.notes, "known_findings_reproduced": sorted(printed_known),
            "broken": [{k: (v if k != "log" else v[-500:]) for k, v in b.items()} for b in self.broken][:20],
        }
        json.dump(ev, open(os.path.join(EVID, f"{self.prop}.json"), "w"), indent=1, default=str)
        return 1 if violations else 0


def diff_streams(ctx, name, cases, impl_lines, model_lines):
    """cases: list of op-line lists; impl_lines/model_lines: flat outputs.
    Returns list of (case_index, op_index) mismatches (first per case)."""
    mism = []
    i = 0
    if len(impl_lines) != len(model_lines):
        # length mismatch: driver protocol problem
        ctx.broken.append({"kind": "broken-correspondence", "correspondence": name,
                           "error": f"line count differs impl={len(impl_lines)} model={len(model_lines)}"})
        return [(-1, -1)]
    for ci, case in enumerate(cases):
        for oi in range(len(case)):
            if impl_lines[i] != model_lines[i]:
                mism.append((ci, oi, impl_lines[i], model_lines[i]))
                i += len(case) - oi
                break
            i += 1
    return mism


def main_wrapper(fn):
    """run a check function; internal errors are exit 2, never a verdict"""
    try:
        rc = fn()
    except SystemExit:
        raise
    except BaseException:
        traceback.print_exc()
        sys.exit(2)
    sys.exit(rc)


def run_cases(ctx, name, cases, impl_factory, oracle=None, nontrivial=None, signature=None):
    """Run op-line cases on a fresh implementation adapter each, evaluate the
    property oracle on the implementation's own trace, then replay the same
    lines on the compiled Lean model and diff."""
    from . import lean as _lean
    impl_lines = []
    all_lines = []
    for case in cases:
        impl = impl_factory()
        out = [impl.step(l) for l in case]
        impl_lines += out
        all_lines += case
        nt = nontrivial(case, out) if nontrivial else True
        ctx.count(tuple(case), nt)
        if oracle is not None:
            p = oracle(case, out)
            if p:
                sig = {"oracle": name}
                if signature:
                    sig.update(signature(case, out, p))
                ctx.witness(p, {"ops": case, "impl_output": out}, sig)
    model_lines = _lean.run_driver(all_lines)
    mism = diff_streams(ctx, name, cases, impl_lines, model_lines)
    for m in mism[:3]:
        if m[0] >= 0:
            ci, oi, il, ml = m
            ctx.disagreement(name, cases[ci][: oi + 1], ml, il, oi)
    ctx.cov["traces_validated_against_impl"] += len(cases)
    return len(mism)


def parse_kv(s):
    d = {}
    for tok in s.split():
        if "=" in tok:
            k, v = tok.split("=", 1)
            d[k] = v
    return d
