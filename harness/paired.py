"""Paired runs: the same scenario executed with identical PRNG seeds under
different logging configurations, and the observation that must not differ.

A *scenario* is a function `scn(run)` driving `run.sim` (harness.sim.Sim) and
possibly `run.h3` (two H3Connection objects); every random choice it makes
comes from `run.r` (seeded) so the two runs of a pair see the same inputs.

The *observation* (`Recorder`) is everything the property calls "what the
connection does":
  * events of both endpoints (type + all fields), HTTP/3 events likewise
  * every packet built: epoch, packet number, plaintext header, decrypted
    frames (harness/frames.py).  CRYPTO frame *contents* carry x25519 key
    shares and an RSA-PSS signature which come from OpenSSL's RNG, so for
    CRYPTO frames only offset and length are compared; every other byte is
    PRNG-derived (os.urandom is tapped) and compared exactly
  * datagram sizes and destinations, get_timer() results
  * exceptions raised by any API call (class + message)
  * the final state: a generic dump of the whole object graph reachable from
    the QuicConnection (and H3Connection), minus the logging objects
    themselves and the OpenSSL-derived secrets (SKIP_ATTRS).
"""
import dataclasses
import enum
import io
import random
from collections import deque

from . import frames as F
from . import sim as simmod

MODES = {
    "off": (False, False),
    "qlog": (True, False),
    "secrets": (False, True),
    "both": (True, True),
    "file": ("file", True),      # QuicFileLogger (one .qlog file per trace, written by end_trace)
}

# attributes that are logging machinery (the thing being varied) ...
LOG_ATTRS = {"_quic_logger", "quic_logger", "_logger", "quic_logger_frames", "secrets_log_file"}
# ... and attributes holding OpenSSL-RNG-derived material (differs between any
# two runs, logging or not; calibrated by off/off pairs in the check)
SECRET_ATTRS = {
    "_x25519_private_key", "_x448_private_key", "_ec_private_keys", "key_schedule",
    "_key_schedule_psk", "_key_schedule_proxy", "_enc_key", "_dec_key", "certificate_private_key",
    "aead", "hp", "_send_secret", "_recv_secret", "secret", "_ec_private_key",
    "_peer_certificate", "_peer_certificate_chain", "certificate", "certificate_chain",
    "session_resumed", "_session_resumed",
}
SKIP_ATTRS = LOG_ATTRS | SECRET_ATTRS
# TLS handshake bytes (key shares, signatures, Finished MACs): only lengths compared
MASK_ATTRS = {"_crypto_streams", "_crypto_buffers", "tls"}


def canon(v, depth=0, seen=None, mask=False):
    """canonical, comparable, printable form of a value / object graph"""
    if seen is None:
        seen = set()
    if v is None or isinstance(v, (bool, int, str)):
        return v
    if isinstance(v, float):
        return repr(v)
    if isinstance(v, (bytes, bytearray, memoryview)):
        return f"<{len(v)} bytes>" if mask else "x:" + bytes(v).hex()
    if isinstance(v, enum.Enum):
        return f"{type(v).__name__}.{v.name}"
    if depth > 12:
        return "<deep>"
    if isinstance(v, (list, tuple, deque)):
        return [canon(x, depth + 1, seen, mask) for x in v]
    if isinstance(v, (set, frozenset)):
        return sorted((canon(x, depth + 1, seen, mask) for x in v), key=repr)
    if isinstance(v, dict):
        return {str(canon(k, depth + 1, seen, mask)): canon(x, depth + 1, seen, mask) for k, x in v.items()
                if not (isinstance(k, str) and k in SKIP_ATTRS)}
    if isinstance(v, (io.IOBase,)):
        return "<file>"
    if callable(v) and not hasattr(v, "__dict__"):
        return "<callable>"
    mod = type(v).__module__ or ""
    if type(v).__name__ == "RangeSet":
        return [[r.start, r.stop] for r in v]
    if type(v).__name__ == "Buffer":
        return {"Buffer": v.capacity, "pos": v.tell()}
    if not mod.startswith("aioquic"):
        if callable(v):
            return "<callable>"
        return f"<{mod}.{type(v).__name__}>"
    if id(v) in seen:
        return f"<ref {type(v).__name__}>"
    seen.add(id(v))
    if type(v).__name__ == "CryptoPair":
        return {"CryptoPair": {"key_phase": v.key_phase, "aead_tag_size": v.aead_tag_size,
                               "recv_valid": v.recv.is_valid(), "send_valid": v.send.is_valid(),
                               "update_requested": v._update_key_requested}}
    d = getattr(v, "__dict__", None)
    if d is None:
        slots = getattr(type(v), "__slots__", None)
        if slots:
            d = {s: getattr(v, s, None) for s in slots}
        else:
            return f"<{type(v).__name__}>"
    out = {}
    for k in sorted(d):
        if k in SKIP_ATTRS:
            continue
        x = d[k]
        if callable(x) and not hasattr(x, "__dict__") and not isinstance(x, (list, dict)):
            continue
        out[k] = canon(x, depth + 1, seen, mask or k in MASK_ATTRS)
    return {type(v).__name__: out}


def canon_frames(payload):
    """decrypted frames of a packet; CRYPTO data masked to its length"""
    try:
        fr = F.parse_frames(payload)
    except F.ParseError:
        return ["RAW", bytes(payload).hex()]
    out = []
    for f in fr:
        g = {}
        for k, v in f.items():
            if f["type"] == 0x06 and k == "data":
                g["length"] = len(v)
            elif isinstance(v, (bytes, bytearray)):
                g[k] = bytes(v).hex()
            elif isinstance(v, list):
                g[k] = [list(x) for x in v]
            else:
                g[k] = v
        out.append(g)
    return out


def canon_event(ev):
    d = dataclasses.asdict(ev) if dataclasses.is_dataclass(ev) else dict(ev.__dict__)
    return [type(ev).__name__, canon(d)]


def where(e):
    """innermost aioquic function an exception came out of (module.function)"""
    tb = e.__traceback__
    best = "?"
    while tb is not None:
        code = tb.tb_frame.f_code
        if "aioquic" in code.co_filename:
            best = code.co_filename.rsplit("/", 1)[-1][:-3] + "." + code.co_name
        tb = tb.tb_next
    return best


class Recorder:
    """sim monitor collecting the observation of one run"""

    def __init__(self):
        self.obs = {}
        self.suspend = False        # packets built by the injector are not the endpoint's
        self.built_in_call = {}
        self.raised_in_call = {}
        self.n_built = {"client": 0, "server": 0}
        self.n_auth = {"client": 0, "server": 0}
        self.n_auth_dup = {"client": 0, "server": 0}
        self.seen_pn = {"client": set(), "server": set()}
        self.extra_received = {"client": 0, "server": 0}   # accepted Retry / Version Negotiation
        self.attempt = {"client": 0, "server": 0}
        self.reprocessed = []

    def _add(self, key, item):
        self.obs.setdefault(key, []).append(item)

    def on_packet_built(self, sim, ep, epoch, pn, header, payload, clen):
        if self.suspend:
            return
        self._add(f"built.{ep.name}", [epoch, pn, header.hex(), canon_frames(payload), clen])
        self.built_in_call.setdefault(ep.name, 0)
        self.built_in_call[ep.name] += 1

    def on_packet_authenticated(self, sim, ep, epoch, pn, header, payload):
        self._add(f"auth.{ep.name}", [epoch, pn, header.hex(), canon_frames(payload)])
        self.n_auth[ep.name] += 1
        # "discarded": the duplicate rule of receive_datagram, evaluated on the
        # state the connection has when the packet authenticates (RFC 9000 12.3)
        space = None
        try:
            from aioquic import tls
            e = {"INITIAL": tls.Epoch.INITIAL, "HANDSHAKE": tls.Epoch.HANDSHAKE}.get(epoch, tls.Epoch.ONE_RTT)
            space = ep.conn._spaces.get(e)
        except Exception:  # noqa
            pass
        discarded = space is not None and (pn in space.ack_queue or pn < getattr(space, "ack_queue_start", 0))
        k = (self.attempt[ep.name], "APP" if epoch in ("ZERO_RTT", "ONE_RTT") else epoch, pn)
        if k in self.seen_pn[ep.name] and not discarded:
            self.reprocessed.append([ep.name, epoch, pn])     # a packet processed twice (C01's concern)
        self.seen_pn[ep.name].add(k)
        if discarded:
            self.n_auth_dup[ep.name] += 1

    def before_api(self, sim, ep, name, args, kw):
        if name == "datagrams_to_send":
            self.built_in_call[ep.name] = 0
            self.raised_in_call.pop(ep.name, None)

    def after_api(self, sim, ep, name, args, kw, res):
        if name == "datagrams_to_send":
            if not self.raised_in_call.pop(ep.name, False):
                self.n_built[ep.name] += self.built_in_call.get(ep.name, 0)
            self._add(f"sent.{ep.name}", [[len(d), canon(a)] for d, a in (res or [])])
        elif name == "get_timer":
            self._add(f"timer.{ep.name}", canon(res))
        elif name not in ("receive_datagram", "handle_timer", "connect", "close"):
            self._add(f"ret.{ep.name}", [name, canon(res)])

    def on_event(self, sim, ep, ev):
        self._add(f"event.{ep.name}", canon_event(ev))

    def on_raise(self, sim, ep, name, args, e):
        if name == "datagrams_to_send":
            self.raised_in_call[ep.name] = True
        self._add(f"raise.{ep.name}", [name, type(e).__name__, str(e)[:200], where(e)])


class GenQuic:
    """capture-only QUIC stub for a *generator* H3Connection: records every
    send_stream_data call as a chunk (stream_id, data, end_stream); never logs"""

    def __init__(self, is_client):
        from aioquic.quic.configuration import QuicConfiguration
        self.configuration = QuicConfiguration(is_client=is_client)
        self.chunks = []
        self.closed = None
        self._quic_logger = None
        self._remote_max_datagram_frame_size = 1200
        self._next_bidi = 0 if is_client else 1
        self._next_uni = 2 if is_client else 3

    def close(self, error_code, reason_phrase=""):
        self.closed = (error_code, reason_phrase)

    def get_next_available_stream_id(self, is_unidirectional=False):
        return self._next_uni if is_unidirectional else self._next_bidi

    def send_stream_data(self, stream_id, data, end_stream=False):
        if stream_id % 4 in (2, 3) and stream_id >= self._next_uni:
            self._next_uni = stream_id + 4
        if stream_id % 4 == (0 if self.configuration.is_client else 1) and stream_id >= self._next_bidi:
            self._next_bidi = stream_id + 4
        self.chunks.append((stream_id, bytes(data), bool(end_stream)))

    def send_datagram_frame(self, data):
        pass


class H3Pair:
    """H3Connection on the endpoints of a Sim (`only`: just that endpoint);
    QUIC events are fed to them"""

    def __init__(self, run, only=None):
        from aioquic.h3.connection import H3Connection
        self.run = run
        self.conns = {}
        for ep in run.sim.endpoints:
            if only is None or ep.name == only:
                self.conns[ep.name] = H3Connection(ep.conn, enable_webtransport=run.opts.get("webtransport", False))
        self.events = {"client": [], "server": []}

    def on_event(self, sim, ep, ev):
        h3 = self.conns.get(ep.name)
        if h3 is None:
            return
        try:
            out = h3.handle_event(ev)
        except Exception as e:  # noqa
            self.run.rec._add(f"raise.{ep.name}", ["h3.handle_event", type(e).__name__, str(e)[:200], where(e)])
            return
        for h in out:
            self.events[ep.name].append(h)
            self.run.rec._add(f"h3event.{ep.name}", canon_event(h))

    def call(self, ep, name, *args, **kw):
        h3 = self.conns[ep.name]
        try:
            res = getattr(h3, name)(*args, **kw)
        except Exception as e:  # noqa
            self.run.rec._add(f"raise.{ep.name}", ["h3." + name, type(e).__name__, str(e)[:200], where(e)])
            return None
        self.run.rec._add(f"ret.{ep.name}", ["h3." + name, canon(res)])
        return res


class Run:
    """one execution of a scenario under one logging mode"""

    def __init__(self, seed, mode, opts=None):
        from aioquic.quic.logger import QuicLogger
        self.seed = seed
        self.mode = mode
        self.opts = dict(opts or {})
        qlog, secrets = MODES[mode]
        import logging
        for n in ("quic", "http3"):
            lg = logging.getLogger(n)
            if not lg.handlers:
                lg.addHandler(logging.NullHandler())
            lg.propagate = False
        self.rec = Recorder()
        self.r = random.Random(f"scn/{seed}")
        co = dict(self.opts.get("client", {}))
        so = dict(self.opts.get("server", {}))
        self.secrets = {}
        if secrets:
            self.secrets = {"client": io.StringIO(), "server": io.StringIO()}
            co["secrets_log_file"] = self.secrets["client"]
            so["secrets_log_file"] = self.secrets["server"]
        self.monitors = [self.rec]
        # QuicStream objects hash by id(): `_write_application` re-queues the
        # streams of its `sent` *set* in address-dependent order, so two runs of
        # the same inputs (logging or not) may interleave streams differently.
        # Pin the hash to the stream id for the duration of the run (the same
        # kind of control as the os.urandom tap; equality stays identity).
        from aioquic.quic.stream import QuicStream
        self._stream_cls = QuicStream
        self._orig_hash = QuicStream.__hash__
        QuicStream.__hash__ = lambda st: st.stream_id
        self.tmpdir = None
        if qlog == "file":
            import tempfile
            from aioquic.quic.logger import QuicFileLogger
            self.tmpdir = tempfile.mkdtemp(prefix="c20qlog-")

            def qlog():
                # one directory per endpoint: both name their file after the same ODCID
                return QuicFileLogger(tempfile.mkdtemp(dir=self.tmpdir))
        self.sim = simmod.Sim(seed, client_options=co, server_options=so, monitors=self.monitors,
                              quic_logger=qlog)
        self.loggers = {}
        if qlog:
            self.loggers = {ep.name: ep.conn._configuration.quic_logger for ep in self.sim.endpoints}
        self.h3 = None

    def enable_h3(self, only=None):
        self.h3 = H3Pair(self, only)
        self.monitors.append(self.h3)
        self.sim.monitors.append(self.h3)

    def finish(self):
        for ep in self.sim.endpoints:
            self.rec.obs[f"final.{ep.name}"] = canon(ep.conn)
            if self.h3 is not None and ep.name in self.h3.conns:
                self.rec.obs[f"finalh3.{ep.name}"] = canon(self.h3.conns[ep.name])
        self.sim.close_taps()
        self._stream_cls.__hash__ = self._orig_hash
        return self.rec.obs


def first_diff(a, b, path=""):
    """first differing position of two canonical values: (path, a, b) or None"""
    if type(a) is not type(b):
        return (path, a, b)
    if isinstance(a, dict):
        for k in sorted(set(a) | set(b)):
            if k not in a or k not in b:
                return (f"{path}.{k}", a.get(k, "<absent>"), b.get(k, "<absent>"))
            d = first_diff(a[k], b[k], f"{path}.{k}")
            if d:
                return d
        return None
    if isinstance(a, list):
        for i, (x, y) in enumerate(zip(a, b)):
            d = first_diff(x, y, f"{path}[{i}]")
            if d:
                return d
        if len(a) != len(b):
            i = min(len(a), len(b))
            return (f"{path}[{i}]", a[i] if i < len(a) else "<absent>", b[i] if i < len(b) else "<absent>")
        return None
    return None if a == b else (path, a, b)


def execute(scn, seed, mode, opts=None):
    """run scenario `scn` once; returns (observation, Run)"""
    run = Run(seed, mode, opts)
    try:
        scn(run)
    finally:
        obs = run.finish()
    return obs, run
