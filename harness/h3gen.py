"""Shared generators / helpers for the HTTP/3 checks (C14, C16)."""
import json

from . import core, lean
from .impl_h3parser import QUIRK_FIELDS


# ------------------------------------------------------------------ quirk flags
def quirk_flags():
    """the quirk record used for the model in correspondence runs: a flag is on
    exactly when a listed finding (known_findings.jsonl, status=finding, any
    property) names it in its `quirk` field"""
    on = set()
    for prop in ("C14", "C16", "C20"):
        for k in core.load_known(prop):
            if k.get("status") == "finding" and k.get("quirk"):
                on.add(k["quirk"])
    return "".join("1" if f in on else "0" for f in QUIRK_FIELDS), on


# ------------------------------------------------------------------- wire bits
def varint(v):
    if v < 0x40:
        return bytes([v])
    if v < 0x4000:
        return (v | 0x4000).to_bytes(2, "big")
    if v < 0x40000000:
        return (v | 0x80000000).to_bytes(4, "big")
    return (v | 0xC000000000000000).to_bytes(8, "big")


def frame(t, payload):
    return varint(t) + varint(len(payload)) + payload


def hx(b):
    return b.hex() if b else "-"


def splittings(b):
    """all 2^(n-1) ways of cutting b into non-empty consecutive chunks"""
    n = len(b)
    if n == 0:
        yield [b""]
        return
    for mask in range(1 << (n - 1)):
        out = []
        cur = 0
        for i in range(1, n):
            if mask >> (i - 1) & 1:
                out.append(b[cur:i])
                cur = i
        out.append(b[cur:])
        yield out


def random_split(r, b, max_parts=6, allow_empty=True):
    n = len(b)
    k = r.randrange(1, max_parts + 1)
    cuts = sorted(r.randrange(0, n + 1) for _ in range(k - 1))
    pts = [0] + cuts + [n]
    parts = [b[pts[i]:pts[i + 1]] for i in range(len(pts) - 1)]
    if not allow_empty:
        parts = [p for p in parts if p] or [b""]
    return parts


# --------------------------------------------------- independent frame parser
def pull_varint(b, pos):
    if pos >= len(b):
        return None
    n = 1 << (b[pos] >> 6)
    if pos + n > len(b):
        return None
    v = int.from_bytes(b[pos:pos + n], "big") & ((1 << (8 * n - 2)) - 1)
    return v, pos + n


def stream_shape(b):
    """classify how a request/push stream's byte string ENDS (RFC 9114 §7.1
    framing, written without looking at the implementation)"""
    pos = 0
    last = None
    while pos < len(b):
        r = pull_varint(b, pos)
        if r is None:
            return "truncated-frame-header"
        t, p1 = r
        r = pull_varint(b, p1)
        if r is None:
            return "truncated-frame-header"
        n, p2 = r
        if t == 0x41:
            return "webtransport"
        if p2 + n > len(b):
            if t == 0:
                return "truncated-data-frame"
            return "truncated-frame-no-payload" if p2 == len(b) else "truncated-frame-payload"
        last = t
        pos = p2 + n
    if last is None:
        return "empty"
    if last in (0, 1):
        return "complete"
    return "ends-with-eventless-frame"


# -------------------------------------------------------------- running cases
def run_case(H3Impl, case, stop_on_err=True):
    """run op lines on a fresh implementation object; returns
    (impl_output_lines, model_op_lines, impl, executed_ops)"""
    impl = H3Impl()
    outs, mlines, done = [], [], []
    for line in case:
        o, m = impl.step(line)
        outs.append(o)
        mlines.append(m)
        done.append(line)
        if stop_on_err and o.startswith("err "):
            break
    return outs, mlines, impl, done


class Batch:
    """accumulates cases, runs the model once, diffs"""

    def __init__(self, ctx, name):
        self.ctx = ctx
        self.name = name
        self.cases = []
        self.impl_lines = []
        self.model_ops = []

    def add(self, ops, outs, mlines):
        self.cases.append(list(ops))
        self.impl_lines += outs
        self.model_ops += mlines

    def finish(self):
        if not self.cases:
            return 0
        model_lines = lean.run_driver(self.model_ops)
        mism = core.diff_streams(self.ctx, self.name, self.cases, self.impl_lines, model_lines)
        # model ops (with oracle answers) are what a replay needs
        idx = 0
        starts = []
        for c in self.cases:
            starts.append(idx)
            idx += len(c)
        for m in mism[:3]:
            if m[0] >= 0:
                ci, oi, il, ml = m
                ops = self.model_ops[starts[ci]: starts[ci] + oi + 1]
                self.ctx.disagreement(self.name, ops, ml, il, oi)
        self.ctx.cov["traces_validated_against_impl"] += len(self.cases)
        return len(mism)


# ---------------------------------------------------------------- normal form
def norm_events(evs):
    """per stream: header blocks in order, concatenated body, push promises,
    WebTransport bytes (+session), datagrams, ended flag"""
    from aioquic.h3 import events as ev
    out = {}
    for e in evs:
        n = out.setdefault(e.stream_id, {"headers": [], "body": b"", "push": [], "wt": b"", "sess": None,
                                         "dgram": [], "ended": False, "push_id": None})
        if isinstance(e, ev.HeadersReceived):
            n["headers"].append([(bytes(a), bytes(b)) for a, b in e.headers])
            n["push_id"] = e.push_id if n["push_id"] is None else n["push_id"]
        elif isinstance(e, ev.DataReceived):
            n["body"] += e.data
        elif isinstance(e, ev.PushPromiseReceived):
            n["push"].append((e.push_id, [(bytes(a), bytes(b)) for a, b in e.headers]))
        elif isinstance(e, ev.WebTransportStreamDataReceived):
            n["wt"] += e.data
            if e.data or e.stream_ended:   # an empty non-final delivery carries nothing
                n["sess"] = e.session_id if n["sess"] is None else n["sess"]
        elif isinstance(e, ev.DatagramReceived):
            n["dgram"].append(bytes(e.data))
        if getattr(e, "stream_ended", False):
            n["ended"] = True
    # a stream with no content and no end is the same as no events for it
    return {k: v for k, v in out.items()
            if v["headers"] or v["body"] or v["push"] or v["wt"] or v["dgram"] or v["ended"]}


def show_norm(n):
    return json.dumps(n, default=lambda b: b.hex() if isinstance(b, (bytes, bytearray)) else str(b), sort_keys=True)


# ------------------------------------------- hand-made QPACK (RFC 9204, no pylsqpack)
def prefix_int(value, nbits, flags=0):
    """RFC 7541 §5.1 prefix integer; `flags` = the bits above the prefix"""
    limit = (1 << nbits) - 1
    if value < limit:
        return bytes([flags | value])
    out = bytearray([flags | limit])
    value -= limit
    while value >= 128:
        out.append((value & 0x7F) | 0x80)
        value >>= 7
    out.append(value)
    return bytes(out)


def qpack_literal_block(headers):
    """encoded field section using only 'literal field line with literal name'
    (RFC 9204 §4.5.6, no Huffman, no dynamic table): prefix 00 00, then per field
    001N H NameLen(3+) name, H ValueLen(7+) value.  Independent of pylsqpack's
    encoder, which refuses e.g. very long values that its decoder accepts."""
    out = bytearray(b"\x00\x00")
    for name, value in headers:
        out += prefix_int(len(name), 3, 0x20) + name
        out += prefix_int(len(value), 7, 0x00) + value
    return bytes(out)


# ------------------------------------------------------------------- replays
def strip_answers(op):
    """an op line without the oracle answers the adapter appended"""
    t = op.split()
    keep = []
    for tok in t:
        if len(tok) > 1 and tok[1] == ":" and tok[0] in "DREFVL":
            break
        keep.append(tok)
    return " ".join(keep)


def replay_broken(H3Impl, entries):
    """re-run recorded model/implementation disagreements; returns #still disagreeing"""
    bad = 0
    for b in entries:
        if b.get("kind") != "broken-correspondence" or not b.get("ops"):
            print("REPLAY-NOTE not re-executable here (rerun the check):", b.get("kind"), b.get("module") or b.get("theorem") or "")
            bad += 1
            continue
        ops = [strip_answers(o) for o in b["ops"]]
        if ops[0].startswith("closef."):
            print("REPLAY-NOTE close-frame correspondence is re-derived by the check itself")
            bad += 1
            continue
        outs, mlines, impl, done = run_case(H3Impl, ops)
        model = lean.run_driver(mlines)
        if outs != model:
            i = next(k for k in range(len(outs)) if outs[k] != model[k])
            print(f"VIOLATION-DETAIL model and implementation still disagree at op {i}: {done[i][:120]}")
            print("   impl :", outs[i][:300])
            print("   model:", model[i][:300])
            bad += 1
    return bad
