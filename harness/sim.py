"""Two real QuicConnection objects over a virtual-time, adversarial network.

Everything random derives from one PRNG.  Observation is through the public
API plus three taps installed for the duration of a run:
  * CryptoPair.encrypt_packet  -> plaintext payload of every packet built
  * CryptoPair.decrypt_packet  -> packet number / payload of every packet that
                                  authenticated
  * os.urandom                 -> PRNG bytes (connection IDs, challenges)
Frames are parsed by harness/frames.py (written from RFC 9000, not aioquic).
Monitors (objects with optional on_* methods) receive every observation.
"""
import os
import random

from . import frames as F

CLIENT_ADDR = ("1.2.3.4", 1234)
CLIENT_ADDR2 = ("1.2.3.9", 4321)
SERVER_ADDR = ("2.3.4.5", 4433)
TESTS = os.path.join(os.environ.get("VERIF_REPO", "/repo"), "tests")


class Endpoint:
    def __init__(self, name, conn, addr):
        self.name = name
        self.conn = conn
        self.addr = addr
        self.events = []          # (time, event)
        self.raised = []          # (api, exception)
        self.terminated = False
        self.peer = None

    @property
    def is_client(self):
        return self.conn._is_client


class Sim:
    def __init__(self, seed, *, client_options=None, server_options=None, monitors=(),
                 quic_logger=False, version=None, client_kwargs=None, server_kwargs=None):
        from aioquic.quic.configuration import QuicConfiguration
        from aioquic.quic.connection import QuicConnection
        from aioquic.quic.logger import QuicLogger

        self.r = random.Random(seed)
        self.now = 1000.0
        self.monitors = list(monitors)
        self.pending = []         # datagrams in the network: dicts
        self.dgram_id = 0
        self.steps = 0
        self.log = []             # human-readable trace (replay aid)
        self.max_timer_jump = 2.0
        self._install_taps()

        co = dict(client_options or {})
        so = dict(server_options or {})
        def mklog():
            # quic_logger: falsy = logging off, True = in-memory QuicLogger, callable = factory
            if not quic_logger:
                return None
            return quic_logger() if callable(quic_logger) else QuicLogger()

        cconf = QuicConfiguration(is_client=True, quic_logger=mklog(), **co)
        cconf.load_verify_locations(cafile=os.path.join(TESTS, "pycacert.pem"))
        sconf = QuicConfiguration(is_client=False, quic_logger=mklog(), **so)
        sconf.load_cert_chain(os.path.join(TESTS, "ssl_cert.pem"), os.path.join(TESTS, "ssl_key.pem"))
        client = QuicConnection(configuration=cconf, **(client_kwargs or {}))
        server = QuicConnection(
            configuration=sconf,
            original_destination_connection_id=client.original_destination_connection_id,
            **(server_kwargs or {}),
        )
        self.client = Endpoint("client", client, CLIENT_ADDR)
        self.server = Endpoint("server", server, SERVER_ADDR)
        self.client.peer = self.server
        self.server.peer = self.client
        self.endpoints = [self.client, self.server]

    # ------------------------------------------------------------------ taps
    def _install_taps(self):
        from aioquic.quic import crypto as qcrypto

        sim = self
        self._orig_enc = qcrypto.CryptoPair.encrypt_packet
        self._orig_dec = qcrypto.CryptoPair.decrypt_packet
        self._orig_urandom = os.urandom

        def enc(pair, plain_header, plain_payload, packet_number):
            out = sim._orig_enc(pair, plain_header, plain_payload, packet_number)
            ep, epoch = sim._owner(pair)
            if ep is not None:
                sim._emit("on_packet_built", ep, epoch, packet_number, bytes(plain_header), bytes(plain_payload), len(out))
            return out

        def dec(pair, packet, encrypted_offset, expected_packet_number):
            res = sim._orig_dec(pair, packet, encrypted_offset, expected_packet_number)
            ep, epoch = sim._owner(pair)
            if ep is not None:
                sim._emit("on_packet_authenticated", ep, epoch, res[2], bytes(res[0]), bytes(res[1]))
            return res

        def urandom(n):
            return bytes(sim.r.getrandbits(8) for _ in range(n))

        qcrypto.CryptoPair.encrypt_packet = enc
        qcrypto.CryptoPair.decrypt_packet = dec
        os.urandom = urandom

    def close_taps(self):
        from aioquic.quic import crypto as qcrypto
        qcrypto.CryptoPair.encrypt_packet = self._orig_enc
        qcrypto.CryptoPair.decrypt_packet = self._orig_dec
        os.urandom = self._orig_urandom

    def _owner(self, pair):
        for ep in getattr(self, "endpoints", []):
            c = ep.conn
            for epoch, p in list(c._cryptos.items()):
                if p is pair:
                    return ep, epoch.name
            for p in c._cryptos_initial.values():
                if p is pair:
                    return ep, "INITIAL"
        return None, None

    def _emit(self, what, *args):
        for m in self.monitors:
            fn = getattr(m, what, None)
            if fn is not None:
                fn(self, *args)

    # ---------------------------------------------------------------- driving
    def api(self, ep, name, *args, **kw):
        """call a public API method; exceptions are recorded, not propagated"""
        self._emit("before_api", ep, name, args, kw)
        try:
            res = getattr(ep.conn, name)(*args, **kw)
        except Exception as e:  # noqa
            ep.raised.append((name, e))
            self._emit("on_raise", ep, name, args, e)
            res = None
        self._emit("after_api", ep, name, args, kw, res)
        self._drain_events(ep)
        return res

    def _drain_events(self, ep):
        while True:
            try:
                ev = ep.conn.next_event()
            except Exception as e:  # noqa
                ep.raised.append(("next_event", e))
                self._emit("on_raise", ep, "next_event", (), e)
                return
            if ev is None:
                return
            ep.events.append((self.now, ev))
            if type(ev).__name__ == "ConnectionTerminated":
                ep.terminated = True
            self._emit("on_event", ep, ev)

    def transmit(self, ep):
        """datagrams_to_send -> network"""
        self._emit("before_api", ep, "datagrams_to_send", (self.now,), {})
        try:
            dgrams = ep.conn.datagrams_to_send(now=self.now)
        except Exception as e:  # noqa
            ep.raised.append(("datagrams_to_send", e))
            self._emit("on_raise", ep, "datagrams_to_send", (), e)
            dgrams = []
        self._emit("after_api", ep, "datagrams_to_send", (self.now,), {}, dgrams)
        for data, addr in dgrams:
            self.dgram_id += 1
            d = {"id": self.dgram_id, "src": ep, "dst": ep.peer, "data": bytes(data), "to": addr,
                 "from": ep.addr, "t": self.now}
            self.pending.append(d)
            self._emit("on_datagram_sent", ep, d)
        self._drain_events(ep)
        self.check_timer(ep)
        return len(dgrams)

    def check_timer(self, ep):
        self._emit("before_api", ep, "get_timer", (), {})
        try:
            t = ep.conn.get_timer()
        except Exception as e:  # noqa
            ep.raised.append(("get_timer", e))
            self._emit("on_raise", ep, "get_timer", (), e)
            t = None
        self._emit("after_api", ep, "get_timer", (), {}, t)
        return t

    def deliver(self, d, from_addr=None):
        ep = d["dst"]
        addr = from_addr or d["from"]
        self._emit("on_datagram_delivered", ep, d, addr)
        self.api(ep, "receive_datagram", d["data"], addr, now=self.now)
        self.transmit(ep)

    def fire_timer(self, ep, late=0.0):
        t = self.check_timer(ep)
        if t is None:
            return False
        if t + late > self.now:
            self.now = t + late
        self.api(ep, "handle_timer", now=self.now)
        self.transmit(ep)
        return True

    def connect(self):
        self.api(self.client, "connect", SERVER_ADDR, now=self.now)
        self.transmit(self.client)

    # ---------------------------------------------------------- network phases
    def adversarial_step(self, p_drop=0.15, p_dup=0.1, p_reorder=0.3, p_timer=0.15, p_rebind=0.0):
        """one scheduling decision; returns False when nothing is enabled"""
        r = self.r
        self.steps += 1
        live = [ep for ep in self.endpoints if not ep.terminated]
        if self.pending and r.random() > p_timer:
            i = 0
            if len(self.pending) > 1 and r.random() < p_reorder:
                i = r.randrange(len(self.pending))
            d = self.pending[i]
            x = r.random()
            if x < p_drop:
                self.pending.pop(i)
                self.log.append(f"drop #{d['id']}")
                return True
            if x < p_drop + p_dup:
                self.log.append(f"dup #{d['id']}")
            else:
                self.pending.pop(i)
            self.now += r.choice([0.0, 0.0005, 0.002, 0.01])
            addr = None
            if p_rebind and d["src"].is_client and r.random() < p_rebind:
                self.client.addr = CLIENT_ADDR2 if self.client.addr == CLIENT_ADDR else CLIENT_ADDR
                d = dict(d)
                addr = self.client.addr
                self.log.append("rebind client")
            self.log.append(f"deliver #{d['id']} -> {d['dst'].name}")
            self.deliver(d, addr)
            return True
        # timers: only deadlines in the near future are fired here, so that the
        # adversary's delays stay far below the idle timeout
        due = []
        for ep in live:
            t = self.check_timer(ep)
            if t is not None and t - self.now < self.max_timer_jump:
                due.append(ep)
        if due:
            ep = r.choice(due)
            self.log.append(f"timer {ep.name}")
            return self.fire_timer(ep, late=r.choice([0.0, 0.0, 0.001, 0.05]))
        if self.pending:
            d = self.pending.pop(0)
            self.now += 0.001
            self.log.append(f"deliver #{d['id']} -> {d['dst'].name}")
            self.deliver(d)
            return True
        return False

    def fair_phase(self, max_steps=4000, done=lambda: False):
        """deliver everything in order without loss, firing timers when idle"""
        n = 0
        while n < max_steps:
            n += 1
            if done():
                return True
            if self.pending:
                d = self.pending.pop(0)
                self.now += 0.001
                self.deliver(d)
                continue
            live = [ep for ep in self.endpoints if not ep.terminated]
            if not live:
                return done()
            best = None
            for ep in live:
                t = self.check_timer(ep)
                if t is not None and (best is None or t < best[0]):
                    best = (t, ep)
            if best is None:
                return done()
            self.fire_timer(best[1])
        return done()

    def handshake(self):
        self.connect()
        ok = self.fair_phase(
            max_steps=200,
            done=lambda: self.client.conn._handshake_confirmed and self.server.conn._handshake_confirmed
            and not self.pending)
        return ok


def parse_payload(plain_payload):
    try:
        return F.parse_frames(plain_payload)
    except F.ParseError as e:
        return [{"name": "UNPARSEABLE", "error": str(e)}]
