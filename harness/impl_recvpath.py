"""C05 — hostile network input against real QuicConnection objects.

Two parts:

* the *hostile-input driver*: builds a client/server pair (harness/sim.py) in a
  named connection state, applies a JSON-able list of hostile inputs (raw
  datagrams, mutated genuine datagrams, Retry / Version Negotiation packets,
  frames protected with the peer's live keys — harness/inject.py) to the
  victim, then keeps calling get_timer / handle_timer(at the deadline) /
  datagrams_to_send / next_event until the victim reports termination.  Every
  exception escaping one of the five public calls is recorded with the
  innermost aioquic function of its traceback.

* the `rx.` line protocol adapter (`RecvImpl`): one injected single-frame
  packet on a real connection, reported as the outcome class
  `ignored | processed | closed <code>` that lean/Driver/RecvPath.lean predicts
  from the abstract state printed by `abstract_state`.
"""
import os

from . import frames as F
from . import inject
from . import sim as S

V = F.put_varint
PUBLIC = ("receive_datagram", "get_timer", "handle_timer", "datagrams_to_send", "next_event")


# --------------------------------------------------------------------------- #
# exceptions
# --------------------------------------------------------------------------- #
def innermost_aioquic_function(exc):
    tb = exc.__traceback__
    name = None
    while tb is not None:
        code = tb.tb_frame.f_code
        if "aioquic" in code.co_filename.replace("\\", "/").split("/"):
            name = code.co_name
        tb = tb.tb_next
    return name


def describe_raise(api, exc):
    return {"api": api, "exception": type(exc).__name__, "function": innermost_aioquic_function(exc),
            "message": str(exc)[:200]}


# --------------------------------------------------------------------------- #
# connection states
# --------------------------------------------------------------------------- #
class Recorder:
    """keeps every datagram put on the wire, per destination endpoint name"""

    def __init__(self):
        self.sent = {"client": [], "server": []}

    def on_datagram_sent(self, sim, ep, d):
        self.sent[ep.peer.name].append(d["data"])


_CERTS = {}


def install_cert_cache():
    """QuicConfiguration.load_cert_chain re-validates the RSA key on every call
    (~90 ms of a ~100 ms handshake); the parsed objects are immutable, share them"""
    from aioquic.quic.configuration import QuicConfiguration
    if getattr(QuicConfiguration, "_c05_cached", False):
        return
    orig = QuicConfiguration.load_cert_chain

    def load_cert_chain(self, certfile, keyfile=None, password=None):
        key = (str(certfile), str(keyfile), password)
        if key not in _CERTS:
            orig(self, certfile, keyfile, password)
            _CERTS[key] = (self.certificate, self.certificate_chain, self.private_key)
        self.certificate, self.certificate_chain, self.private_key = _CERTS[key]

    QuicConfiguration.load_cert_chain = load_cert_chain
    QuicConfiguration._c05_cached = True


HANDSHAKE_STEPS = 6
# victim holds no / one spare peer connection ID (the peer withholds NEW_CONNECTION_ID frames), or
# had seven and consumed them all with change_connection_id()
SPARE_CID_STATES = ["nospare", "onespare", "consumed"]
# server whose anti-amplification budget on the (unvalidated) path is exhausted: it received the
# client's Initial only (ampK: the client additionally processed K datagrams of the server's
# flight, so the hostile peer holds Handshake / 1-RTT keys), nothing else ever reached the server,
# and its retransmission timers ran until datagrams_to_send() has nothing left it may send
AMP_STATES = ["amp0", "amp2"]
# application activity at the victim: streams in different lifecycle stages — a finished response
# awaiting its ACK, a large response in flight that fills the congestion window, a stream it
# reset, one it asked the peer to stop, a uni stream, streams the peer never used — and nothing of
# what the victim sent has been acknowledged.  `sim.app_pns` = the packet numbers it sent.
APP_STATES = ["appbusy", "appbusy-fin"]
ZERO_RTT_STATES = ["zrtt1", "zrtt2"]     # server after 1 / 2 deliveries of a resumed handshake with early data
STATES = (["fresh"] + [f"hs{k}" for k in range(HANDSHAKE_STEPS + 1)] +
          ["connected", "streams", "keyupdate", "closepending", "closing", "draining", "terminated"])


def _quiesce(sim, steps=40):
    """deliver what is in flight and fire near timers (ACK delays)"""
    n = 0
    while n < steps:
        n += 1
        if sim.pending:
            d = sim.pending.pop(0)
            sim.now += 0.001
            sim.deliver(d)
            continue
        due = None
        for ep in sim.endpoints:
            if ep.terminated:
                continue
            t = sim.check_timer(ep)
            if t is not None and t - sim.now < 0.2 and (due is None or t < due[0]):
                due = (t, ep)
        if due is None:
            return
        sim.fire_timer(due[1])


_TICKET = {}


def _resumption_material():
    """one full handshake that yields a session ticket (client side) and the
    server's ticket store, for the 0-RTT states"""
    if _TICKET:
        return _TICKET["ticket"], _TICKET["store"]
    install_cert_cache()
    sim = S.Sim(4242)
    got = []
    store = {}
    sim.client.conn._session_ticket_handler = got.append
    sim.server.conn._session_ticket_handler = lambda t: store.__setitem__(t.ticket, t)
    try:
        sim.handshake()
        _quiesce(sim)
    finally:
        sim.close_taps()
    _TICKET["ticket"] = got[0] if got else None
    _TICKET["store"] = store
    return _TICKET["ticket"], store


def build_state(role, state, seed, *, quic_logger=False, client_options=None, server_options=None,
                monitors=()):
    """returns (sim, victim, recorder).  `role` names the victim."""
    install_cert_cache()
    rec = Recorder()
    co = dict(client_options or {})
    so = dict(server_options or {})
    sim = S.Sim(seed, client_options=co, server_options=so, quic_logger=quic_logger,
                monitors=[rec] + list(monitors))
    sim.recorder = rec
    victim = sim.client if role == "client" else sim.server
    peer = victim.peer
    if state.startswith("zrtt"):
        sim.close_taps()
        ticket, store = _resumption_material()
        co["session_ticket"] = ticket
        sim = S.Sim(seed, client_options=co, server_options=so, quic_logger=quic_logger,
                    monitors=[rec] + list(monitors))
        sim.recorder = rec
        victim = sim.client if role == "client" else sim.server
        sim.server.conn._session_ticket_fetcher = store.get
        sim.connect()
        sim.api(sim.client, "send_stream_data", 0, b"early data", end_stream=False)
        sim.transmit(sim.client)
        for _ in range(int(state[4:])):
            if not sim.pending:
                break
            d = sim.pending.pop(0)
            sim.now += 0.001
            sim.deliver(d)
        return sim, victim, rec
    if state == "fresh":
        if role == "client":
            sim.connect()       # a client exists on the network only after connect()
            sim.pending.clear()
        return sim, victim, rec
    if state in ("nospare", "onespare"):
        # the PEER issues no (one) connection ID beyond the handshake one: harness-side wrapper
        # of the peer's `_replenish_connection_ids` (the victim is untouched)
        pc = peer.conn
        limit = 1 if state == "nospare" else 2
        orig_replenish = pc._replenish_connection_ids

        def replenish():
            saved = pc._remote_active_connection_id_limit
            pc._remote_active_connection_id_limit = min(saved, limit)
            try:
                orig_replenish()
            finally:
                pc._remote_active_connection_id_limit = saved

        pc._replenish_connection_ids = replenish
    sim.connect()
    if state.startswith("amp"):
        server, client = sim.server, sim.client
        d = sim.pending.pop(0)
        sim.now += 0.001
        sim.deliver(d)                                   # the client's Initial reaches the server
        for _ in range(int(state[3:])):                   # the client sees K datagrams of the answer
            nxt = [x for x in sim.pending if x["dst"] is client]
            if not nxt:
                break
            sim.pending.remove(nxt[0])
            sim.now += 0.001
            sim.deliver(nxt[0])
        sim.pending.clear()                               # whatever the client sends is lost
        for _ in range(12):                               # probe timeouts burn the 3x budget
            t = sim.check_timer(server)
            if t is None or t - sim.now > 20:
                break
            sim.fire_timer(server)
            sim.pending.clear()
        return sim, victim, rec
    if state in SPARE_CID_STATES:
        sim.fair_phase(max_steps=60, done=lambda: sim.client.conn._handshake_confirmed
                       and sim.server.conn._handshake_confirmed and not sim.pending)
        _quiesce(sim)
        if state == "consumed":
            # every spare is consumed; the RETIRE_CONNECTION_ID frames never reach the peer, which
            # therefore issues no replacement
            for _ in range(8):
                sim.api(victim, "change_connection_id")
            sim.transmit(victim)
            sim.pending.clear()
        return sim, victim, rec
    if state.startswith("hs"):
        k = int(state[2:])
        for _ in range(k):
            if not sim.pending:
                break
            d = sim.pending.pop(0)
            sim.now += 0.001
            sim.deliver(d)
        return sim, victim, rec
    sim.fair_phase(max_steps=60, done=lambda: sim.client.conn._handshake_confirmed
                   and sim.server.conn._handshake_confirmed and not sim.pending)
    _quiesce(sim)
    if state == "connected":
        return sim, victim, rec
    if state.startswith("appbusy"):
        vb, pb = (1, 0) if role == "server" else (0, 1)      # bidi stream ids opened by victim / peer
        req = [pb, pb + 4]
        for sid in req:                                        # the peer's requests reach the victim
            sim.api(peer, "send_stream_data", sid, b"GET /%d" % sid, end_stream=True)
        sim.transmit(peer)
        for d in [x for x in sim.pending if x["dst"] is victim]:
            sim.pending.remove(d)
            sim.now += 0.001
            sim.deliver(d)
        sim.pending.clear()                                    # from now on the peer hears nothing
        pn0 = victim.conn._packet_number
        sim.api(victim, "send_stream_data", req[0], b"short answer", end_stream=True)
        sim.transmit(victim)
        sim.api(victim, "send_stream_data", vb, b"victim stream", end_stream=state.endswith("fin"))
        sim.api(victim, "send_stream_data", vb + 2, b"victim uni", end_stream=False)
        sim.transmit(victim)
        sim.api(victim, "send_stream_data", req[1], b"L" * 300000, end_stream=state.endswith("fin"))
        for _ in range(40):                                    # pacing timer by pacing timer, until the
            sim.transmit(victim)                               # congestion window is full
            sim.pending.clear()
            t = sim.check_timer(victim)
            if t is None or t - sim.now > 0.02 or \
                    victim.conn._loss.congestion_window - victim.conn._loss.bytes_in_flight < victim.conn._max_datagram_size:
                break
            sim.fire_timer(victim)
        sim.api(victim, "send_stream_data", vb + 4, b"queued behind the window", end_stream=False)
        sim.transmit(victim)
        sim.pending.clear()
        sim.app_pns = list(range(pn0, victim.conn._packet_number))
        return sim, victim, rec
    if state == "streams":
        c, s = sim.client, sim.server
        sim.api(c, "send_stream_data", 0, b"hello" * 40, end_stream=True)
        sim.api(c, "send_stream_data", 2, b"uni-c", end_stream=False)
        sim.api(c, "send_stream_data", 4, b"x" * 3000, end_stream=False)
        sim.transmit(c)
        sim.api(s, "send_stream_data", 1, b"world" * 40, end_stream=True)
        sim.api(s, "send_stream_data", 3, b"uni-s", end_stream=False)
        sim.transmit(s)
        _quiesce(sim)
        sim.api(s, "send_stream_data", 0, b"reply", end_stream=True)
        sim.api(c, "send_stream_data", 1, b"reply", end_stream=True)
        sim.api(c, "reset_stream", 4, 7)
        sim.api(s, "stop_stream", 2, 9)
        sim.transmit(c)
        sim.transmit(s)
        _quiesce(sim)
        return sim, victim, rec
    if state == "keyupdate":
        sim.api(peer, "request_key_update")
        sim.api(peer, "send_ping", 1)
        sim.transmit(peer)
        _quiesce(sim)
        sim.api(victim, "request_key_update")
        sim.api(victim, "send_ping", 2)
        sim.transmit(victim)
        _quiesce(sim)
        return sim, victim, rec
    if state == "closepending":
        sim.api(victim, "close", error_code=0, reason_phrase="bye")
        return sim, victim, rec
    if state in ("closing", "terminated"):
        sim.api(victim, "close", error_code=0, reason_phrase="bye")
        sim.transmit(victim)
        sim.pending.clear()
        if state == "terminated":
            for _ in range(5):
                if victim.terminated:
                    break
                sim.fire_timer(victim)
        return sim, victim, rec
    if state == "draining":
        sim.api(peer, "close", error_code=3, reason_phrase="peer bye")
        sim.transmit(peer)
        while sim.pending:
            d = sim.pending.pop(0)
            if d["dst"] is victim:
                sim.deliver(d)
        return sim, victim, rec
    raise ValueError(state)


# --------------------------------------------------------------------------- #
# hostile inputs (JSON-able specs)
# --------------------------------------------------------------------------- #
def _mutate(data, ops, genuine):
    b = bytearray(data)
    for op in ops:
        k = op[0]
        if k == "flip" and b:
            b[op[1] % len(b)] ^= 1 << (op[2] % 8)
        elif k == "set" and b:
            b[op[1] % len(b)] = op[2] & 0xFF
        elif k == "trunc":
            del b[op[1] % (len(b) + 1):]
        elif k == "append":
            b += bytes.fromhex(op[1])
        elif k == "prepend":
            b[0:0] = bytes.fromhex(op[1])
        elif k == "insert":
            p = op[1] % (len(b) + 1)
            b[p:p] = bytes.fromhex(op[2])
        elif k == "delete" and b:
            p = op[1] % len(b)
            del b[p:p + op[2]]
        elif k == "coalesce" and genuine:
            b += genuine[op[1] % len(genuine)]
        elif k == "precoalesce" and genuine:
            b[0:0] = genuine[op[1] % len(genuine)]
    return bytes(b)


def resolve_dcid(sim, victim, sel):
    """destination CID of an injected packet: None = the peer's current choice; "host:i" = the
    i-th connection ID the victim currently has issued; "retired:i" = one it has retired;
    "unknown:n" = n bytes nobody issued; hex otherwise"""
    if sel is None:
        return None
    conn = victim.conn
    kind, _, arg = sel.partition(":")
    if kind == "host":
        cids = conn._host_cids
        return cids[int(arg) % len(cids)].cid if cids else None
    if kind == "retired":
        gone = [e.connection_id for _, e in victim.events if type(e).__name__ == "ConnectionIdRetired"]
        return gone[int(arg) % len(gone)] if gone else bytes([0xEE]) * len(conn.host_cid)
    if kind == "unknown":
        return bytes([0xA5]) * int(arg)
    return bytes.fromhex(sel)


def materialise(sim, victim, spec):
    """spec -> datagram bytes (None when the attacker lacks the keys)"""
    from aioquic.quic.packet import encode_quic_retry, encode_quic_version_negotiation
    k = spec["k"]
    conn = victim.conn
    if k == "raw":
        return bytes.fromhex(spec["hex"])
    if k == "frames":
        payload = bytes.fromhex(spec["hex"])
        if not victim.peer.conn._cryptos:
            return None     # the peer has no keys yet (nothing was ever sent to it)
        restore = None
        if spec.get("reserved"):
            # set the reserved header bits before protection (a conforming builder never does)
            from aioquic import tls
            ep = getattr(tls.Epoch, spec.get("epoch", "ONE_RTT"))
            pair = victim.peer.conn._cryptos.get(ep)
            if pair is not None:
                orig = pair.encrypt_packet
                mask = 0x18 if spec.get("epoch", "ONE_RTT") == "ONE_RTT" else 0x0C

                def enc(plain_header, plain_payload, packet_number):
                    hdr = bytes([plain_header[0] | mask]) + bytes(plain_header[1:])
                    return orig(hdr, plain_payload, packet_number)

                pair.encrypt_packet = enc
                restore = pair
        try:
            data = inject.build(sim, victim.peer, payload, epoch=spec.get("epoch", "ONE_RTT"), pn=spec.get("pn"),
                                pad_to=spec.get("pad_to"), dcid=resolve_dcid(sim, victim, spec.get("dcid")))
        finally:
            if restore is not None:
                del restore.encrypt_packet
        if data is None:
            return None
        if spec.get("mut"):
            data = _mutate(data, spec["mut"], sim.recorder.sent[victim.name])
        return data
    if k == "ackctl":
        # one 1-RTT packet: an ACK of chosen packets the victim sent during its application
        # activity (indices into sim.app_pns; negative = from the end) + stream-control frames
        pns = getattr(sim, "app_pns", None) or list(range(max(0, conn._packet_number - 12), conn._packet_number))
        payload = b""
        if spec.get("ack") is not None and pns:
            i, j = spec["ack"]
            sel = pns[i:j] if j is not None else pns[i:]
            if sel:
                payload += F.enc_ack([(sel[0], sel[-1])])
        payload += bytes.fromhex(spec.get("hex", ""))
        if not payload:
            payload = b"\x01"
        if not victim.peer.conn._cryptos:
            return None
        return inject.build(sim, victim.peer, payload, epoch="ONE_RTT")
    if k == "pnseq":
        # one packet of a window of packet numbers delivered out of order by a key-holding peer:
        # pn = base + off (the window is reserved on first use), content: ack-eliciting PING and/or
        # an ACK of everything the victim has sent so far (incl. the packet that carried its ACKs)
        from aioquic import tls
        peer = victim.peer.conn
        epoch = spec.get("epoch", "ONE_RTT")
        key = "_pn_base_" + epoch
        if not hasattr(sim, key):
            setattr(sim, key, peer._packet_number)
            peer._packet_number += spec.get("window", 8)
        pn = getattr(sim, key) + spec["off"]
        payload = b""
        if "ack" in spec["content"] and conn._packet_number > 0:
            lo = max(0, conn._packet_number - 1 - spec.get("ack_span", conn._packet_number))
            payload += F.enc_ack([(lo, conn._packet_number - 1)])
        if "ping" in spec["content"]:
            payload += b"\x01"
        if "pad" in spec["content"] or not payload:
            payload += b"\x00"
        if not peer._cryptos:
            return None
        return inject.build(sim, victim.peer, payload, epoch=epoch, pn=pn)
    if k == "genuine":
        g = sim.recorder.sent[victim.name]
        if not g:
            return None
        return _mutate(g[spec["idx"] % len(g)], spec.get("mut", []), g)
    if k == "header":
        # a syntactically plausible header aimed at the victim's connection ID
        first = spec["first"] & 0xFF
        cid = conn.host_cid if spec.get("cid", "host") == "host" else bytes.fromhex(spec["cid"])
        if first & 0x80:
            out = bytes([first]) + spec["version"].to_bytes(4, "big")
            out += bytes([spec.get("dcil", len(cid))]) + cid
            scid = bytes.fromhex(spec.get("scid", "0102030405060708"))
            out += bytes([spec.get("scil", len(scid))]) + scid
        else:
            out = bytes([first]) + cid
        return out + bytes.fromhex(spec.get("rest", ""))
    if k == "retry":
        version = spec.get("version", conn._version or 1)
        odcid = conn._peer_cid.cid if spec.get("odcid") is None else bytes.fromhex(spec["odcid"])
        pkt = encode_quic_retry(version=version, source_cid=bytes.fromhex(spec.get("scid", "aabbccddeeff0011")),
                                destination_cid=conn.host_cid, original_destination_cid=odcid,
                                retry_token=bytes(spec.get("token_len", 16)))
        if spec.get("mut"):
            pkt = _mutate(pkt, spec["mut"], [])
        return pkt
    if k == "vn":
        pkt = encode_quic_version_negotiation(source_cid=conn._peer_cid.cid, destination_cid=conn.host_cid,
                                              supported_versions=spec.get("versions", [0x1A2A3A4A]))
        if spec.get("mut"):
            pkt = _mutate(pkt, spec["mut"], [])
        return pkt
    raise ValueError(k)


class Result:
    def __init__(self):
        self.raises = []          # describe_raise dicts (victim and peer)
        self.applied = 0
        self.skipped = 0
        self.closed_by = None     # index of the input after which the victim had decided to close
        self.outcomes = []        # per input: "ignored" | "processed" | "closed <code>" | "skipped" | "raised"
        self.terminated = False
        self.post_calls = 0
        self.consumed = 0


def _new_raises(sim, seen):
    out = []
    for ep in sim.endpoints:
        for api, exc in ep.raised:
            if id(exc) not in seen:
                seen.add(id(exc))
                d = describe_raise(api, exc)
                d["endpoint"] = ep.name
                out.append(d)
    return out


def victim_fingerprint(victim):
    """cheap projection of the victim used to classify ignored vs processed"""
    c = victim.conn
    sp = []
    for e, s in sorted(c._spaces.items(), key=lambda kv: kv[0].value):
        sp.append((e.value, s.largest_received_packet, len(s.ack_queue), s.expected_packet_number))
    return (c._state.name, c._close_pending, tuple(sp), len(c._events), c._retry_count, c._version,
            getattr(c, "_packet_number", 0))


def apply_input(sim, victim, spec, res, seen, tap=None):
    data = materialise(sim, victim, spec)
    if data is None:
        res.skipped += 1
        res.outcomes.append("skipped")
        return None
    before = victim_fingerprint(victim)
    ev0 = len(victim.events)
    frm = victim.peer.addr if spec.get("addr") is None else tuple(spec["addr"])
    d = {"id": -1, "src": victim.peer, "dst": victim, "data": data, "to": victim.addr, "from": frm,
         "t": sim.now, "injected": True}
    sim.now += spec.get("dt", 0.0005)
    # receive_datagram first (outcome class), then the transmit/timer/event calls of Sim.deliver
    sim._emit("on_datagram_delivered", victim, d, frm)
    if tap is not None:
        tap.begin(len(data))
    sim.api(victim, "receive_datagram", data, frm, now=sim.now)
    if tap is not None:
        tap.end(victim)
    c = victim.conn
    mid = victim_fingerprint(victim)
    close_event = c._close_event
    sim.transmit(victim)
    if spec.get("timer"):
        # let the victim's near timers (delayed ACK) fire before the next input
        for _ in range(3):
            t = sim.check_timer(victim)
            if t is None or t - sim.now > 0.1 or victim.terminated:
                break
            sim.fire_timer(victim)
        if spec.get("drop_output", True):
            sim.pending[:] = [d for d in sim.pending if d["src"] is not victim]
    res.applied += 1
    new = _new_raises(sim, seen)
    res.raises += new
    if any(r["endpoint"] == victim.name for r in new):
        oc = "raised"
    elif close_event is not None and before[0] not in ("CLOSING", "DRAINING", "TERMINATED") and (
            mid[0] in ("CLOSING", "DRAINING", "TERMINATED") or mid[1]) and not before[1]:
        oc = "closed %d" % int(close_event.error_code)
    elif mid == before:
        oc = "ignored"
    else:
        oc = "processed"
    res.outcomes.append(oc)
    return data


def run_to_termination(sim, victim, res, seen, *, silent=True, max_iter=400):
    """keep calling the timer / transmit / event calls until termination is reported"""
    n = 0
    while n < max_iter and not victim.terminated:
        n += 1
        if silent:
            sim.pending.clear()
        elif sim.pending:
            d = sim.pending.pop(0)
            sim.now += 0.001
            sim.deliver(d)
            res.raises += _new_raises(sim, seen)
            continue
        t = sim.check_timer(victim)
        res.raises += _new_raises(sim, seen)
        if t is None:
            break
        if t > sim.now:
            sim.now = t
        sim.api(victim, "handle_timer", now=sim.now)
        sim.transmit(victim)
        res.raises += _new_raises(sim, seen)
        if any(r["endpoint"] == victim.name for r in res.raises):
            break
    res.post_calls += n
    res.terminated = victim.terminated
    # a terminated connection keeps answering the query calls
    if victim.terminated:
        sim.check_timer(victim)
        sim.transmit(victim)
        res.raises += _new_raises(sim, seen)


def post_api_traffic(sim, victim):
    """legitimate application activity of the victim after the hostile input"""
    c = victim.conn
    if c._close_event is not None or c._state.name != "CONNECTED" or not c._handshake_complete:
        return
    sid = c.get_next_available_stream_id()
    sim.api(victim, "send_stream_data", sid, b"post" * 1500, end_stream=True)
    for osid in list(c._streams)[:3]:
        if c._stream_can_send(osid) and not c._streams[osid].sender.is_finished:
            sim.api(victim, "send_stream_data", osid, b"more" * 300, end_stream=False)
    sim.api(victim, "send_ping", 77)
    if c._remote_max_datagram_frame_size:
        sim.api(victim, "send_datagram_frame", b"dgram")
    sim.transmit(victim)


def run_inputs(sim, victim, scn):
    """apply scn["inputs"] to an already built state, then run to termination"""
    res = Result()
    seen = set()
    res.raises += _new_raises(sim, seen)     # raised while reaching the state (should be none)
    res.setup_raises = len(res.raises)
    for i, spec in enumerate(scn["inputs"]):
        apply_input(sim, victim, spec, res, seen)
        res.consumed = i + 1
        c = victim.conn
        if res.closed_by is None and (c._close_event is not None):
            res.closed_by = i
        if any(r["endpoint"] == victim.name for r in res.raises[res.setup_raises:]):
            break
        if scn.get("stop_on_close") and (c._close_event is not None):
            break
        if scn.get("interleave") and sim.pending:
            # let the genuine peer answer between hostile inputs
            for _ in range(scn["interleave"]):
                if not sim.pending:
                    break
                d = sim.pending.pop(0)
                sim.now += 0.001
                sim.deliver(d)
            res.raises += _new_raises(sim, seen)
    if scn.get("post_api"):
        post_api_traffic(sim, victim)
        res.raises += [x for x in _new_raises(sim, seen) if x["api"] in PUBLIC]
    run_to_termination(sim, victim, res, seen, silent=scn.get("post", "silent") == "silent")
    ce = victim.conn._close_event
    res.close_code = None if ce is None else int(ce.error_code)
    res.final_state = victim.conn._state.name
    return res


def run_scenario(scn):
    """scn: {"role","state","seed","inputs":[spec…],"post":"silent"|"continue","qlog":bool,
             "interleave": n, "post_api": bool, "stop_on_close": bool}
    returns Result"""
    co = dict(scn.get("client_options") or {})
    so = dict(scn.get("server_options") or {})
    if scn.get("mds"):                       # configuration.max_datagram_size of both endpoints
        co["max_datagram_size"] = scn["mds"]
        so["max_datagram_size"] = scn["mds"]
    if scn.get("client_token_len") is not None:   # a token a previous connection got in NEW_TOKEN
        co["token"] = bytes([0x54]) * scn["client_token_len"]
    sim, victim, _ = build_state(scn["role"], scn["state"], scn["seed"], quic_logger=scn.get("qlog", False),
                                 client_options=co, server_options=so)
    try:
        return run_inputs(sim, victim, scn)
    finally:
        sim.close_taps()


# --------------------------------------------------------------------------- #
# frame catalogue (key-holding peer)
# --------------------------------------------------------------------------- #
BOUNDARY = [0, 1, 63, 64, 16383, 16384, (1 << 30) - 1, 1 << 30, (1 << 62) - 1]
SMALL = [0, 1, 2, 3, 4, 5, 7, 8, 63, 64]


def stream_ids(role_victim):
    """stream ids of all four kinds incl. locally-initiated-not-yet-open and huge ones"""
    base = [0, 1, 2, 3, 4, 5, 6, 7, 8, 9, 10, 11, 400, 401, 402, 403, 508, 509, 510, 511, 512, 513, 514, 515,
            16380, 16381, 16382, 16383, (1 << 62) - 4, (1 << 62) - 3, (1 << 62) - 2, (1 << 62) - 1]
    return base


def catalogue(r, n_random=0):
    """list of (label, payload bytes): every frame type x boundary values"""
    out = []
    B = BOUNDARY
    sids = stream_ids(None)

    def add(label, b):
        out.append((label, bytes(b)))

    add("padding", b"\x00")
    add("padding-long", bytes(40))
    add("ping", b"\x01")
    # ACK: largest, delay, count, first range, [gap, len]*
    for t in (2, 3):
        ecn = V(0) + V(1) + V((1 << 62) - 1) if t == 3 else b""
        for largest in B:
            for first in (0, 1, largest, largest + 1 if largest + 1 < (1 << 62) else 0, (1 << 62) - 1):
                if first >= 1 << 62:
                    continue
                add(f"ack{t}-l{largest}-f{first}", bytes([t]) + V(largest) + V(B[r.randrange(len(B))]) + V(0) + V(first) + ecn)
        add(f"ack{t}-count-huge", bytes([t]) + V(10) + V(0) + V((1 << 62) - 1) + V(0) + ecn)
        add(f"ack{t}-count-1-missing", bytes([t]) + V(10) + V(0) + V(1) + V(0))
        add(f"ack{t}-neg-range", bytes([t]) + V(5) + V(0) + V(2) + V(1) + V(0) + V(1) + V(7) + V(9) + ecn)
        add(f"ack{t}-gap-huge", bytes([t]) + V(100) + V(0) + V(1) + V(0) + V((1 << 62) - 1) + V((1 << 62) - 1) + ecn)
        add(f"ack{t}-many", bytes([t]) + V(5000) + V(0) + V(300) + V(0) + b"".join(V(0) + V(0) for _ in range(300)) + ecn)
        add(f"ack{t}-delay-max", bytes([t]) + V(3) + V((1 << 62) - 1) + V(0) + V(3) + ecn)
        if t == 3:
            add("ack3-ecn-truncated", bytes([t]) + V(3) + V(0) + V(0) + V(0) + V(0) + V(1))
    # RESET_STREAM / STOP_SENDING / MAX_STREAM_DATA / STREAM_DATA_BLOCKED
    for sid in sids:
        for v in (0, 1, 16384, (1 << 62) - 1):
            add(f"reset-s{sid}-f{v}", b"\x04" + V(sid) + V(v % 7) + V(v))
            add(f"maxsd-s{sid}-{v}", b"\x11" + V(sid) + V(v))
            add(f"sdb-s{sid}-{v}", b"\x15" + V(sid) + V(v))
        add(f"stop-s{sid}", b"\x05" + V(sid) + V((1 << 62) - 1))
        add(f"reset-s{sid}-code-max", b"\x04" + V(sid) + V((1 << 62) - 1) + V(0))
    # CRYPTO
    for off in B:
        for ln in (0, 1, 5):
            add(f"crypto-o{off}-l{ln}", b"\x06" + V(off) + V(ln) + bytes([1] * ln))
        add(f"crypto-o{off}-lenmax", b"\x06" + V(off) + V((1 << 62) - 1) + b"abc")
    add("crypto-tls-garbage", b"\x06" + V(0) + V(40) + bytes(range(40)))
    # NEW_TOKEN
    for ln in (0, 1, 63, 64, 500):
        add(f"newtoken-{ln}", b"\x07" + V(ln) + bytes(ln))
    add("newtoken-lenmax", b"\x07" + V((1 << 62) - 1) + b"ab")
    # STREAM 0x08..0x0f
    for t in range(8, 16):
        for sid in sids:
            off = B[r.randrange(len(B))] if t & 4 else 0
            ln = r.choice([0, 1, 5, 63])
            b = bytes([t]) + V(sid) + (V(off) if t & 4 else b"") + (V(ln) if t & 2 else b"") + bytes([0x41] * ln)
            add(f"stream{t:x}-s{sid}-o{off}-l{ln}", b)
        for off in B:
            if t & 4:
                add(f"stream{t:x}-o{off}-lenmax", bytes([t]) + V(1 if t & 1 else 0) + V(off) +
                    (V((1 << 62) - 1) if t & 2 else b"") + b"zz")
                add(f"stream{t:x}-peer-o{off}", bytes([t]) + V(0) + V(off) + (V(2) if t & 2 else b"") + b"zz")
    # MAX_DATA, MAX_STREAMS, DATA_BLOCKED, STREAMS_BLOCKED
    for t in (0x10, 0x12, 0x13, 0x14, 0x16, 0x17):
        for v in B + [1 << 60, (1 << 60) + 1]:
            add(f"limit{t:x}-{v}", bytes([t]) + V(v))
    # NEW_CONNECTION_ID
    for seq in (0, 1, 2, 7, 8, 9, 63, 64, (1 << 62) - 1):
        for rpt in (0, 1, seq, seq + 1 if seq + 1 < (1 << 62) else 0):
            for ln in (0, 1, 8, 20, 21, 255):
                add(f"ncid-q{seq}-r{rpt}-l{ln}", b"\x18" + V(seq) + V(rpt) + bytes([ln]) + bytes([seq & 0xFF] * ln) + bytes(16))
    add("ncid-short-token", b"\x18" + V(1) + V(0) + bytes([8]) + bytes(8) + bytes(15))
    # RETIRE_CONNECTION_ID
    for seq in B + [2, 7, 8, 9]:
        add(f"rcid-{seq}", b"\x19" + V(seq))
    # PATH_CHALLENGE / PATH_RESPONSE
    add("pathchal", b"\x1a" + bytes(8))
    add("pathchal-short", b"\x1a" + bytes(7))
    add("pathresp-unsolicited", b"\x1b" + bytes(range(8)))
    add("pathresp-short", b"\x1b" + bytes(3))
    # CONNECTION_CLOSE
    for t in (0x1C, 0x1D):
        for code in (0, 1, 0x100, 0x1FF, (1 << 62) - 1):
            ft = V(B[r.randrange(len(B))]) if t == 0x1C else b""
            add(f"close{t:x}-{code}", bytes([t]) + V(code) + ft + V(3) + b"bye")
            add(f"close{t:x}-{code}-badutf8", bytes([t]) + V(code) + ft + V(4) + b"\xff\xfe\xc3\x28")
            add(f"close{t:x}-{code}-lenmax", bytes([t]) + V(code) + ft + V((1 << 62) - 1) + b"x")
        add(f"close{t:x}-long-reason", bytes([t]) + V(7) + (V(6) if t == 0x1C else b"") + V(1100) + b"r" * 1100)
    add("handshake-done", b"\x1e")
    # DATAGRAM
    add("datagram-nolen-empty", b"\x30")
    add("datagram-nolen", b"\x30" + b"dgram")
    for ln in (0, 1, 63, 64, 1100):
        add(f"datagram-len{ln}", b"\x31" + V(ln) + bytes(ln))
    add("datagram-lenmax", b"\x31" + V((1 << 62) - 1) + b"q")
    # unknown / reserved frame types, non-minimal encodings of known ones
    for t in (0x1F, 0x20, 0x21, 0x2F, 0x32, 0x3F, 0x40, 0x41, 0xFF, 16383, 16384, (1 << 30), (1 << 62) - 1):
        add(f"unknown-{t:x}", V(t) + b"\x00\x00")
    for t in (0x00, 0x01, 0x02, 0x06, 0x08, 0x1C, 0x1E, 0x30):
        for ml in (2, 4, 8):
            add(f"nonminimal-{t:x}-{ml}", V(t, ml) + V(0) + V(0) + V(0) + V(0))
    add("empty-payload", b"")
    add("varint-type-truncated", b"\xc0\x00")
    for _ in range(n_random):
        ln = r.randrange(1, 40)
        add("random-%d" % _, bytes(r.getrandbits(8) for _ in range(ln)))
    return out


def truncations(payload):
    return [payload[:i] for i in range(1, len(payload))]


# --------------------------------------------------------------------------- #
# abstract state / rx. line protocol (correspondence with lean/Driver/RecvPath.lean)
# --------------------------------------------------------------------------- #
def _b(x):
    return "1" if x else "0"


def _rs(rs):
    return ";".join(f"{x.start}-{x.stop}" for x in rs) or "-"


def abstract_state(conn, context):
    """the state the frame handlers' exception behaviour depends on, as one `rx.state`
    line; taken at the entry of `_payload_received` (context = QuicReceiveContext)"""
    from aioquic import tls
    streams = []
    for sid, st in sorted(conn._streams.items()):
        r = st.receiver
        fs = "none" if r._final_size is None else str(r._final_size)
        streams.append(f"{sid}:{st.max_stream_data_local}:{r.highest_offset}:{fs}")
    fin = ",".join(str(s) for s in sorted(conn._streams_finished)) or "-"
    ep = context.epoch if context.epoch != tls.Epoch.ZERO_RTT else tls.Epoch.ONE_RTT
    cr = conn._crypto_streams[ep].receiver
    chal = ",".join(sorted(k.hex() for k in conn._local_challenges)) or "-"
    cids = ",".join(f"{c.sequence_number}:{c.cid.hex() or '-'}" for c in conn._host_cids) or "-"
    avail = ",".join(str(c.sequence_number) for c in conn._peer_cid_available) or "-"
    seen = ",".join(str(x) for x in sorted(conn._peer_cid_sequence_numbers)) or "-"
    mdfs = conn._configuration.max_datagram_frame_size
    return ("rx.state client=%s maxdata=%d used=%d msd_uni=%d msd_bidi=%d ms_bidi=%d ms_bidi_used=%d ms_uni=%d "
            "ms_uni_used=%d streams=%s finished=%s crypto_start=%d crypto_hi=%d crypto_buflen=%d crypto_ranges=%s "
            "chal=%s rchal=%d hostseq=%d hostcids=%s ctxcid=%s rcl=%d peerseq=%s rpt=%d avail=%s seen=%s "
            "cidlimit=%d retire_pending=%d mdfs=%s closed=%s" % (
                _b(conn._is_client), conn._local_max_data.value, conn._local_max_data.used,
                conn._local_max_stream_data_uni, conn._local_max_stream_data_bidi_remote,
                conn._local_max_streams_bidi.value, conn._local_max_streams_bidi.used,
                conn._local_max_streams_uni.value, conn._local_max_streams_uni.used,
                ",".join(streams) or "-", fin, cr._buffer_start, cr.highest_offset, len(cr._buffer),
                _rs(list(cr._ranges)), chal, len(context.network_path.remote_challenges), conn._host_cid_seq, cids,
                context.host_cid.hex() or "-", conn._remote_active_connection_id_limit,
                "0" if conn._peer_cid.sequence_number is None else str(conn._peer_cid.sequence_number),
                conn._peer_retire_prior_to, avail, seen, conn._local_active_connection_id_limit,
                len(conn._retire_connection_ids), "none" if mdfs is None else str(mdfs),
                _b(conn._close_event is not None)))


def project(conn):
    return (f"used={conn._local_max_data.used} nstreams={len(conn._streams)} "
            f"msb={conn._local_max_streams_bidi.used} msu={conn._local_max_streams_uni.used}")


class PayloadTap:
    """observes `_payload_received` and `tls.handle_message` of one connection (harness-side
    wrappers: observation of the inputs / outputs of the modelled function, no behaviour change)"""

    def __init__(self, conn):
        self.conn = conn
        self.calls = []          # dicts: state line, epoch, payload, cr, tls, result line
        self._orig = conn._payload_received
        conn._payload_received = self._payload

    def _payload(self, context, plain, crypto_frame_required=False):
        from aioquic import tls
        from aioquic.quic.connection import QuicConnectionError
        conn = self.conn
        rec = {"state": abstract_state(conn, context), "epoch": context.epoch.name, "hex": bytes(plain).hex() or "-",
               "cr": _b(crypto_frame_required), "tls": "ok", "tls_calls": 0}
        orig_hm = conn.tls.handle_message

        def hm(data, bufs):
            rec["tls_calls"] += 1
            try:
                return orig_hm(data, bufs)
            except tls.Alert as e:
                rec["tls"] = "alert:%d" % int(e.description)
                raise
            except QuicConnectionError as e:
                rec["tls"] = "conn:%d" % int(e.error_code)
                raise
            except Exception as e:  # noqa
                rec["tls"] = "bufread" if type(e).__name__ == "BufferReadError" else "other:" + type(e).__name__
                raise

        conn.tls.handle_message = hm
        try:
            res = self._orig(context, plain, crypto_frame_required=crypto_frame_required)
            rec["result"] = f"ok processed ae={_b(res[0])} pr={_b(res[1])} | " + project(conn)
            return res
        except QuicConnectionError as e:
            rec["result"] = f"ok closed {int(e.error_code)} | " + project(conn)
            raise
        except Exception as e:  # noqa
            rec["result"] = f"err {type(e).__name__} | " + project(conn)
            raise
        finally:
            try:
                del conn.tls.handle_message
            except AttributeError:
                pass
            self.calls.append(rec)

    def remove(self):
        try:
            del self.conn._payload_received
        except AttributeError:
            pass


# --------------------------------------------------------------------------- #
# (c) hostile transport parameters inside an otherwise valid handshake
# --------------------------------------------------------------------------- #
INT_PARAMS = [0x01, 0x03, 0x04, 0x05, 0x06, 0x07, 0x08, 0x09, 0x0A, 0x0B, 0x0E, 0x20]
BYTES_PARAMS = [0x00, 0x02, 0x0F, 0x10, 0x0C37]


def split_params(b):
    out = []
    i = 0
    while i < len(b):
        pid, i = F.get_varint(b, i)
        ln, i = F.get_varint(b, i)
        out.append([pid, bytes(b[i:i + ln])])
        i += ln
    return out


def join_params(ps):
    return b"".join(V(pid) + V(len(v)) + v for pid, v in ps)


def tp_mutations(r):
    """list of (label, op) — op(list of [id, value]) -> bytes"""
    muts = []

    def setp(pid, val):
        def op(ps):
            ps = [p for p in ps if p[0] != pid] + [[pid, val]]
            return join_params(ps)
        return op

    def raw(fn):
        return fn

    for pid in INT_PARAMS:
        for v in (0, 1, 2, 20, 21, 63, 64, 1199, 1200, 16383, 16384, (1 << 60), (1 << 60) + 1, (1 << 62) - 1):
            muts.append((f"int-{pid:x}={v}", setp(pid, V(v))))
        muts.append((f"int-{pid:x}-empty", setp(pid, b"")))
        muts.append((f"int-{pid:x}-nonminimal", setp(pid, V(5, 8))))
        muts.append((f"int-{pid:x}-trailing", setp(pid, V(5) + b"\x00")))
        muts.append((f"int-{pid:x}-cut", setp(pid, b"\xc0\x00")))
    for pid in BYTES_PARAMS + [0x0C]:
        for ln in (0, 1, 8, 15, 16, 17, 20, 21, 255):
            muts.append((f"bytes-{pid:x}-len{ln}", setp(pid, bytes([7]) * ln)))
    # preferred_address: 4+2+16+2+1+cid+16
    for ln in (0, 1, 6, 24, 25, 40, 41, 42, 49, 61, 62, 300):
        muts.append((f"pa-len{ln}", setp(0x0D, bytes(r.getrandbits(8) for _ in range(ln)))))
    for cl in (0, 1, 8, 20, 21, 255):
        body = bytes([1, 2, 3, 4, 0, 80]) + bytes(range(16)) + bytes([1, 187]) + bytes([cl]) + bytes(cl) + bytes(16)
        muts.append((f"pa-cid{cl}", setp(0x0D, body)))
        muts.append((f"pa-cid{cl}-short", setp(0x0D, body[:-1])))
    muts.append(("pa-zero-addrs", setp(0x0D, bytes(6 + 18) + bytes([4]) + bytes(4) + bytes(16))))
    # version_information
    for ln in (0, 1, 3, 4, 5, 7, 8, 9, 12, 400):
        muts.append((f"vi-len{ln}", setp(0x11, (b"\x00\x00\x00\x01" * 100)[:ln])))
    muts.append(("vi-chosen0", setp(0x11, bytes(4) + b"\x00\x00\x00\x01")))
    muts.append(("vi-avail0", setp(0x11, b"\x00\x00\x00\x01" + bytes(4))))
    muts.append(("vi-chosen-not-avail", setp(0x11, b"\x00\x00\x00\x01" + b"\x6b\x33\x43\xcf")))
    muts.append(("vi-other-chosen", setp(0x11, b"\x6b\x33\x43\xcf" + b"\x6b\x33\x43\xcf\x00\x00\x00\x01")))
    muts.append(("vi-v2-first", setp(0x11, b"\x00\x00\x00\x01" + b"\x6b\x33\x43\xcf\x00\x00\x00\x01")))
    muts.append(("vi-unknown-first", setp(0x11, b"\x00\x00\x00\x01" + b"\x1a\x2a\x3a\x4a\x00\x00\x00\x01")))
    # every subset of omitted initial_max_* parameters (ids 4..9), each also with one of the kept ones
    # lowered to 0 / raised to the maximum
    import itertools
    fc = [0x04, 0x05, 0x06, 0x07, 0x08, 0x09]
    for k in range(1, len(fc) + 1):
        for sub in itertools.combinations(fc, k):
            def op_omit(ps, sub=sub):
                return join_params([q for q in ps if q[0] not in sub])
            muts.append(("omit-" + "".join("%x" % x for x in sub), op_omit))
    for pid in fc:
        for other in fc:
            if other != pid:
                for v, nm in ((0, "lo"), ((1 << 60), "hi")):
                    def op_mix(ps, pid=pid, other=other, v=v):
                        return join_params([q for q in ps if q[0] not in (pid, other)] + [[other, V(v)]])
                    muts.append((f"omit-{pid:x}-{nm}-{other:x}", op_mix))
    # version_information = chosen_version + available_versions, over a lattice of version lists
    v1, v2, vx = 1, 0x6B3343CF, 0x1A2A3A4A
    names = {v1: "v1", v2: "v2", vx: "vx"}
    avail_lists = [[v1], [v2], [v1, v2], [v2, v1], [vx, v1], [v1, vx], [v2, vx, v1], [v1, v1], [v2, v2, v1],
                   [vx], [vx, v2], [v2, v1, v2], []]
    for chosen in (v1, v2, vx):
        for av in avail_lists:
            body = b"".join(x.to_bytes(4, "big") for x in [chosen] + av)
            muts.append(("vinfo-%s-[%s]" % (names[chosen], ",".join(names[x] for x in av)), setp(0x11, body)))
    # structure
    muts.append(("empty", raw(lambda ps: b"")))
    muts.append(("dup-all", raw(lambda ps: join_params(ps + ps))))
    muts.append(("dup-first", raw(lambda ps: join_params(ps + ps[:1]))))
    muts.append(("reverse", raw(lambda ps: join_params(ps[::-1]))))
    for pid in (0x12, 0x1F, 0x21, 0x3F, 0x40, 16383, 1 << 30, (1 << 62) - 1):
        muts.append((f"unknown-{pid:x}", setp(pid, b"abc")))
        muts.append((f"unknown-{pid:x}-empty", setp(pid, b"")))
    muts.append(("len-huge", raw(lambda ps: join_params(ps) + V(0x21) + V((1 << 62) - 1) + b"x")))
    muts.append(("id-cut", raw(lambda ps: join_params(ps) + b"\xc0")))
    muts.append(("len-cut", raw(lambda ps: join_params(ps) + b"\x21\xc0\x00")))
    for k in range(12):
        muts.append((f"drop-{k}", raw(lambda ps, k=k: join_params(ps[:k] + ps[k + 1:]))))
    for k in (1, 2, 3, 5, 10, 30):
        muts.append((f"trunc-{k}", raw(lambda ps, k=k: join_params(ps)[:-k])))
    muts.append(("big", raw(lambda ps: join_params(ps + [[0x3F, bytes(1500)]]))))
    return muts


VERSION_CONFIGS = [[1], [0x6B3343CF], [1, 0x6B3343CF], [0x6B3343CF, 1]]


# connection phases every hostile handshake-content family is crossed with
TP_PHASES = ["fresh", "resumed", "resumed0rtt", "resumed0rtt-rejected", "retry", "vn"]


def run_tp_scenario(role, label, op, seed, *, qlog=False, traffic=True, client_options=None, server_options=None,
                    phase="fresh"):
    """victim `role` talks to a real peer which announces crafted transport parameters; the
    configurations of both endpoints (supported_versions, original_version, …) and the connection
    phase are part of the case:
      resumed               client offers a session ticket of an earlier connection
      resumed0rtt           … and sends early data, which the server accepts
      resumed0rtt-rejected  … which the server rejects (it does not know the ticket)
      retry                 the handshake runs after a Retry
      vn                    the handshake runs after a Version Negotiation restart"""
    from aioquic.quic.packet import encode_quic_retry, encode_quic_version_negotiation
    install_cert_cache()
    rec = Recorder()
    co = dict(client_options or {})
    so = dict(server_options or {})
    store = None
    if phase.startswith("resumed"):
        ticket, store = _resumption_material()
        co["session_ticket"] = ticket
    if phase == "vn" and "supported_versions" not in co:
        co["supported_versions"] = [0x6B3343CF, 1]
    sim = S.Sim(seed, quic_logger=qlog, monitors=[rec], client_options=co, server_options=so)
    sim.recorder = rec
    if store is not None and phase != "resumed0rtt-rejected":
        sim.server.conn._session_ticket_fetcher = store.get
    victim = sim.client if role == "client" else sim.server
    peer = victim.peer
    orig = peer.conn._serialize_transport_parameters
    crafted = {}

    def wrapped():
        b = orig()
        try:
            out = op(split_params(b))
        except F.ParseError:
            out = b
        crafted["hex"] = out.hex()
        return out

    peer.conn._serialize_transport_parameters = wrapped
    res = Result()
    seen = set()
    try:
        sim.connect()
        c = sim.client.conn
        if phase.startswith("resumed0rtt"):
            sim.api(sim.client, "send_stream_data", 0, b"early data " * 20, end_stream=False)
            sim.transmit(sim.client)
        elif phase == "retry":
            sim.pending.clear()
            scid = bytes([0x5C]) * 8
            pkt = encode_quic_retry(version=c._version, source_cid=scid, destination_cid=c.host_cid,
                                    original_destination_cid=c._peer_cid.cid, retry_token=bytes(16))
            # what a server that sent this Retry is constructed with
            sim.server.conn._retry_source_connection_id = scid
            sim.api(sim.client, "receive_datagram", pkt, S.SERVER_ADDR, now=sim.now)
            sim.transmit(sim.client)
        elif phase == "vn":
            sim.pending.clear()
            common = [v for v in c._configuration.supported_versions if v != c._version][:1] or [1]
            pkt = encode_quic_version_negotiation(source_cid=c._peer_cid.cid, destination_cid=c.host_cid,
                                                  supported_versions=common)
            sim.api(sim.client, "receive_datagram", pkt, S.SERVER_ADDR, now=sim.now)
            sim.transmit(sim.client)
        sim.fair_phase(max_steps=40, done=lambda: (victim.conn._handshake_complete and not sim.pending)
                       or victim.conn._close_event is not None)
        res.raises += _new_raises(sim, seen)
        res.handshake = victim.conn._handshake_complete
        res.early_data_accepted = bool(getattr(getattr(c, "tls", None), "early_data_accepted", False))
        if traffic and victim.conn._handshake_complete and victim.conn._close_event is None:
            sid = 0 if role == "client" else 1
            sim.api(victim, "send_stream_data", sid, b"v" * 2000, end_stream=True)
            sim.api(victim, "send_datagram_frame", b"dg") if victim.conn._configuration.max_datagram_frame_size else None
            sim.transmit(victim)
            if peer.conn._handshake_complete:
                sim.api(peer, "send_stream_data", 0 if role == "server" else 1, b"p" * 2000, end_stream=True)
                sim.transmit(peer)
            _quiesce(sim)
            res.raises += _new_raises(sim, seen)
        run_to_termination(sim, victim, res, seen, silent=False, max_iter=200)
        res.close_event = victim.conn._close_event
        res.final_state = victim.conn._state.name
        res.crafted = crafted.get("hex")
    finally:
        sim.close_taps()
    # raises caused by the API misuse of the harness itself (send_* on a closing connection) do not count
    res.raises = [x for x in res.raises if x["api"] in PUBLIC]
    return res


# --------------------------------------------------------------------------- #
# rx.hdr: pull_quic_header on raw bytes
# --------------------------------------------------------------------------- #
def hdr_line(data, cid_len):
    from aioquic.buffer import Buffer
    from aioquic.quic.packet import pull_quic_header
    try:
        h = pull_quic_header(Buffer(data=data), host_cid_length=cid_len)
    except Exception as e:  # noqa
        return "err " + type(e).__name__
    return (f"ok type={h.packet_type.name} version={'none' if h.version is None else h.version} "
            f"len={h.packet_length} dcid={h.destination_cid.hex() or '-'} scid={h.source_cid.hex() or '-'} "
            f"token={len(h.token)} nver={len(h.supported_versions)}")


# --------------------------------------------------------------------------- #
# rx.conn / rx.dgram: the control flow of receive_datagram (AQ.Recv.receiveDatagram)
# --------------------------------------------------------------------------- #
def conn_line(conn, prefix="rx.conn "):
    ce = conn._close_event
    return (prefix + f"client={_b(conn._is_client)} state={conn._state.name} pending={_b(conn._close_pending)} "
            f"closed={'none' if ce is None else int(ce.error_code)} closeat={_b(conn._close_at is not None)} "
            f"init={_b(bool(conn._cryptos))} npaths={len(conn._network_paths)} retry={conn._retry_count} "
            f"vn={_b(conn._version_negotiated_incompatible)} avail={len(conn._peer_cid_available)}")


class DatagramTap:
    """observes the inputs of the modelled control flow during ONE receive_datagram call of
    `conn`: per packet the header-parse outcome and the facts receive_datagram reads off the
    header, the decrypt outcome, duplicate / reserved-bit flags and the payload outcome"""

    def __init__(self, conn):
        import aioquic.quic.connection as C
        from aioquic.quic import crypto as qcrypto
        self.C = C
        self.qcrypto = qcrypto
        self.conn = conn
        self.active = False
        self.cases = []           # (ops, expected lines)
        self._pull = C.pull_quic_header
        self._dec = qcrypto.CryptoPair.decrypt_packet
        self._payload = conn._payload_received
        self._connect = conn._connect
        tap = self

        def pull(buf, host_cid_length=None):
            if not tap.active:
                return tap._pull(buf, host_cid_length=host_cid_length)
            start = buf.tell()
            try:
                h = tap._pull(buf, host_cid_length=host_cid_length)
            except Exception as e:  # noqa
                tap.pkts.append({"h": type(e).__name__})
                raise
            tap.pkts.append(tap.header_facts(h, buf, start))
            tap.last = h
            return h

        def dec(pair, packet, encrypted_offset, expected_packet_number):
            if not tap.active or not tap.pkts:
                return tap._dec(pair, packet, encrypted_offset, expected_packet_number)
            rec = tap.pkts[-1]
            try:
                out = tap._dec(pair, packet, encrypted_offset, expected_packet_number)
            except qcrypto.KeyUnavailableError:
                rec["d"] = "key"
                raise
            except qcrypto.CryptoError:
                rec["d"] = "crypto"
                raise
            except Exception as e:  # noqa
                rec["d"] = "other:" + type(e).__name__
                raise
            from aioquic import tls
            ep = C.get_epoch(tap.last.packet_type)
            space = conn._spaces[tls.Epoch.ONE_RTT if ep == tls.Epoch.ZERO_RTT else ep]
            pn = out[2]
            mask = 0x18 if tap.last.packet_type == C.QuicPacketType.ONE_RTT else 0x0C
            rec["nc"] = _b(tap.last.destination_cid != conn.host_cid)
            rec.update(d="ok", dup=_b(pn < space.ack_queue_start or pn in space.ack_queue),
                       res=_b(out[0][0] & mask), disc=_b(space.discarded), p="ok")
            return out

        def payload(context, plain, crypto_frame_required=False):
            rec = tap.pkts[-1] if tap.active and tap.pkts else {}
            tap.payload_calls += 1
            before = conn._close_event
            try:
                return tap._payload(context, plain, crypto_frame_required=crypto_frame_required)
            except C.QuicConnectionError as e:
                rec["p"] = "conn:%d" % int(e.error_code)
                raise
            except Exception as e:  # noqa
                rec["p"] = "other:" + type(e).__name__
                raise
            finally:
                rec["av"] = str(len(conn._peer_cid_available))
                if before is None and conn._close_event is not None and conn._state.name == "DRAINING":
                    rec["closes"] = str(int(conn._close_event.error_code))

        def connect(now):
            tap.connect_calls += 1
            return tap._connect(now=now)

        C.pull_quic_header = pull
        qcrypto.CryptoPair.decrypt_packet = dec
        conn._payload_received = payload
        conn._connect = connect

    def header_facts(self, h, buf, start):
        from aioquic.quic.packet import get_retry_integrity_tag
        conn = self.conn
        C = self.C
        rec = {"h": "ok", "t": h.packet_type.name,
               "vs": _b(h.version is None or h.version in conn._configuration.supported_versions),
               "known": _b(any(h.destination_cid == c.cid for c in conn._host_cids))}
        if h.packet_type == C.QuicPacketType.RETRY:
            try:
                tag = get_retry_integrity_tag(buf.data_slice(start, buf.tell() - 16), conn._peer_cid.cid,
                                              version=h.version)
                rec["rv"] = _b(h.destination_cid == conn.host_cid and h.integrity_tag == tag)
            except Exception:  # noqa
                rec["rv"] = "0"
        if h.packet_type == C.QuicPacketType.VERSION_NEGOTIATION:
            rec["vc"] = _b(conn._version in h.supported_versions)
            rec["vm"] = _b(any(x in h.supported_versions for x in conn._configuration.supported_versions))
            rec["ve"] = _b(h.source_cid == conn._peer_cid.cid)
        return rec

    def begin(self, length):
        self.pkts = []
        self.last = None
        self.payload_calls = 0
        self.connect_calls = 0
        self.small = length < 1200
        self.pre = conn_line(self.conn)
        self.before_close = self.conn._close_event
        self.active = True

    def end(self, victim):
        self.active = False
        conn = self.conn
        mine = [e for api, e in victim.raised[-1:] if api == "receive_datagram"] if getattr(self, "_n_raised", 0) < len(victim.raised) else []
        self._n_raised = len(victim.raised)
        toks = [",".join(f"{k}={v}" for k, v in p.items()) for p in self.pkts]
        op = "rx.dgram small=%s %s" % (_b(self.small), " ".join(toks))
        ce = conn._close_event
        if mine:
            cls = "err " + type(mine[0]).__name__
        elif self.before_close is None and ce is not None:
            cls = "ok closed %d" % int(ce.error_code)
        elif self.payload_calls or self.connect_calls:
            cls = "ok processed"
        else:
            cls = "ok ignored"
        post = conn_line(conn, prefix="").split()
        kv = dict(t.split("=") for t in post)
        line = (f"{cls} | state={kv['state']} pending={kv['pending']} closed={kv['closed']} closeat={kv['closeat']} "
                f"init={kv['init']} paths={_b(int(kv['npaths']) > 0)} avail={kv['avail']}")
        if any(v.startswith("other") for p in self.pkts for v in p.values()):
            return
        self.cases.append(([self.pre, op.rstrip()], ["ok", line]))

    def remove(self):
        self.C.pull_quic_header = self._pull
        self.qcrypto.CryptoPair.decrypt_packet = self._dec
        for name in ("_payload_received", "_connect"):
            try:
                delattr(self.conn, name)
            except AttributeError:
                pass
