"""asyncio adapter (C19): tracing wrappers, the `adp.` line protocol on the real
`QuicConnectionProtocol` / `QuicServer`, and the full-stack virtual-time world.

Two ways of producing an atomic-step trace (op line + canonical output line):

* `AdapterImpl` (stub mode): the op lines are given; they are executed on real
  `QuicConnectionProtocol` / `QuicServer` objects whose `QuicConnection` is a
  scripted stub (the QUIC events / timer value of each callback are *inputs* of
  the model, so the stub supplies exactly what the line says) and whose loop is
  a proxy that lets the line decide when a `call_soon` / timer callback fires.
* `World` (real mode): real `QuicConnection`s, a real `QuicServer`, a
  virtual-time loop and an adversarial in-memory network; every callback that
  runs is recorded as the same kind of op line, with the QUIC events it saw.

asyncio callbacks run to completion, so a schedule is a sequence of such steps.
Observation is by subclassing / instance attribute taps only.
"""
import asyncio
import struct
import types
import zlib

from . import vloop


# --------------------------------------------------------------- formatting
def fbits(x):
    return "none" if x is None else str(struct.unpack("<Q", struct.pack("<d", float(x)))[0])


def ofbits(s):
    return None if s == "none" else struct.unpack("<d", struct.pack("<Q", int(s)))[0]


def _b(x):
    return "1" if x else "0"


def _hx(b):
    return bytes(b).hex() if b else "-"


def _unhx(s):
    return b"" if s == "-" else bytes.fromhex(s)


def _sum(b):
    return zlib.adler32(bytes(b)) & 0xFFFFFFFF


def fmt_events(evs):
    return ",".join(evs) if evs else "-"


class Tracer:
    """records atomic steps (a callback run to completion, or the synchronous
    part of an API coroutine up to its first suspension) with the state right
    after each"""

    def __init__(self):
        self.steps = []          # finished: dicts with "line" and "out"
        self.cur = None
        self.depth = 0
        self.conns = []          # index -> protocol
        self.server = None
        self.waiters = {}        # wid -> dict(kind, conn, fut, outcome, task_outcome)
        self.next_wid = 0
        self.uid_label = {}      # (conn, actual uid) -> label
        self.label_uid = {}      # (conn, label) -> actual uid
        self.next_label = {}     # conn -> next fresh label
        self.tokens = {}         # token bytes -> "s<k>"
        self.issued = []         # (addr, odcid, rscid) per issued token
        self.foreign = {}        # token bytes -> "f<n>"
        self.addrs = {}          # (ip, port) -> small int
        self.on_step = None      # callback(step) after finalisation (oracles)
        self.in_transmit = 0     # events pulled while transmit() runs are recorded apart (txevs)

    # ---- registry
    def register(self, proto, server_side=False):
        proto.cix = len(self.conns)
        self.conns.append(proto)
        self.next_label[proto.cix] = 1
        if not server_side:
            self.steps.append({"op": "conn", "conn": proto.cix, "line": "adp.conn", "out": "ok %d" % proto.cix,
                               "evs": [], "txevs": [], "exc": None, "kw": {}, "result": "", "done": []})
        return proto.cix

    def addr_id(self, addr):
        k = (addr[0], addr[1])
        if k not in self.addrs:
            self.addrs[k] = len(self.addrs)
        return self.addrs[k]

    def token_label(self, tok):
        if not tok:
            return "-"
        tok = bytes(tok)
        if tok in self.tokens:
            return self.tokens[tok]
        if tok not in self.foreign:
            self.foreign[tok] = "f%d" % len(self.foreign)
        return self.foreign[tok]

    def label_for(self, cix, uid):
        k = (cix, uid)
        if k not in self.uid_label:
            lab = self.next_label[cix]
            self.next_label[cix] += 1
            self.uid_label[k] = lab
            self.label_uid[(cix, lab)] = uid
        return self.uid_label[k]

    def bind_label(self, cix, lab, uid):
        # stub mode: the line chose the label; forget older bindings of either side
        for k in [k for k, v in self.uid_label.items() if k[0] == cix and (v == lab or k[1] == uid)]:
            del self.uid_label[k]
        self.uid_label[(cix, uid)] = lab
        self.label_uid[(cix, lab)] = uid

    # ---- steps
    def begin(self, proto, op, **kw):
        if self.depth > 0:
            self.depth += 1
            st = self.cur
            if proto is not None and st["conn"] is None:
                st["conn"] = proto.cix
            st.setdefault("nested", []).append(op)
            return st
        self.flush()
        st = {"op": op, "conn": None if proto is None else proto.cix, "evs": [], "txevs": [], "tat": "none", "tat_seen": False,
              "exc": None, "done": [], "kw": kw, "closed": False, "result": "",
              "pre_ping": None if proto is None else set(proto._ping_waiters)}
        self.cur = st
        self.depth = 1
        return st

    def end(self, st, exc=None):
        self.depth -= 1
        if exc is not None and st["exc"] is None:
            st["exc"] = type(exc).__name__
        if self.depth == 0:
            st["closed"] = True
            self.flush()

    def event(self, proto, ev):
        st = self.cur
        if st is None or st["closed"]:
            st = self.begin(proto, "stray")     # an event pulled outside any callback: never expected
            st["evs"].append(self.event_token(proto, ev))
            self.end(st)
            return
        st["txevs" if self.in_transmit else "evs"].append(self.event_token(proto, ev))

    def saw_timer(self, proto, t):
        st = self.cur
        if st is not None and not st["closed"]:
            st["tat"] = fbits(t)
            st["tat_seen"] = True

    def event_token(self, proto, ev):
        n = type(ev).__name__
        if n == "HandshakeCompleted":
            return "H"
        if n == "ConnectionTerminated":
            return "T"
        if n == "PingAcknowledged":
            return "P%d" % self.label_for(proto.cix, ev.uid)
        if n == "ConnectionIdIssued":
            return "I" + _hx(ev.connection_id)
        if n == "ConnectionIdRetired":
            return "R" + _hx(ev.connection_id)
        if n == "StreamDataReceived":
            return "D%d:%s:%s" % (ev.stream_id, _hx(ev.data), _b(ev.end_stream))
        return "O"

    # ---- waiters
    def new_waiter(self, kind, proto, wid=None):
        if wid is None:
            wid = self.next_wid
        self.next_wid = max(self.next_wid, wid + 1)
        self.waiters[wid] = {"kind": kind, "conn": proto.cix, "fut": None, "outcome": None, "task": None,
                             "reported": False, "closed_ev": False}
        return wid

    def _poll_done(self, st):
        """waiters whose future completed during the step being finalised"""
        done = []
        for wid, w in self.waiters.items():
            if w["reported"]:
                continue
            res = None
            if w["fut"] is not None and w["fut"].done():
                f = w["fut"]
                if f.cancelled():
                    res = "cancelled"
                elif f.exception() is not None:
                    res = _resname(f.exception())
                else:
                    res = "ok"
            elif w["closed_ev"] and self.conns[w["conn"]]._closed.is_set():
                res = "ok"
            elif w["fut"] is None and not w["closed_ev"] and w["outcome"] is not None:
                res = w["outcome"]       # finished without ever suspending
            if res is not None:
                w["reported"] = True
                w["fut_outcome"] = res
                done.append((wid, res))
        return sorted(done)

    def flush(self):
        st = self.cur
        if st is None:
            return
        self.cur = None
        self.depth = 0
        p = None if st["conn"] is None else self.conns[st["conn"]]
        # bind the future a coroutine op created during its synchronous part
        kw = st["kw"]
        if st["op"] in ("waitconn", "ping", "waitclosed"):
            w = self.waiters[kw["wid"]]
            if w["outcome"] is None:
                if st["op"] == "waitconn":
                    w["fut"] = p._connected_waiter
                    if w["fut"] is None:
                        st["exc"] = "HarnessLostWaiter"
                elif st["op"] == "waitclosed":
                    w["closed_ev"] = True
            if st["op"] == "ping":
                cap = kw.get("captured") or []
                if cap:
                    fut = cap[0]
                    uid = id(fut)                   # ping(): uid = id(waiter)
                    w["fut"] = fut
                    own = None
                    if fut.done() and not fut.cancelled():
                        own = "ok" if fut.exception() is None else _resname(fut.exception())
                    if w["outcome"] is not None and w["outcome"] != own:
                        # ping() raised after creating its waiter (transmit() failed): a failed step; the
                        # waiter future has its own fate
                        st["exc"] = w["outcome"]
                    w["uid"] = uid
                    if kw.get("label") is not None:
                        self.bind_label(p.cix, kw["label"], uid)
                        kw["label_out"] = kw["label"]
                    else:
                        kw["label_out"] = self.label_for(p.cix, uid)
                else:
                    kw["label_out"] = kw.get("label") or 0
        st["done"] = self._poll_done(st)
        st["line"] = self.op_line(st)
        st["out"] = self.out_line(st, p)
        self.steps.append(st)
        if self.on_step:
            self.on_step(st)

    # ---- lines
    def op_line(self, st):
        op, kw, c = st["op"], st["kw"], st["conn"]
        ev = fmt_events(st["evs"]) + " " + fmt_events(st["txevs"])
        tx = fmt_events(st["txevs"])
        if op == "dgram":
            return f"adp.dgram {c} {st['tat']} {ev}"
        if op == "timer":
            return f"adp.timer {c} {st['tat']} {ev}"
        if op == "transmit":
            return f"adp.transmit {c} {st['tat']} {tx}"
        if op == "soon":
            return f"adp.soon {c}"
        if op == "waitconn":
            return f"adp.waitconn {c} {kw['wid']}"
        if op == "waitclosed":
            return f"adp.waitclosed {c} {kw['wid']}"
        if op == "ping":
            return f"adp.ping {c} {kw['wid']} {kw['label_out']} {st['tat']} {tx}"
        if op == "close":
            return f"adp.close {c} {st['tat']} {tx}"
        if op == "cancel":
            return f"adp.cancel {c} {kw['wid']}"
        if op == "mkstream":
            return f"adp.mkstream {c} {kw['sid']}"
        if op == "write":
            return f"adp.write {c} {kw['sid']} {_hx(kw['data'])}"
        if op == "eof":
            return f"adp.eof {c} {kw['sid']}"
        if op == "sdgram":
            return (f"adp.sdgram {kw['addr']} {kw['hdr']} {kw.get('dcid', '-')} {kw.get('ptype', '-')} "
                    f"{kw.get('big', '-')} {kw.get('token', '-')} {kw.get('rand', '-')} {st['tat']} {ev}")
        if op == "sclose":
            return "adp.sclose"
        return f"adp.{op} {c}"

    def out_line(self, st, p):
        head = "ok" if st["exc"] is None else "err " + st["exc"]
        if st["result"]:
            head += " " + st["result"]
        done = ",".join(f"{w}:{r}" for w, r in st["done"])
        state = self.project(p) if p is not None else "-"
        return f"{head} done=[{done}] | {state}"

    def project(self, p):
        c = p.cix
        cw = sum(1 for w in self.waiters.values()
                 if w["conn"] == c and w["kind"] == "conn" and not w["reported"])
        wc = sum(1 for w in self.waiters.values()
                 if w["conn"] == c and w["kind"] == "closed" and not w["reported"])
        pw = []
        for uid, fut in p._ping_waiters.items():
            wid = next((k for k, w in self.waiters.items() if w.get("fut") is fut), "?")
            pw.append((self.label_for(c, uid), wid))
        rd = []
        for sid, r in sorted(p._stream_readers.items()):
            fed = getattr(r, "_c19_fed", b"")
            rd.append(f"{sid}:{len(fed)}:{_sum(fed)}:{_b(r._eof)}")
        wr = []
        for sid, (data, fin) in sorted(p._c19_sent.items()):
            wr.append(f"{sid}:{len(data)}:{_sum(data)}:{fin}")
        if self.server is not None and getattr(p, "_c19_server_side", False):
            keys = ",".join(sorted(_hx(k) for k, v in self.server._protocols.items() if v is p))
            keys = f"[{keys}]"
        else:
            keys = "-"
        return (f"c={_b(p._connected)} cf={_b(p._connected_waiter is not None)} cw={cw} "
                f"pw=[{','.join(f'{a}:{b}' for a, b in sorted(pw))}] cl={_b(p._closed.is_set())} wc={wc} "
                f"tm={_b(p._timer is not None)} ta={fbits(p._timer_at)} tk={_b(p._transmit_task is not None)} "
                f"ps={p._c19_soon} rd=[{','.join(rd)}] wr=[{','.join(wr)}] keys={keys}")


def _resname(e):
    if isinstance(e, type):
        e = e()
    if isinstance(e, ConnectionError):
        return "cerr"
    return type(e).__name__


@types.coroutine
def _drive(tr, st, wid, coro, before_end=lambda: None):
    """run `coro` inside the current task; the step `st` ends exactly when the
    coroutine first suspends (or finishes without suspending)"""
    w = tr.waiters[wid]
    try:
        y = coro.send(None)
    except StopIteration as e:
        w["outcome"] = "ok"
        before_end()
        tr.end(st)
        return e.value
    except BaseException as e:
        w["outcome"] = _resname(e)
        before_end()
        tr.end(st)
        raise
    before_end()
    tr.end(st)
    while True:
        try:
            v = yield y
        except BaseException as e:
            try:
                y = coro.throw(e)
            except StopIteration as s:
                w["outcome"] = "ok"
                return s.value
            except BaseException as e2:
                w["outcome"] = _resname(e2)
                raise
        else:
            try:
                y = coro.send(v)
            except StopIteration as s:
                w["outcome"] = "ok"
                return s.value
            except BaseException as e2:
                w["outcome"] = _resname(e2)
                raise


# ------------------------------------------------- traced protocol / server
def make_traced_classes():
    """import aioquic lazily (after tree.activate())"""
    from aioquic.asyncio.protocol import QuicConnectionProtocol
    from aioquic.asyncio.server import QuicServer
    from aioquic.quic.packet import QuicPacketType, pull_quic_header
    from aioquic.buffer import Buffer

    class TracedProtocol(QuicConnectionProtocol):
        def __init__(self, quic, stream_handler=None, *, tracer, server_side=False, user_handler=None):
            super().__init__(quic, stream_handler=stream_handler)
            self._tr = tracer
            self._c19_server_side = server_side
            self._c19_soon = 0           # call_soon(transmit) handles outstanding
            self._c19_sent = {}          # sid -> (bytearray passed to send_stream_data, fin count)
            self._c19_problems = []
            tracer.register(self, server_side)
            orig_next, orig_timer, orig_send = quic.next_event, quic.get_timer, quic.send_stream_data

            def next_event():
                ev = orig_next()
                if ev is not None:
                    tracer.event(self, ev)
                return ev

            def get_timer():
                t = orig_timer()
                tracer.saw_timer(self, t)
                return t

            def send_stream_data(stream_id, data, end_stream=False):
                rec = self._c19_sent.setdefault(stream_id, [bytearray(), 0])
                try:
                    return orig_send(stream_id, data, end_stream)
                finally:
                    rec[0] += data
                    rec[1] += 1 if end_stream else 0

            quic.next_event, quic.get_timer, quic.send_stream_data = next_event, get_timer, send_stream_data

        # -- callbacks
        def datagram_received(self, data, addr):
            st = self._tr.begin(self, "dgram")
            try:
                super().datagram_received(data, addr)
            except BaseException as e:
                self._tr.end(st, e)
                raise
            self._tr.end(st)

        def _handle_timer(self):
            st = self._tr.begin(self, "timer")
            try:
                super()._handle_timer()
            except BaseException as e:
                self._tr.end(st, e)
                raise
            self._tr.end(st)

        def transmit(self):
            top = self._tr.depth == 0
            if top:
                st = self._tr.begin(self, "transmit")
                if self._c19_soon > 0:
                    self._c19_soon -= 1
            self._tr.in_transmit += 1
            try:
                super().transmit()
            except BaseException as e:
                self._tr.in_transmit -= 1
                if top:
                    self._tr.end(st, e)
                raise
            self._tr.in_transmit -= 1
            if top:
                self._tr.end(st)

        def _transmit_soon(self):
            had = self._transmit_task
            super()._transmit_soon()
            if had is None and self._transmit_task is not None:
                self._c19_soon += 1

        def close(self, *a, **kw):
            st = self._tr.begin(self, "close")
            try:
                super().close(*a, **kw)
            except BaseException as e:
                self._tr.end(st, e)
                raise
            self._tr.end(st)

        # -- coroutine API: the synchronous part (up to the first suspension) is the atomic step
        async def wait_connected(self, _wid=None):
            wid = self._tr.new_waiter("conn", self, _wid)
            self._tr.waiters[wid]["task_ref"] = asyncio.current_task()
            st = self._tr.begin(self, "waitconn", wid=wid)
            await _drive(self._tr, st, wid, super().wait_connected())

        async def wait_closed(self, _wid=None):
            wid = self._tr.new_waiter("closed", self, _wid)
            self._tr.waiters[wid]["task_ref"] = asyncio.current_task()
            st = self._tr.begin(self, "waitclosed", wid=wid)
            await _drive(self._tr, st, wid, super().wait_closed())

        async def ping(self, _wid=None, _label=None):
            wid = self._tr.new_waiter("ping", self, _wid)
            self._tr.waiters[wid]["task_ref"] = asyncio.current_task()
            captured = []
            st = self._tr.begin(self, "ping", wid=wid, label=_label, captured=captured)
            loop = self._loop
            orig = loop.create_future

            def create_future():
                f = orig()
                captured.append(f)
                return f

            def restore():
                try:
                    del loop.create_future
                except AttributeError:
                    pass

            loop.create_future = create_future      # observe the waiter ping() creates
            await _drive(self._tr, st, wid, super().ping(), restore)

        # -- streams
        def _create_stream(self, stream_id):
            reader, writer = super()._create_stream(stream_id)
            reader._c19_fed = bytearray()
            reader._c19_eofs = 0
            reader._c19_after_eof = 0
            feed_data, feed_eof = reader.feed_data, reader.feed_eof

            def fd(data):
                if reader._c19_eofs:
                    reader._c19_after_eof += 1
                feed_data(data)
                reader._c19_fed += data

            reader._c19_clean = False

            def fe():
                if reader._c19_eofs == 0:
                    reader._c19_clean = not self._closed.is_set()   # EOF from end_stream, not from termination
                reader._c19_eofs += 1
                feed_eof()

            reader.feed_data, reader.feed_eof = fd, fe
            tr = self._tr
            proto = self
            adapter = writer.transport
            w0, e0 = adapter.write, adapter.write_eof

            def write(data):
                st = tr.begin(proto, "write", sid=stream_id, data=bytes(data))
                try:
                    w0(data)
                except BaseException as e:
                    tr.end(st, e)
                    raise
                tr.end(st)

            def write_eof():
                st = tr.begin(proto, "eof", sid=stream_id)
                try:
                    e0()
                except BaseException as e:
                    tr.end(st, e)
                    raise
                tr.end(st)

            adapter.write, adapter.write_eof = write, write_eof
            return reader, writer

        async def create_stream(self, is_unidirectional=False):
            sid = self._quic.get_next_available_stream_id(is_unidirectional=is_unidirectional)
            st = self._tr.begin(self, "mkstream", sid=sid)
            try:
                res = await super().create_stream(is_unidirectional)
            except BaseException as e:
                self._tr.end(st, e)
                raise
            self._tr.end(st)
            return res

    class TracedServer(QuicServer):
        def __init__(self, *, tracer, **kw):
            self._tr = tracer
            tracer.server = self
            self.created = []      # (conn index, addr id, token label, odcid, rscid)
            self.created_dcid = {}  # conn index -> DCID (hex) of the datagram that created it
            user_cp = kw.pop("post_create", None)
            quic_factory = kw.pop("quic_factory", None)

            def create_protocol(connection, stream_handler=None):
                quic = connection if quic_factory is None else quic_factory(connection)
                p = TracedProtocol(quic, stream_handler=stream_handler, tracer=tracer, server_side=True)
                script = getattr(self, "_c19_script", None)
                if script is not None and quic_factory is not None:
                    quic.timer = script[0]
                    quic.events = script[2]._mk_events(p, script[1])
                    quic.tx = script[2]._mk_events(p, script[3])
                st = tracer.cur
                if st is not None and st["op"] == "sdgram":
                    st["kw"]["rand"] = _hx(connection.host_cid)
                    st["result"] = (f"new {p.cix} odcid={_hx(connection._original_destination_connection_id)} "
                                    f"rscid={_hx(connection._retry_source_connection_id) if connection._retry_source_connection_id is not None else 'none'}")
                    self.created_dcid[p.cix] = st["kw"].get("dcid", "-")
                    self.created.append((p.cix, st["kw"]["addr"], st["kw"].get("token", "-"),
                                         connection._original_destination_connection_id,
                                         connection._retry_source_connection_id))
                if user_cp is not None:
                    user_cp(p)
                return p

            super().__init__(create_protocol=create_protocol, **kw)
            self._tap_retry()

        def _tap_retry(self):
            tracer = self._tr
            if self._retry is not None:
                orig_create = type(self._retry).create_token.__get__(self._retry)

                def create_token(addr, odcid, rscid):
                    tok = orig_create(addr, odcid, rscid)
                    lab = "s%d" % len(tracer.issued)
                    tracer.tokens[bytes(tok)] = lab
                    tracer.issued.append((tracer.addr_id(addr), bytes(odcid), bytes(rscid)))
                    st = tracer.cur
                    if st is not None and st["op"] == "sdgram":
                        st["kw"]["rand"] = _hx(rscid)
                        st["result"] = "retry " + lab
                    return tok

                self._retry.create_token = create_token

        def datagram_received(self, data, addr):
            tr = self._tr
            kw = {"addr": tr.addr_id(addr)}
            try:
                h = pull_quic_header(Buffer(data=bytes(data)),
                                     host_cid_length=self._configuration.connection_id_length)
            except ValueError:
                kw["hdr"] = "bad"
            else:
                if h.version is not None and h.version not in self._configuration.supported_versions:
                    kw["hdr"] = "vn"
                else:
                    kw["hdr"] = "h"
                    kw["dcid"] = _hx(h.destination_cid)
                    kw["ptype"] = "I" if h.packet_type == QuicPacketType.INITIAL else "O"
                    kw["big"] = _b(len(data) >= 1200)
                    kw["token"] = tr.token_label(h.token)
            st = tr.begin(None, "sdgram", **kw)

            def result():
                if not st["result"]:
                    if st["conn"] is not None:
                        st["result"] = "route %d" % st["conn"]
                    elif kw["hdr"] == "vn":
                        st["result"] = "vn"
                    else:
                        st["result"] = "drop"

            try:
                super().datagram_received(data, addr)
            except BaseException as e:
                result()
                tr.end(st, e)
                raise
            result()
            tr.end(st)

        def close(self):
            st = self._tr.begin(None, "sclose")
            try:
                super().close()
            finally:
                self._tr.end(st)

    return TracedProtocol, TracedServer


# ------------------------------------------------------------------ stub mode
def varint(n):
    if n < 64:
        return bytes([n])
    if n < 16384:
        return struct.pack(">H", n | 0x4000)
    return struct.pack(">I", n | 0x80000000)


def build_long_initial(dcid, scid, token, size, version=1):
    """an Initial packet header (RFC 9000 §17.2.2) followed by filler; enough for a
    server's demultiplexer, which only parses the header"""
    hdr = bytes([0xC3]) + struct.pack(">I", version) + bytes([len(dcid)]) + dcid + bytes([len(scid)]) + scid
    hdr += varint(len(token)) + token
    pay = max(size - len(hdr) - 4, 24)
    return hdr + struct.pack(">I", pay | 0x80000000) + bytes(pay)


def build_short(dcid, size):
    return bytes([0x43]) + dcid + bytes(max(size - 1 - len(dcid), 24))


class StubQuic:
    """scripted QuicConnection: the events / timer of each callback are inputs"""

    def __init__(self, real=None):
        self.events = []
        self.tx = []          # events raised while building packets (datagrams_to_send)
        self.timer = None
        self.next_sid = 0
        self.host_cid = getattr(real, "host_cid", b"")
        self._original_destination_connection_id = getattr(real, "_original_destination_connection_id", None)
        self._retry_source_connection_id = getattr(real, "_retry_source_connection_id", None)

    def receive_datagram(self, data, addr, now):
        pass

    def handle_timer(self, now):
        pass

    def next_event(self):
        return self.events.pop(0) if self.events else None

    def datagrams_to_send(self, now):
        self.events += self.tx
        self.tx = []
        return []

    def get_timer(self):
        return self.timer

    def send_ping(self, uid):
        pass

    def close(self, error_code=0, reason_phrase=""):
        pass

    def send_stream_data(self, stream_id, data, end_stream=False):
        pass

    def get_next_available_stream_id(self, is_unidirectional=False):
        return self.next_sid


class _Handle:
    def __init__(self, cb, args, when=None):
        self.cb, self.args, self._when, self.cancelled_ = cb, args, when, False

    def cancel(self):
        self.cancelled_ = True

    def cancelled(self):
        return self.cancelled_

    def when(self):
        return self._when


class LoopProxy:
    """stands for the event loop of one protocol: the op lines decide when a
    `call_soon` / `call_at` callback runs"""

    def __init__(self, loop):
        self.loop = loop
        self.soon = []
        self.timers = []
        self.now = 1000.0

    def time(self):
        return self.now

    def is_closed(self):
        return False

    def create_future(self):
        return self.loop.create_future()

    def call_soon(self, cb, *args, context=None):
        h = _Handle(cb, args)
        self.soon.append(h)
        return h

    def call_at(self, when, cb, *args, context=None):
        h = _Handle(cb, args, when)
        self.timers.append(h)
        return h


_SHARED = {}


def shared_retry_handler():
    if "h" not in _SHARED:
        from aioquic.quic.retry import QuicRetryTokenHandler
        _SHARED["h"] = QuicRetryTokenHandler()
        _SHARED["other"] = QuicRetryTokenHandler()
    return _SHARED["h"]


def server_configuration(**kw):
    import os
    from aioquic.quic.configuration import QuicConfiguration
    tests = os.path.join(os.environ.get("VERIF_REPO", "/repo"), "tests")
    conf = QuicConfiguration(is_client=False, **kw)
    if "cert" not in _SHARED:
        conf.load_cert_chain(os.path.join(tests, "ssl_cert.pem"), os.path.join(tests, "ssl_key.pem"))
        _SHARED["cert"] = (conf.certificate, conf.certificate_chain, conf.private_key)
    conf.certificate, conf.certificate_chain, conf.private_key = _SHARED["cert"]
    return conf


def traced_classes():
    if "classes" not in _SHARED:
        _SHARED["classes"] = make_traced_classes()
    return _SHARED["classes"]


def client_configuration(**kw):
    import os
    from aioquic.quic.configuration import QuicConfiguration
    tests = os.path.join(os.environ.get("VERIF_REPO", "/repo"), "tests")
    conf = QuicConfiguration(is_client=True, **kw)
    conf.load_verify_locations(cafile=os.path.join(tests, "pycacert.pem"))
    conf.server_name = "localhost"
    return conf


class _SinkTransport(asyncio.DatagramTransport):
    def __init__(self):
        super().__init__()
        self.sent = 0

    def sendto(self, data, addr=None):
        self.sent += 1

    def close(self):
        pass


class AdapterImpl:
    """runs `adp.` op lines on real adapter objects over scripted QUIC connections"""

    # address ids of the line protocol.  0-3 differ in host and port; 4-9 are the neighbours of address 0
    # that an address check must tell apart from it: same host with the port changed by +-256, with only
    # the high byte changed, with only the low byte changed; another host with the same port; the same
    # IPv4 host written as an IPv4-mapped IPv6 address.
    ADDRS = [("10.0.0.1", 4000), ("10.0.0.2", 4001), ("10.0.0.3", 4002), ("10.0.0.4", 4003),
             ("10.0.0.1", 4000 + 256), ("10.0.0.1", 4000 ^ 0x8000), ("10.0.0.1", 4001), ("10.0.0.2", 4000),
             ("::ffff:10.0.0.1", 4000), ("10.0.0.1", 4000 - 256)]

    def __init__(self):
        import random
        self.loop = vloop.VLoop(random.Random(0), quantum=0)
        self.TP, self.TS = traced_classes()
        self.tr = Tracer()
        self.server = None
        self.writers = {}
        self.keep = []
        self.tasks = []
        self.by_wid = {}

    def close(self):
        for t in self.tasks:
            t.cancel()
        try:
            self.loop.run_until_complete(asyncio.sleep(0))
            self.loop.run_until_complete(asyncio.sleep(0))
        except Exception:
            pass
        self.loop.close()

    def step(self, line):
        return self.loop.run_until_complete(self._step(line))

    # -- helpers
    def _mk_events(self, proto, s):
        from aioquic.quic import events as E
        res = []
        if s == "-":
            return res
        for tok in s.split(","):
            k = tok[0]
            if k == "H":
                res.append(E.HandshakeCompleted(alpn_protocol=None, early_data_accepted=False, session_resumed=False))
            elif k == "T":
                res.append(E.ConnectionTerminated(error_code=0, frame_type=None, reason_phrase=""))
            elif k == "P":
                lab = int(tok[1:])
                uid = self.tr.label_uid.get((proto.cix, lab))
                if uid is None:
                    uid = -lab          # an id no live waiter has
                    self.tr.bind_label(proto.cix, lab, uid)
                res.append(E.PingAcknowledged(uid=uid))
            elif k == "I":
                res.append(E.ConnectionIdIssued(connection_id=_unhx(tok[1:])))
            elif k == "R":
                res.append(E.ConnectionIdRetired(connection_id=_unhx(tok[1:])))
            elif k == "D":
                sid, data, fin = tok[1:].split(":")
                res.append(E.StreamDataReceived(data=_unhx(data), end_stream=fin == "1", stream_id=int(sid)))
            else:
                res.append(E.ProtocolNegotiated(alpn_protocol=None))
        return res

    def _stream_handler_for(self, holder):
        def handler(reader, writer):
            p = writer.transport.protocol
            self.writers[(p.cix, writer.transport.stream_id)] = writer
            self.keep.append(writer)     # a collected StreamWriter closes itself (write_eof) in __del__
        return handler

    def _new_proto(self, quic, server_side=False):
        p = self.TP(quic, stream_handler=self._stream_handler_for(None), tracer=self.tr, server_side=server_side)
        p._loop = LoopProxy(self.loop)
        if not server_side:
            p.connection_made(_SinkTransport())
        return p

    def _fresh(self, p):
        """what an ABORTED callback left in the QUIC queue is not part of the next line (events a
        completed transmit() left there - today's code - stay)"""
        q = p._quic
        q.tx = []
        if getattr(p, "_c19_abort", False):
            q.events = []
            p._c19_abort = False

    def _skip(self, p, what="skip"):
        return self.tr.out_line({"exc": None, "result": what, "done": []}, p)

    async def _settle(self):
        for _ in range(3):
            await asyncio.sleep(0)

    async def _step(self, line):
        import os
        t = line.split()
        op = t[0]
        tr = self.tr
        n0 = len(tr.steps)
        try:
            if op == "adp.new":
                self.tr = tr = Tracer()
                self.server = None
                self.writers = {}
                return "ok"
            if op == "adp.server":
                kw = dict(tracer=tr, configuration=server_configuration(), retry=False,
                          stream_handler=self._stream_handler_for(None))
                self.server = self.TS(quic_factory=lambda real: StubQuic(real),
                                      post_create=lambda p: setattr(p, "_loop", LoopProxy(self.loop)), **kw)
                if t[1] == "1":
                    self.server._retry = shared_retry_handler()
                    self.server._tap_retry()
                self.server.connection_made(_SinkTransport())
                return "ok"
            if op == "adp.conn":
                p = self._new_proto(StubQuic())
                return "ok " + str(p.cix)
            if op == "adp.sdgram":
                addr = self.ADDRS[int(t[1])]
                tr.addrs[(addr[0], addr[1])] = int(t[1])
                hdr, dcid, ptype, big, token, rand, tat, evs, tx = t[2:11]
                size = 1200 if big == "1" else 100
                if hdr == "bad":
                    data = b"\xc0\x00"
                elif hdr == "vn":
                    data = build_long_initial(b"\x01" * 8, b"\x02" * 8, b"", 1200, version=0x1A2A3A4A)
                else:
                    if token == "-":
                        tok = b""
                    elif token.startswith("s"):
                        inv = {v: k for k, v in tr.tokens.items()}
                        tok = inv.get(token)
                        if tok is None:
                            return "bad-op"
                    else:
                        tok = self._foreign_token(token)
                        tr.foreign[tok] = token
                    d = _unhx(dcid)
                    data = build_long_initial(d, b"\x05" * 8, tok, size) if ptype == "I" else build_short(d, size)
                # inputs of the nested protocol callback (used if the datagram is routed)
                randb = _unhx(rand)
                real_urandom = os.urandom
                state = {"used": False}

                def urandom(n):
                    if n == 8 and not state["used"] and randb:
                        state["used"] = True
                        return randb
                    return real_urandom(n)

                os.urandom = urandom
                try:
                    target = self.server._protocols.get(_unhx(dcid)) if hdr == "h" else None
                    if target is not None:
                        self._fresh(target)
                        target._quic.timer = ofbits(tat)
                        target._quic.events = target._quic.events + self._mk_events(target, evs)
                        target._quic.tx = self._mk_events(target, tx)
                    self.server._c19_script = (ofbits(tat), evs, self, tx)
                    self.server.datagram_received(data, addr)
                except Exception:
                    pass
                finally:
                    os.urandom = real_urandom
                st = tr.steps[-1]
                if st["exc"] is not None and st["conn"] is not None:
                    tr.conns[st["conn"]]._c19_abort = True
                return st["out"]
            p = tr.conns[int(t[1])] if len(t) > 1 and int(t[1]) < len(tr.conns) else None
            if p is None:
                return "bad-op"
            q = p._quic
            self._fresh(p)
            if op == "adp.dgram":
                if p._c19_server_side:
                    return "bad-op"
                q.timer = ofbits(t[2])
                q.events = q.events + self._mk_events(p, t[3])
                q.tx = self._mk_events(p, t[4])
                p.datagram_received(b"", ("1.1.1.1", 1))
            elif op == "adp.timer":
                if p._timer is None:
                    return self._skip(p)
                q.timer = ofbits(t[2])
                q.events = q.events + self._mk_events(p, t[3])
                q.tx = self._mk_events(p, t[4])
                h = p._timer
                h.cb(*h.args)
            elif op == "adp.transmit":
                q.timer = ofbits(t[2])
                q.tx = self._mk_events(p, t[3])
                if p._loop.soon:
                    h = p._loop.soon.pop(0)
                    h.cb(*h.args)
                else:
                    p.transmit()
            elif op == "adp.waitconn":
                self.tasks.append(self.loop.create_task(self._guard(p.wait_connected(_wid=int(t[2])))))
                self.by_wid[int(t[2])] = self.tasks[-1]
                await self._settle()
            elif op == "adp.waitclosed":
                self.tasks.append(self.loop.create_task(self._guard(p.wait_closed(_wid=int(t[2])))))
                self.by_wid[int(t[2])] = self.tasks[-1]
                await self._settle()
            elif op == "adp.ping":
                q.timer = ofbits(t[4])
                q.tx = self._mk_events(p, t[5])
                self.tasks.append(self.loop.create_task(self._guard(p.ping(_wid=int(t[2]), _label=int(t[3])))))
                self.by_wid[int(t[2])] = self.tasks[-1]
                await self._settle()
            elif op == "adp.cancel":
                # the application cancels the task that awaits waiter `wid` (e.g. asyncio.wait_for timing out)
                task = self.by_wid.get(int(t[2]))
                if task is not None:
                    task.cancel()
                await self._settle()
                st = tr.begin(p, "cancel", wid=int(t[2]))
                tr.end(st)
            elif op == "adp.close":
                q.timer = ofbits(t[2])
                q.tx = self._mk_events(p, t[3])
                p.close()
            elif op == "adp.mkstream":
                q.next_sid = int(t[2])
                reader, writer = await p.create_stream()
                self.writers[(p.cix, int(t[2]))] = writer
                self.keep.append(writer)
            elif op == "adp.write":
                w = self.writers.get((p.cix, int(t[2])))
                if w is None:
                    return self._skip(p, "nostream")
                w.write(_unhx(t[3]))
            elif op == "adp.eof":
                w = self.writers.get((p.cix, int(t[2])))
                if w is None:
                    return self._skip(p, "nostream")
                w.write_eof()
            else:
                return "bad-op"
        except Exception:
            if len(tr.steps) == n0:
                raise
        await self._settle()
        if len(tr.steps) == n0:
            return "bad-op"
        if tr.steps[-1]["exc"] is not None and p is not None:
            p._c19_abort = True
        return tr.steps[-1]["out"]

    async def _guard(self, coro):
        try:
            await coro
        except (Exception, asyncio.CancelledError):
            pass

    def _foreign_token(self, label):
        shared_retry_handler()
        n = int(label[1:])
        if n % 2 == 0:
            import random
            return bytes(random.Random(n).getrandbits(8) for _ in range(256))
        # a well-formed token sealed under a different key
        return _SHARED["other"].create_token(("10.0.0.1", 4000), b"\x01" * 8, b"\x02" * 8)


# ------------------------------------------------------------------ real mode
SERVER_ADDR = ("2.3.4.5", 4433)


class Waiter:
    def __init__(self, kind, proto, phase, task):
        self.kind, self.proto, self.phase, self.task = kind, proto, phase, task
        self.prompt = False        # started after its deciding event: must finish without further events


class BusyTimer(Exception):
    """a connection's timer fired thousands of times in a row: the QUIC layer keeps
    returning a deadline in the past (reported, not a C19 clause)"""


class World:
    """real clients + real QuicServer on a virtual-time loop over a lossy network.

    `plan` (dict) fixes the scenario shape; every random choice comes from `seed`."""

    def __init__(self, seed, plan):
        import random
        self.seed = seed
        self.plan = plan
        self.rng = random.Random(seed)
        self.loop = vloop.VLoop(random.Random(seed ^ 0x5EED))
        self.net = vloop.Net(self.loop, random.Random(seed ^ 0xBEEF), p_drop=plan.get("p_drop", 0.08),
                             p_dup=plan.get("p_dup", 0.08))
        self.tr = Tracer()
        self.TP, self.TS = traced_classes()
        self.problems = []        # (what, signature dict)
        self.waiters = []
        self.streams = []         # dicts: writer side / reader side records
        self.server_conns = []
        self.clients = []
        self.bg = []
        self.routing_checks = 0
        self.notes = {"handshakes": 0, "terminated": 0, "streams_clean": 0, "streams_cut": 0, "tokens_rejected": 0,
                      "tokens_accepted": 0}
        self.tr.on_step = self._after_step
        self.idle = plan.get("idle_timeout", 8.0)
        self._timer_run = 0
        self._last_timer_conn = None
        self.h_seen = set()       # connections whose adapter has processed HandshakeCompleted

    # ------------------------------------------------------------- oracle
    def problem(self, what, **sig):
        if not any(p[1] == sig for p in self.problems):
            self.problems.append((what, sig))

    def _after_step(self, st):
        """routing clause, evaluated after every atomic step from the QUIC
        layer's own view of which connection IDs are live"""
        if st["op"] == "timer" and st["conn"] == self._last_timer_conn:
            self._timer_run += 1
            if self._timer_run > 3000:
                raise BusyTimer(f"connection {st['conn']}: timer fired {self._timer_run} times in a row "
                                f"(deadline {st['tat']} stays in the past)")
        else:
            self._timer_run = 0
            self._last_timer_conn = st["conn"] if st["op"] == "timer" else None
        if st["conn"] is not None and st["exc"] is None:
            p = self.tr.conns[st["conn"]]
            if p._quic._state.name == "TERMINATED" and p._closed.is_set() and p._timer is not None:
                self.problem(f"connection {p.cix} keeps a timer armed after it terminated (step {st['line'][:50]!r})",
                             oracle="timer", kind="armed-after-termination")
        srv = self.tr.server
        if srv is None:
            return
        self.routing_checks += 1
        if st["op"] == "sdgram" and st["result"] == "drop" and st["kw"].get("hdr") == "h":
            d = _unhx(st["kw"]["dcid"])
            for p in self.server_conns:
                if p._quic._state.name not in ("TERMINATED", "CLOSING", "DRAINING") and \
                        d in p._c19_advertised and any(c.cid == d for c in p._quic._host_cids):
                    self.problem(f"server dropped a datagram addressed to connection ID {d.hex()} that live connection "
                                 f"{p.cix} has issued and not retired", oracle="routing", kind="datagram-dropped")
        # IDs the server has handed to a client and not seen retired: the source connection ID of its own Retry
        # packet (when the client used it) and the advertised host CIDs the QUIC layer still holds
        def handed(cix, tok):
            p = self.tr.conns[cix]
            ids = {c.cid for c in p._quic._host_cids if c.cid in getattr(p, "_c19_advertised", ())}
            if tok.startswith("s"):
                scid = self.tr.issued[int(tok[1:])][2]
                if srv.created_dcid.get(cix) == _hx(scid):
                    ids.add(scid)
            return ids

        live = [(cix, tok) for cix, addr, tok, odcid, rscid in srv.created
                if self.tr.conns[cix]._quic._state.name != "TERMINATED"]
        if st["exc"] is None and not getattr(srv, "_c19_closed", False):
            # every such ID routes to that very protocol object
            for cix, tok in live:
                for cid in handed(cix, tok):
                    if srv._protocols.get(cid) is not self.tr.conns[cix]:
                        self.problem(f"live connection {cix} is not reachable through {_hx(cid)}, a connection ID the server "
                                     f"handed to that client ("
                                     f"{'source CID of its Retry packet' if cid not in self.tr.conns[cix]._c19_advertised else 'advertised host CID'}"
                                     f") and has not seen retired (after step {st['line'][:50]!r})",
                                     oracle="routing", kind="issued-cid-unreachable")
            # hence a datagram addressed to one of them never creates a second connection state
            if st["op"] == "sdgram" and st["result"].startswith("new "):
                d = _unhx(st["kw"]["dcid"])
                for cix, tok in live[:-1]:
                    if d in handed(cix, tok):
                        self.problem(f"a datagram addressed to {_hx(d)}, an ID the server handed to the client of live "
                                     f"connection {cix}, created a SECOND connection state ({srv.created[-1][0]}) instead of "
                                     f"reaching it", oracle="routing", kind="second-connection-state")
        for p in self.server_conns:
            q = p._quic
            terminated = q._state.name == "TERMINATED"
            mine = [k for k, v in srv._protocols.items() if v is p]
            if terminated:
                if mine and st["exc"] is None:
                    self.problem(f"server keeps routing entries {[k.hex() for k in mine]} for terminated connection "
                                 f"{p.cix} after step {st['line'][:60]!r}", oracle="routing", kind="entry-after-termination")
            elif not getattr(srv, "_c19_closed", False):
                for c in q._host_cids:
                    if c.cid in p._c19_advertised and srv._protocols.get(c.cid) is not p and st["exc"] is None:
                        self.problem(f"live connection {p.cix} not reachable through issued CID {c.cid.hex()} "
                                     f"after step {st['line'][:60]!r}", oracle="routing", kind="cid-unreachable")

    # ------------------------------------------------------------- pieces
    def spawn(self, kind, proto, phase):
        coro = {"conn": proto.wait_connected, "ping": proto.ping, "closed": proto.wait_closed}[kind]()
        task = self.loop.create_task(coro)
        w = Waiter(kind, proto, phase, task)
        # the deciding event already happened: ConnectionTerminated for every kind, HandshakeCompleted for connect
        events_seen = {t for s in self.tr.steps if s["conn"] == proto.cix for e in s["evs"] + s.get("txevs", []) for t in e[:1]}
        w.prompt = "T" in events_seen or (kind == "conn" and "H" in events_seen)
        if w.prompt:
            async def watch():
                await asyncio.sleep(0.5)
                if not task.done():
                    self.problem(f"{kind} waiter started {phase} on connection {proto.cix} after its deciding event "
                                 f"({'ConnectionTerminated' if 'T' in events_seen else 'HandshakeCompleted'} already "
                                 f"processed) is still pending 0.5 s later (connected={proto._connected}, "
                                 f"closed={proto._closed.is_set()})", oracle="waiter", kind=kind,
                                 after="T" if "T" in events_seen else "H", outcome="pending-after-deciding-event")
            self.bg.append(self.loop.create_task(watch()))
        self.waiters.append(w)
        # the application may cancel the awaiting task at any point (asyncio.wait_for timing out, task.cancel())
        if self.rng.random() < self.plan.get("p_cancel", 0.25):
            w.cancel_requested = True
            delay = self.rng.choice([0.0, 0.0, 0.001, 0.01, 0.1, 1.0])

            async def canceller():
                await asyncio.sleep(delay)
                if not task.done():
                    wid = next((k for k, x in self.tr.waiters.items() if x.get("task_ref") is task), 999999)
                    st = self.tr.begin(proto, "cancel", wid=wid)
                    task.cancel()
                    self.tr.end(st)
                    self.notes["cancelled"] = self.notes.get("cancelled", 0) + 1
            self.bg.append(self.loop.create_task(canceller()))
        return task

    def server_stream_handler(self, reader, writer):
        proto = writer.transport.protocol
        rec = {"side": "server", "conn": proto.cix, "sid": writer.transport.stream_id, "reader": reader,
               "read": None, "wrote": None}
        self.streams.append(rec)

        async def serve():
            data = await reader.read()
            rec["read"] = data
            rec["clean_eof"] = reader._c19_clean
            out = bytes(reversed(data))
            rec["wrote"] = out
            try:
                writer.write(out)
                writer.write_eof()
            except Exception as e:      # writing on a closed connection is the QUIC layer's business
                rec["write_exc"] = type(e).__name__

        self.bg.append(self.loop.create_task(serve()))

    def new_server_conn(self, p):
        self.server_conns.append(p)
        r = self.rng
        # ground truth for "issued": the CID of the first flight plus every CID the QUIC layer has
        # written into a NEW_CONNECTION_ID frame (observed at the frame writer, not via events)
        q = p._quic
        p._c19_advertised = {q.host_cid}
        orig = q._write_new_connection_id_frame

        def write_ncid(builder, connection_id):
            orig(builder=builder, connection_id=connection_id)
            p._c19_advertised.add(connection_id.cid)

        q._write_new_connection_id_frame = write_ncid
        if r.random() < self.plan.get("p_server_waiters", 0.5):
            async def script():
                await asyncio.sleep(r.choice([0.0, 0.002, 0.05, 0.3]))
                for kind in r.sample(["conn", "ping", "closed"], r.randrange(1, 4)):
                    self.spawn(kind, p, "server-side")
                    await asyncio.sleep(r.choice([0.0, 0.01]))
            self.bg.append(self.loop.create_task(script()))

    async def client_stream(self, p, r, cut):
        """one request/response on a fresh stream; returns when the response ended"""
        reader, writer = await p.create_stream()
        sid = writer.transport.stream_id
        total = r.choice([0, 1, 5, 40, 300, 2500, 9000])
        data = bytes(r.getrandbits(8) for _ in range(total))
        rec = {"side": "client", "conn": p.cix, "sid": sid, "writer": writer, "wrote": b"", "eof": False,
               "reader": reader, "read": None}
        self.streams.append(rec)
        pos = 0
        try:
            while pos < len(data):
                n = r.choice([1, 7, 64, 1000, 4000])
                writer.write(data[pos:pos + n])
                rec["wrote"] += data[pos:pos + n]
                pos += n
                if r.random() < 0.5:
                    await asyncio.sleep(r.choice([0.0, 0.001, 0.02]))
            if total == 0 and r.random() < 0.5:
                writer.write(b"")
            writer.write_eof()
            rec["eof"] = True
        except Exception as e:
            rec["write_exc"] = type(e).__name__
        got = await reader.read()
        rec["read"] = got
        rec["clean_eof"] = reader._c19_clean

    async def client_two_streams(self, p, r):
        """two streams are opened before the first byte is written on either"""
        pairs = [await p.create_stream(), await p.create_stream()]
        recs = []
        for k, (reader, writer) in enumerate(pairs):
            data = bytes([65 + k]) * r.choice([1, 30])
            rec = {"side": "client", "conn": p.cix, "sid": writer.transport.stream_id, "writer": writer,
                   "wrote": data, "eof": True, "reader": reader, "read": None}
            self.streams.append(rec)
            recs.append(rec)
            try:
                writer.write(data)
                writer.write_eof()
            except Exception as e:
                rec["write_exc"] = type(e).__name__
        for rec in recs:
            try:
                rec["read"] = await asyncio.wait_for(rec["reader"].read(), timeout=6 * self.idle + 30)
                rec["clean_eof"] = rec["reader"]._c19_clean
            except asyncio.TimeoutError:
                pass

    def forged_initials(self, r):
        """adversary datagrams for a retry-validating server: none may create state"""
        shared_retry_handler()
        out = []
        issued = list(self.tr.tokens.items())
        for _ in range(r.randrange(1, 4)):
            k = r.randrange(5)
            src = ("6.6.6.%d" % r.randrange(1, 250), r.randrange(1024, 60000))
            if k == 0:
                tok = bytes(r.getrandbits(8) for _ in range(r.choice([1, 16, 255, 256, 257])))
            elif k == 1:
                tok = _SHARED["other"].create_token(src, b"\x01" * 8, b"\x02" * 8)
            elif k == 2 and issued:
                tok = r.choice(issued)[0]              # issued to a different address
            elif k == 3 and issued:
                tok = bytearray(r.choice(issued)[0])   # bit-flipped
                tok[r.randrange(len(tok))] ^= 1 << r.randrange(8)
                tok = bytes(tok)
                src = None
            else:
                tok = bytes(256)
            out.append((src, tok))
        return out

    async def client_script(self, i):
        from aioquic.quic.connection import QuicConnection
        r = self.rng
        plan = self.plan
        await asyncio.sleep(r.choice([0.0, 0.0, 0.003, 0.05]))
        addr = ("1.2.3.%d" % (i + 1), 5000 + i)
        conf = client_configuration(idle_timeout=self.idle)
        conn = QuicConnection(configuration=conf)
        p = self.TP(conn, tracer=self.tr)
        self.net.attach(addr, p)
        self.clients.append(p)
        mode = plan["close_modes"][i % len(plan["close_modes"])]
        p._c19_mode = mode
        p.connect(SERVER_ADDR)

        # waiters before the handshake (also two concurrent connect waiters)
        for kind in r.sample(["conn", "ping", "closed", "conn"], r.randrange(0, 4)):
            self.spawn(kind, p, "pre-handshake")
            if r.random() < 0.5:
                await asyncio.sleep(r.choice([0.0, 0.001, 0.01]))

        async def closer():
            await asyncio.sleep(plan["close_after"][i % len(plan["close_after"])] * r.random())
            await self.do_close(p, mode, addr)

        closing = self.loop.create_task(closer())
        self.bg.append(closing)

        # wait for the handshake WITHOUT the API under test (so late wait_connected() calls
        # really come after HandshakeCompleted was processed)
        t_end = self.loop.time() + 3 * self.idle
        while not conn._handshake_complete and not p._closed.is_set() and self.loop.time() < t_end:
            await asyncio.sleep(0.005)
        if conn._handshake_complete:
            self.notes["handshakes"] += 1
            for kind in r.sample(["conn", "ping", "closed", "conn", "ping"], r.randrange(1, 4)):
                self.spawn(kind, p, "post-handshake")
                await asyncio.sleep(r.choice([0.0, 0.001]))
            if r.random() < 0.4:
                p.change_connection_id()
            # streams, some concurrently
            tasks = [self.loop.create_task(self.client_stream(p, r, None)) for _ in range(r.randrange(0, 4))]
            if r.random() < self.plan.get("p_open_two", 0.3):
                tasks.append(self.loop.create_task(self.client_two_streams(p, r)))
            self.bg += tasks
            if tasks:
                await asyncio.wait(tasks, timeout=3 * self.idle)
            if r.random() < 0.3:
                p.change_connection_id()
            for kind in r.sample(["conn", "ping", "closed"], r.randrange(0, 3)):
                self.spawn(kind, p, "post-streams")
        if mode == "late":
            await self.do_close(p, "client", addr)
        # after the connection terminated: the deciding event is in the past
        t_end = self.loop.time() + 4 * self.idle + 30
        while not p._closed.is_set() and self.loop.time() < t_end:
            await asyncio.sleep(0.05)
        if p._closed.is_set():
            self.notes["terminated"] += 1
            for kind in r.sample(["conn", "ping", "closed", "ping"], r.randrange(1, 4)):
                self.spawn(kind, p, "post-termination")
                await asyncio.sleep(r.choice([0.0, 0.001]))
        else:
            self.problem(f"client {p.cix} (close mode {mode}) never terminated within {4 * self.idle + 30:.0f}s of virtual time",
                         oracle="termination", mode=mode)

    async def do_close(self, p, mode, addr):
        r = self.rng
        if p._closed.is_set():
            return
        if mode == "client":
            p.close()
        elif mode == "server":
            sp = self.peer_of(p)
            if sp is not None:
                sp.close(error_code=r.choice([0, 0x10]), reason_phrase="bye")
            else:
                p.close()
        elif mode == "idle":
            self.net.blackhole.add((addr[0], addr[1]))
        elif mode == "error":
            from aioquic import tls
            from . import inject
            q = p._quic
            if q._cryptos.get(tls.Epoch.ONE_RTT) is not None and q._cryptos[tls.Epoch.ONE_RTT].send.is_valid():
                # MAX_STREAM_DATA for a stream the client may open but has not: STREAM_STATE_ERROR at the server
                payload = bytes([0x11, 0x21, 0x01]) if r.random() < 0.5 else bytes([0x1F])
                data = inject.build(None, types.SimpleNamespace(conn=q), payload)
                if data is not None:
                    self.net.inject(addr, SERVER_ADDR, data)
                    return
            p.close(error_code=0x1, reason_phrase="fallback")

    def peer_of(self, p):
        for cix in self.peer_indices(p):
            sp = self.tr.conns[cix]
            if sp._quic._state.name != "TERMINATED":
                return sp
        return None

    async def adversary(self):
        r = self.rng
        await asyncio.sleep(r.choice([0.0, 0.01, 0.2]))
        if self.plan.get("retry"):
            for src, tok in self.forged_initials(r):
                if src is None:
                    src = ("1.2.3.1", 5000)
                before = len(self.server_conns)
                data = build_long_initial(bytes(r.getrandbits(8) for _ in range(8)), b"\x09" * 8, tok, 1200)
                self.tr.server.datagram_received(data, src)
                if len(self.server_conns) != before:
                    self.notes["tokens_accepted"] += 1
                else:
                    self.notes["tokens_rejected"] += 1
                await asyncio.sleep(r.choice([0.0, 0.005]))
            # replay every token the server has issued so far from the neighbours of the address it was issued
            # to: same host with the port changed by +-256 / in the high byte only / by one, another host with
            # the same port, the IPv4 host as IPv4-mapped IPv6 (property: only that very address may use it)
            tried = set()
            for pause in (0.05, 0.3, 1.0):
                await asyncio.sleep(pause)
                inv = {v: k for k, v in self.tr.addrs.items()}
                for tok, lab in list(self.tr.tokens.items()):
                    host, port = inv[self.tr.issued[int(lab[1:])][0]]
                    variants = [(host, (port + 256) % 65536), (host, (port - 256) % 65536), (host, port ^ 0x8000),
                                (host, port + 1), ("9.9.9.9", port)]
                    if ":" not in host:
                        variants.append(("::ffff:" + host, port))
                    for src in variants:
                        if (lab, src) in tried:
                            continue
                        tried.add((lab, src))
                        before = len(self.server_conns)
                        data = build_long_initial(bytes(r.getrandbits(8) for _ in range(8)), b"\x09" * 8, tok, 1200)
                        self.tr.server.datagram_received(data, src)
                        self.notes["tokens_accepted" if len(self.server_conns) != before else "tokens_rejected"] += 1
        # garbage and short datagrams never matter
        for _ in range(r.randrange(0, 3)):
            self.tr.server.datagram_received(bytes(r.getrandbits(8) for _ in range(r.choice([0, 1, 20, 1300]))),
                                             ("6.6.6.6", 666))

    # ------------------------------------------------------------- main
    async def main(self):
        plan = self.plan
        sconf = server_configuration(idle_timeout=self.idle)
        server = self.TS(tracer=self.tr, configuration=sconf, retry=False,
                         stream_handler=self.server_stream_handler, post_create=self.new_server_conn)
        if plan.get("retry"):
            server._retry = shared_retry_handler()
            # tokens of earlier worlds were sealed with the same key: they count as issued by this server
            # only if this world saw them issued, so give this world a fresh handler when cheap enough
            if plan.get("fresh_key"):
                from aioquic.quic.retry import QuicRetryTokenHandler
                server._retry = QuicRetryTokenHandler()
            server._tap_retry()
        self.net.attach(SERVER_ADDR, server)
        scripts = [self.loop.create_task(self.client_script(i)) for i in range(plan.get("clients", 2))]
        adv = self.loop.create_task(self.adversary())
        done, pending = await asyncio.wait(scripts + [adv], timeout=20 * self.idle + 200)
        for t in pending:
            self.problem("harness script did not finish", oracle="harness")
        for t in done:
            if t.exception() is not None:
                raise t.exception()
        # generous bound: every connection has terminated or will by idle timeout
        if self.bg:
            await asyncio.wait(self.bg, timeout=4 * self.idle)
        tasks = [w.task for w in self.waiters]
        if tasks:
            await asyncio.wait(tasks, timeout=6 * self.idle + 60)
        self.evaluate()
        self.tr.on_step = None
        server._c19_closed = True
        for t in self.waiters:
            t.task.cancel()
        for t in self.bg:
            t.cancel()
        await asyncio.sleep(0)

    def evaluate(self):
        # waiters: finished exactly once with success or a connection error
        for w in self.waiters:
            c = w.proto
            side = "server" if c._c19_server_side else "client"
            if not w.task.done():
                self.problem(f"{w.kind} waiter started {w.phase} on {side} connection {c.cix} never finished "
                             f"(connected={c._connected}, closed={c._closed.is_set()})",
                             oracle="waiter", kind=w.kind, outcome="never-finished")
            elif w.task.cancelled() and getattr(w, "cancel_requested", False):
                pass        # cancelled by the application itself
            elif w.task.cancelled():
                self.problem(f"{w.kind} waiter started {w.phase} was cancelled", oracle="waiter", kind=w.kind,
                             outcome="cancelled")
            else:
                e = w.task.exception()
                if e is not None and not isinstance(e, ConnectionError):
                    self.problem(f"{w.kind} waiter started {w.phase} on {side} connection {c.cix} finished with "
                                 f"{type(e).__name__}: {e}", oracle="waiter", kind=w.kind,
                                 outcome=type(e).__name__)
        for vt, msg, exc in self.loop.escaped:
            self.problem(f"exception escaped an event-loop callback at t={vt:.3f}: {msg} {exc!r}",
                         oracle="callback", exc=type(exc).__name__ if exc else "none")
        # streams: reader content is the writer's bytes, in order, then EOF
        byconn = {}
        for s in self.streams:
            byconn.setdefault((s["side"], s["conn"], s["sid"]), []).append(s)
        for s in self.streams:
            if s["side"] != "client":
                continue
            p = self.tr.conns[s["conn"]]
            same = byconn[("client", s["conn"], s["sid"])]
            if len(same) > 1:
                self.problem(f"create_stream() returned stream id {s['sid']} to {len(same)} concurrent callers on "
                             f"connection {s['conn']}: their bytes interleave in one QUIC stream",
                             oracle="stream", kind="duplicate-stream-id")
                continue
            sp = [x for x in self.streams if x["side"] == "server" and x["sid"] == s["sid"]
                  and x["conn"] in self.peer_indices(p)]
            for x in sp:
                if x["read"] is not None:
                    if not s["wrote"].startswith(x["read"]):
                        self.problem(f"server reader of stream {s['sid']} read bytes that differ from what the client wrote",
                                     oracle="stream", kind="server-read-mismatch")
                    elif x.get("clean_eof") and s["eof"] and x["read"] != s["wrote"]:
                        self.problem(f"server reader of stream {s['sid']} saw a clean EOF after {len(x['read'])} of "
                                     f"{len(s['wrote'])} bytes", oracle="stream", kind="server-short-read")
                    if s["read"] is not None and x["wrote"] is not None:
                        if not x["wrote"].startswith(s["read"]):
                            self.problem(f"client reader of stream {s['sid']} read bytes that differ from what the server wrote",
                                         oracle="stream", kind="client-read-mismatch")
                        elif s.get("clean_eof") and s["read"] != x["wrote"]:
                            self.problem(f"client reader of stream {s['sid']} saw a clean EOF after {len(s['read'])} of "
                                         f"{len(x['wrote'])} bytes", oracle="stream", kind="client-short-read")
                        elif s.get("clean_eof"):
                            self.notes["streams_clean"] += 1
                        else:
                            self.notes["streams_cut"] += 1
            if s["read"] is None:
                self.problem(f"client reader of stream {s['sid']} on connection {s['conn']} never reached EOF "
                             f"(closed={p._closed.is_set()})", oracle="stream", kind="no-eof")
        for p in self.tr.conns:
            for sid, rd in p._stream_readers.items():
                if rd._c19_after_eof:
                    self.problem(f"data fed to the reader of stream {sid} after EOF", oracle="stream", kind="data-after-eof")
        # retry tokens: state only for tokens this server sealed for that very address
        if self.plan.get("retry"):
            for cix, addr, tok, odcid, rscid in self.tr.server.created:
                ok = tok.startswith("s") and self.tr.issued[int(tok[1:])][0] == addr
                if not ok:
                    inv = {v: k for k, v in self.tr.addrs.items()}
                    to = inv.get(self.tr.issued[int(tok[1:])][0]) if tok.startswith("s") else None
                    self.problem(f"server created connection {cix} for a datagram from {inv.get(addr)} carrying token "
                                 f"{tok}" + (f", which it issued to {to}" if to else ", which it never issued"),
                                 oracle="token", kind="foreign-token-accepted")
                elif (odcid, rscid) != self.tr.issued[int(tok[1:])][1:]:
                    self.problem(f"connection {cix} created with connection IDs that are not the sealed ones",
                                 oracle="token", kind="wrong-sealed-ids")

    def peer_indices(self, p):
        od = p._quic.original_destination_connection_id
        return [sp.cix for sp in self.server_conns if sp._quic._original_destination_connection_id == od]

    def run(self):
        try:
            self.loop.run_until_complete(self.main())
        finally:
            try:
                self.loop.run_until_complete(asyncio.sleep(0))
            except Exception:
                pass
            self.loop.close()
        return self

    def trace(self):
        import os as _os
        pre = ["adp.new %s" % _os.environ.get("C19_QUIRK", "0"), "adp.server %d" % (1 if self.plan.get("retry") else 0)]
        return pre + [s["line"] for s in self.tr.steps], ["ok", "ok"] + [s["out"] for s in self.tr.steps]


# ------------------------------------------------------------- quiescence worlds
QUIET_OWNERS = ["client", "server", "echo"]
QUIET_SEQUENCES = {
    "write-quiet-eof": ["write", "quiet", "eof"],
    "fresh-quiet-eof": ["quiet", "eof"],
    "fresh-eof": ["eof"],
    "write-eof-same-tick": ["write", "eof"],
    "write-quiet-close": ["write", "quiet", "close"],
    "fresh-quiet-close": ["quiet", "close"],
    "write-quiet-write-quiet-eof": ["write", "quiet", "write", "quiet", "eof"],
    "write-quiet-write": ["write", "quiet", "write"],
    "quiet-write": ["quiet", "write"],
}


class QuietWorld(World):
    """one real client and a real QuicServer over a LOSSLESS (delaying, reordering) network with a long idle
    timeout.  Writer operations of one stream are separated by quiescence: the loop runs for `QUIET` virtual
    seconds, far longer than any ack / PTO delay and far shorter than the idle timeout, so nothing else is
    left to send when the next operation runs.  Oracle (property text): after every operation sequence and
    that bounded time, the peer's reader has been fed exactly the bytes written, and EOF iff EOF was written.

    owner = who holds the writer: "client" (client-initiated stream), "server" (server-initiated stream),
    "echo" (the server's writer of a client-initiated bidirectional stream)."""

    QUIET = 2.0

    def __init__(self, seed, owner, seq_name):
        super().__init__(seed, {"clients": 1, "p_drop": 0.0, "p_dup": 0.0, "idle_timeout": 60.0, "retry": False,
                                "close_modes": ["late"], "close_after": [1.0], "p_server_waiters": 0.0})
        self.net.delays = (0.0, 0.001, 0.003, 0.01)
        self.owner = owner
        self.seq_name = seq_name
        self.keep = []

    def _handler(self, reader, writer):
        proto = writer.transport.protocol
        self.keep.append((proto, writer.transport.stream_id, reader, writer))

    def peer_state(self, peer, sid):
        rd = peer._stream_readers.get(sid)
        if rd is None:
            return b"", False
        return bytes(rd._c19_fed), rd._c19_eofs > 0

    def check(self, peer, sid, written, eof, after):
        got, geof = self.peer_state(peer, sid)
        where = f"{self.owner} writer, stream {sid}, sequence {self.seq_name}"
        if got != written:
            self.problem(f"{self.QUIET:.0f} s after {after} on a quiet connection the peer's reader holds {len(got)} bytes "
                         f"but {len(written)} were written ({where})" if written.startswith(got) else
                         f"the peer's reader holds bytes that were not written ({where})",
                         oracle="quiet", kind="bytes-missing" if written.startswith(got) else "bytes-differ", op=after)
        if geof != eof:
            self.problem(f"{self.QUIET:.0f} s after {after} on a quiet connection the peer's reader "
                         f"{'has not seen EOF although EOF was written' if eof else 'is at EOF although no EOF was written'} "
                         f"({where}; idle timeout is {self.idle:.0f} s)", oracle="quiet",
                         kind="eof-missing" if eof else "eof-spurious", op=after)

    async def main(self):
        from aioquic.quic.connection import QuicConnection
        r = self.rng
        server = self.TS(tracer=self.tr, configuration=server_configuration(idle_timeout=self.idle), retry=False,
                         stream_handler=self._handler, post_create=self.new_server_conn)
        self.net.attach(SERVER_ADDR, server)
        conn = QuicConnection(configuration=client_configuration(idle_timeout=self.idle))
        client = self.TP(conn, stream_handler=self._handler, tracer=self.tr)
        self.net.attach(("1.2.3.1", 5000), client)
        client.connect(SERVER_ADDR)
        t_end = self.loop.time() + 10
        while not (conn._handshake_confirmed and self.server_conns and self.server_conns[0]._quic._handshake_confirmed):
            if self.loop.time() > t_end:
                self.problem("handshake did not complete on a lossless network", oracle="harness")
                return
            await asyncio.sleep(0.01)
        await asyncio.sleep(self.QUIET)
        sp = self.server_conns[0]
        if self.owner == "client":
            me, peer = client, sp
            reader, writer = await client.create_stream()
        elif self.owner == "server":
            me, peer = sp, client
            reader, writer = await sp.create_stream()
        else:
            # the client opens a bidirectional stream with one byte; the server's writer of it is the one under test
            me, peer = sp, client
            _, cw = await client.create_stream()
            self.keep.append(cw)
            cw.write(b"?")
            await asyncio.sleep(self.QUIET)
            mine = [k for k in self.keep if isinstance(k, tuple) and k[0] is sp]
            if not mine:
                self.problem("server stream handler was not called for a client stream", oracle="harness")
                return
            writer = mine[0][3]
        self.keep.append(writer)
        sid = writer.transport.stream_id
        written, eof, last = b"", False, "create_stream()"
        for op in QUIET_SEQUENCES[self.seq_name]:
            if op == "quiet":
                await asyncio.sleep(self.QUIET)
                self.check(peer, sid, written, eof, last)
            elif op == "write":
                data = bytes(r.getrandbits(8) for _ in range(r.choice([1, 40, 1500])))
                writer.write(data)
                written += data
                last = "writer.write()"
            elif op == "eof":
                writer.write_eof()
                eof, last = True, "writer.write_eof()"
            elif op == "close":
                writer.close()
                eof, last = True, "writer.close()"
        await asyncio.sleep(self.QUIET)
        self.check(peer, sid, written, eof, last)
        for vt, msg, exc in self.loop.escaped:
            self.problem(f"exception escaped an event-loop callback at t={vt:.3f}: {msg} {exc!r}",
                         oracle="callback", exc=type(exc).__name__ if exc else "none")
        self.tr.on_step = None


# ------------------------------------------------------------------ retry worlds
RETRY_SCENARIOS = ["plain", "dup-initial", "drop-first-flight", "split-hello", "split-hello-dup", "drop-then-dup"]


class RetryWorld(World):
    """one real client against a real QuicServer(retry=True) on an otherwise lossless network, arranged so that
    after the token-bearing Initial FURTHER datagrams addressed to the Retry source connection ID arrive before
    the client learns the server's own connection ID:
      dup-initial        the network delivers every client datagram of the first 50 ms twice
      drop-first-flight  the server's first flight (everything it sends during the 300 ms after its Retry) is lost:
                         the client's PTO retransmits its Initial to the Retry source CID
      split-hello        a ClientHello too large for one datagram (long ALPN list): two Initial datagrams
    Oracles: the routing checks of `World._after_step` (every ID handed to a client and not retired routes to its
    protocol object; no second connection state), handshake completes, no callback raises."""

    def __init__(self, seed, scenario):
        super().__init__(seed, {"clients": 1, "p_drop": 0.0, "p_dup": 0.0, "idle_timeout": 20.0, "retry": True,
                                "close_modes": ["late"], "close_after": [1.0], "p_server_waiters": 0.0, "p_cancel": 0.0})
        self.net.delays = (0.0, 0.001, 0.003, 0.01)
        self.scenario = scenario

    async def main(self):
        from aioquic.quic.connection import QuicConnection
        from aioquic.quic.packet import QuicPacketType, pull_quic_header
        from aioquic.buffer import Buffer
        r = self.rng
        sc = self.scenario
        big = sc.startswith("split-hello")
        alpn = ["proto-%03d-xxxxxxxxxxxxxxxx" % i for i in range(90)] if big else ["hq-interop"]
        server = self.TS(tracer=self.tr, configuration=server_configuration(idle_timeout=self.idle, alpn_protocols=[alpn[-1]]),
                         retry=False, stream_handler=self.server_stream_handler, post_create=self.new_server_conn)
        server._retry = shared_retry_handler()
        server._tap_retry()
        self.net.attach(SERVER_ADDR, server)
        caddr = ("1.2.3.1", 5000)
        t0 = self.loop.time()
        state = {"retry_at": None}

        def policy(src, dst, data, n):
            now = self.loop.time()
            from_client = Net_key(src) == Net_key(caddr)
            if not from_client and state["retry_at"] is None:
                try:
                    h = pull_quic_header(Buffer(data=data), host_cid_length=8)
                    if h.packet_type == QuicPacketType.RETRY:
                        state["retry_at"] = now
                        return [0.001]
                except ValueError:
                    pass
            if sc in ("dup-initial", "split-hello-dup", "drop-then-dup") and from_client and now - t0 < 0.05 + (0.6 if sc == "drop-then-dup" else 0):
                return [0.001, r.choice([0.002, 0.004, 0.02])]
            if sc in ("drop-first-flight", "drop-then-dup") and not from_client and state["retry_at"] is not None \
                    and now - state["retry_at"] < 0.3:
                return []
            return None

        self.net.policy = policy
        conn = QuicConnection(configuration=client_configuration(idle_timeout=self.idle, alpn_protocols=alpn))
        client = self.TP(conn, tracer=self.tr)
        self.net.attach(caddr, client)
        self.clients.append(client)
        client.connect(SERVER_ADDR)
        t_end = self.loop.time() + 15
        while not conn._handshake_confirmed and not client._closed.is_set() and self.loop.time() < t_end:
            await asyncio.sleep(0.01)
        if not conn._handshake_confirmed:
            self.problem(f"handshake with a retry-validating server did not complete (scenario {sc})",
                         oracle="retry-world", kind="no-handshake")
        self.notes["server_conns"] = len(self.server_conns)
        await asyncio.sleep(1.0)
        client.close()
        await asyncio.sleep(3.0)
        for vt, msg, exc in self.loop.escaped:
            self.problem(f"exception escaped an event-loop callback at t={vt:.3f}: {msg} {exc!r}",
                         oracle="callback", exc=type(exc).__name__ if exc else "none")
        self.tr.on_step = None
        server._c19_closed = True


def Net_key(addr):
    return (addr[0], addr[1])
