"""Scenarios and property oracles for C12 on real connections (harness/sim.py).

The oracles are written from the property text and read only the wire taps:
packets that authenticated at an endpoint (space, number, frames, time) and
packets the endpoint built (space, frames, time)."""
from . import frames as F, inject, sim as S

SPACE = {"INITIAL": "I", "HANDSHAKE": "H", "ZERO_RTT": "A", "ONE_RTT": "A"}
MAX_ACK_DELAY = 0.025      # max_ack_delay transport parameter aioquic advertises (25 ms)
EPS = 1e-9


class AckOracle:
    """soundness + timeliness + next-transmission, for both endpoints"""

    def __init__(self):
        self.auth = {}          # (ep, space) -> set(pn)
        self.largest = {}       # (ep, space) -> int
        self.due = {}           # (ep, space) -> (pn, arrival)   outstanding obligation
        self.problems = []      # (kind, text)
        self.acks_checked = 0
        self.timely_checked = 0
        self.nexttx_checked = 0
        self.max_latency = 0.0
        self.must_arm = []            # ack-eliciting (per harness/frames.py) new-largest packets of the running call
        self.armed_checked = 0
        self.timers_honoured = True   # the scenario fires every timer exactly when get_timer() asks

    def _bad(self, kind, text):
        if len(self.problems) < 5:
            self.problems.append((kind, text))

    @staticmethod
    def _closing(ep):
        c = ep.conn
        return c._close_pending or c._state.name in ("CLOSING", "DRAINING", "TERMINATED")

    def on_packet_authenticated(self, sim, ep, epoch, pn, hdr, payload):
        sp = SPACE[epoch]
        k = (ep.name, sp)
        first_time = pn not in self.auth.setdefault(k, set())
        self.auth[k].add(pn)
        fr = S.parse_payload(payload)
        ae = any(f.get("type") not in F.NON_ACK_ELICITING for f in fr)
        new_largest = pn > self.largest.get(k, -1)
        if new_largest:
            self.largest[k] = pn
        if not (first_time and ae and new_largest):
            return
        # the connection must arm its ack timer for it (compared when receive_datagram returns)
        self.must_arm.append((ep, epoch, sp, pn, [f.get("name") for f in fr][:3]))
        if sp == "A" and not (ep.conn._handshake_complete and self.timers_honoured):
            return                      # "once the handshake is complete"
        self.due.setdefault(k, []).append((pn, sim.now))

    def after_api(self, sim, ep, name, args, kw, res):
        """is_ack_eliciting as the connection recorded it (ack timer armed) against RFC 9002 section 2
        applied by the harness to the plaintext frames: anything but ACK, PADDING, CONNECTION_CLOSE"""
        if name != "receive_datagram":
            return
        todo, self.must_arm = self.must_arm, []
        from aioquic import tls
        ep_of = {"INITIAL": tls.Epoch.INITIAL, "HANDSHAKE": tls.Epoch.HANDSHAKE, "ZERO_RTT": tls.Epoch.ONE_RTT,
                 "ONE_RTT": tls.Epoch.ONE_RTT}
        for e, epoch, sp, pn, names in todo:
            if e is not ep or self._closing(ep) or ep.terminated:
                continue
            space = ep.conn._spaces.get(ep_of[epoch])
            if space is None or space.discarded or pn not in space.ack_queue:
                continue                  # not recorded (space gone): nothing to acknowledge
            self.armed_checked += 1
            if space.ack_at is None:
                self._bad("not-armed", f"{ep.name}: {epoch} packet {pn} carries {names} (ack-eliciting, highest number so far) "
                                       f"and was recorded, but no acknowledgement is scheduled (ack_at is None)")

    def on_packet_built(self, sim, ep, epoch, pn, hdr, payload, outlen):
        sp = SPACE[epoch]
        k = (ep.name, sp)
        fr = S.parse_payload(payload)
        acked = set()
        has_ack = False
        for f in fr:
            if f.get("name") in ("ACK", "ACK_ECN"):
                has_ack = True
                self.acks_checked += 1
                known = self.auth.get(k, set())
                for lo, hi in f["ranges"]:
                    if hi - lo > 100000:
                        self._bad("unsound", f"{ep.name} {sp}: absurd ACK range {lo}-{hi}")
                        continue
                    for x in range(lo, hi + 1):
                        acked.add(x)
                        if x not in known:
                            self._bad("unsound", f"{ep.name} acknowledges packet {x} in space {sp} which never authenticated there")
        is_close = any(f.get("name") in ("TRANSPORT_CLOSE", "APPLICATION_CLOSE") for f in fr)
        keep = []
        for want, t0 in self.due.get(k, []):
            if sp == "A":
                if want not in acked:
                    keep.append((want, t0))
                    continue
                lat = sim.now - t0
                self.max_latency = max(self.max_latency, lat)
                self.timely_checked += 1
                if lat > MAX_ACK_DELAY + EPS:
                    self._bad("late", f"{ep.name}: packet {want} arrived at {t0:.6f}, acknowledged at {sim.now:.6f} "
                                      f"({lat * 1000:.3f} ms > 25 ms)")
            else:
                if is_close:
                    continue            # a closing endpoint sends only CONNECTION_CLOSE (RFC 9000 10.2.1)
                self.nexttx_checked += 1
                if want not in acked:
                    self._bad("next-tx", f"{ep.name}: {epoch} packet {pn} is the next transmission after ack-eliciting "
                                         f"packet {want} arrived but does not acknowledge it (ACK frame: {has_ack})")
        self.due[k] = keep

    def overdue(self, sim):
        """called when virtual time has advanced with all timers honoured"""
        for kk, lst in list(self.due.items()):
            if kk[1] != "A" or not lst:
                continue
            ep = sim.client if kk[0] == "client" else sim.server
            if ep.terminated or self._closing(ep):
                self.due[kk] = []
                continue
            late = [(w, t0) for w, t0 in lst if sim.now - t0 > MAX_ACK_DELAY + EPS]
            if not late:
                continue
            self.due[kk] = [x for x in lst if x not in late]
            path = ep.conn._network_paths[0] if ep.conn._network_paths else None
            if path is not None and not path.is_validated and path.bytes_received * 3 - path.bytes_sent < 100:
                continue                # the anti-amplification limit forbids sending (C13 has priority)
            want, t0 = late[0]
            self._bad("late", f"{ep.name}: ack-eliciting packet {want} (largest) arrived at {t0:.6f}, "
                              f"still unacknowledged at {sim.now:.6f} with every timer honoured")


def advance(sim, dt, oracle=None, max_fires=400):
    """let virtual time pass, firing every endpoint timer exactly when asked.  An
    endpoint whose get_timer() stays in the past after it was served at this very
    instant is not served again until time moves (a real event loop would spin)."""
    target = sim.now + dt
    served = {}
    spins = []
    for _ in range(max_fires):
        best = None
        for ep in sim.endpoints:
            if ep.terminated:
                continue
            t = sim.check_timer(ep)
            if t is None or t > target:
                continue
            if t <= sim.now and served.get(ep.name) == sim.now:
                if ep.name not in spins:
                    spins.append(ep.name)
                continue
            if best is None or t < best[0]:
                best = (t, ep)
        if best is None:
            break
        if best[0] > sim.now:
            sim.now = best[0]
        sim.api(best[1], "handle_timer", now=sim.now)
        sim.transmit(best[1])
        served[best[1].name] = sim.now
        if oracle is not None:
            oracle.overdue(sim)
    sim.now = max(sim.now, target)
    if oracle is not None:
        oracle.overdue(sim)
    return spins


def inject_pn(sim, src, pn, ack_eliciting=True, epoch="ONE_RTT"):
    """the peer sends a packet numbered `pn` (gaps / duplicates / reordering)"""
    payload = b"\x01" if ack_eliciting else b"\x00\x00\x00"
    ok = inject.inject(sim, src, payload, pn=pn, epoch=epoch)
    if pn >= src.conn._packet_number:
        src.conn._packet_number = pn + 1
    return ok


STREAM_FRAMES = ["STREAM", "STREAM_FIN", "RESET_STREAM", "STOP_SENDING", "MAX_STREAM_DATA", "STREAM_DATA_BLOCKED"]


def stream_frame(kind, sid, sent):
    """one stream-addressed frame for stream `sid` on which the sender has sent `sent` bytes so far"""
    if kind == "STREAM":
        return F.enc_stream(sid, sent, b"xy")
    if kind == "STREAM_FIN":
        return F.enc_stream(sid, sent, b"", fin=True)
    if kind == "RESET_STREAM":
        return F.enc_reset_stream(sid, 7, sent)
    if kind == "STOP_SENDING":
        return F.enc_stop_sending(sid, 7)
    if kind == "MAX_STREAM_DATA":
        return F.enc_max_stream_data(sid, 1 << 20)
    return F.put_varint(0x15) + F.put_varint(sid) + F.put_varint(1 << 20)     # STREAM_DATA_BLOCKED


def settle_streams(sim, orc):
    """deliver everything in order, timers honoured, until the network is quiet"""
    for _ in range(60):
        if sim.pending:
            d = sim.pending.pop(0)
            sim.now += 0.0005
            sim.deliver(d)
        else:
            advance(sim, 0.03, orc)
            if not sim.pending:
                return


def stream_lifecycles(sim, r, orc):
    """streams in each state as seen by both endpoints; returns {state: (stream id, bytes the CLIENT sent,
    bytes the SERVER sent)}"""
    c, s = sim.client, sim.server
    st = {}
    # fully finished and discarded: request+FIN, response+FIN, everything acknowledged
    sim.api(c, "send_stream_data", 0, b"req", end_stream=True); sim.transmit(c); settle_streams(sim, orc)
    sim.api(s, "send_stream_data", 0, b"resp", end_stream=True); sim.transmit(s); settle_streams(sim, orc)
    st["discarded"] = (0, 3, 4)
    # open: data both ways, no FIN
    sim.api(c, "send_stream_data", 4, b"abc"); sim.transmit(c); settle_streams(sim, orc)
    sim.api(s, "send_stream_data", 4, b"de"); sim.transmit(s); settle_streams(sim, orc)
    st["open"] = (4, 3, 2)
    # half-closed: the client finished its half
    sim.api(c, "send_stream_data", 8, b"half", end_stream=True); sim.transmit(c); settle_streams(sim, orc)
    st["half_closed"] = (8, 4, 0)
    # reset by the client after some data
    sim.api(c, "send_stream_data", 12, b"zz"); sim.transmit(c); settle_streams(sim, orc)
    sim.api(c, "reset_stream", 12, 9); sim.transmit(c); settle_streams(sim, orc)
    st["reset"] = (12, 2, 0)
    # a server-initiated stream, finished both ways and discarded
    sim.api(s, "send_stream_data", 1, b"push", end_stream=True); sim.transmit(s); settle_streams(sim, orc)
    sim.api(c, "send_stream_data", 1, b"ok", end_stream=True); sim.transmit(c); settle_streams(sim, orc)
    st["discarded_peer_opened"] = (1, 2, 4)
    st["never_opened"] = (20, 0, 0)
    return st


class DoneTagger:
    """marks the datagrams that carry a HANDSHAKE_DONE frame (so that a schedule can lose exactly those)"""

    def __init__(self):
        self.built = {}

    def before_api(self, sim, ep, name, args, kw):
        if name == "datagrams_to_send":
            self.built[ep.name] = []

    def on_packet_built(self, sim, ep, epoch, pn, hdr, payload, outlen):
        done = any(f.get("name") == "HANDSHAKE_DONE" for f in S.parse_payload(payload))
        self.built.setdefault(ep.name, []).append((outlen, epoch, done))

    def on_datagram_sent(self, sim, ep, d):
        q, used, done = self.built.get(ep.name, []), 0, False
        while q and used + q[0][0] <= len(d["data"]):
            n, epoch, dn = q.pop(0)
            used += n
            done = done or dn
            if epoch == "ONE_RTT":
                break
        d["has_done"] = done


def reach_phase(sim, ep, phase):
    """`confirmed`: both sides confirmed.  `complete`: the observed endpoint has completed the handshake
    but every datagram that would confirm it (HANDSHAKE_DONE) is lost, now and later (on a server
    complete and confirmed coincide)"""
    if phase == "complete":
        orig = sim.deliver

        def deliver(d, from_addr=None):
            if d.get("has_done") and d["dst"] is ep:
                sim.log.append(f"lose #{d['id']} (HANDSHAKE_DONE)")
                return
            return orig(d, from_addr)
        sim.deliver = deliver
        for _ in range(200):
            if ep.conn._handshake_complete and ep.peer.conn._handshake_complete and not sim.pending:
                break
            if sim.pending:
                d = sim.pending.pop(0)
                sim.now += 0.001
                sim.deliver(d)
            else:
                advance(sim, 0.05)
        return
    sim.fair_phase(max_steps=200, done=lambda: sim.client.conn._handshake_confirmed
                   and sim.server.conn._handshake_confirmed and not sim.pending)


def run_scenario(seed, observe="server", mode="mixed", steps=120, monitors=()):
    """returns (sim, observer, oracle, stuck_report).  `mode` may carry a handshake phase: `train@complete`"""
    from .impl_ack import AckObserver
    mode, _, phase = mode.partition("@")
    phase = phase or "confirmed"
    obs = AckObserver()
    orc = AckOracle()
    sim = S.Sim(seed, monitors=[DoneTagger(), obs, orc] + list(monitors))
    r = sim.r
    ep = sim.server if observe == "server" else sim.client
    obs.attach(sim, ep)
    peer = ep.peer
    stuck = []
    sim.connect()
    if mode == "handshake":
        orc.timers_honoured = False      # adversarial_step delays timers: soundness and next-transmission only
        for _ in range(steps):
            if not sim.adversarial_step(p_drop=0.2, p_dup=0.15, p_reorder=0.4, p_timer=0.2):
                break
        return sim, obs, orc, []
    reach_phase(sim, ep, phase)
    sim.log.append(f"phase {phase}: {ep.name} complete={ep.conn._handshake_complete} confirmed={ep.conn._handshake_confirmed}")
    sid = {sim.client.name: 0, sim.server.name: 1}
    if mode == "streams":
        # every stream-addressed frame type x stream lifecycle state, alone in a packet that carries a
        # new highest packet number; then virtual time runs to max_ack_delay with every timer honoured
        st = stream_lifecycles(sim, r, orc)
        combos = [(k, state) for state in st for k in STREAM_FRAMES]
        r.shuffle(combos)
        # frames for discarded streams are ignored by the receiver; the others may legitimately end
        # the connection (the real peer object knows nothing of the injected frames), so they come last
        combos.sort(key=lambda c: not c[1].startswith("discarded"))
        for kind, state in combos[:steps or len(combos)]:
            if ep.terminated or peer.terminated or AckOracle._closing(ep) or AckOracle._closing(peer):
                break
            sid, by_client, by_server = st[state]
            sent = by_client if peer is sim.client else by_server
            if state == "never_opened" and peer is sim.server:
                sid = 21                                   # a stream only the injecting side may open
            payload = stream_frame(kind, sid, sent)
            pn = peer.conn._packet_number + r.choice([0, 0, 1])
            inject.inject(sim, peer, payload, pn=pn)
            peer.conn._packet_number = max(peer.conn._packet_number, pn + 1)
            sim.log.append(f"inject {kind} on {state} stream {sid} pn {pn}")
            if r.random() < (0.5 if state.startswith("discarded") else 0.85):
                sim.pending.clear()
            stuck += advance(sim, MAX_ACK_DELAY + 0.005, orc)
            settle_streams(sim, orc)
        return sim, obs, orc, stuck
    if mode == "train":
        # a dense train of ack-eliciting packets: inter-arrival gaps below the receiver's
        # ack delay (1 ms), lasting 2x-4x the advertised max_ack_delay (25 ms); the receiver
        # is idle or has data of its own; its datagrams are delivered or all lost; every
        # timer is fired exactly when get_timer() asks (sub-millisecond clock steps)
        gap = r.choice([0.0001, 0.0002, 0.0005, 0.0005, 0.0009])
        duration = MAX_ACK_DELAY * r.choice([2.0, 2.5, 3.0, 4.0])
        receiver_sends = r.random() < 0.5
        lose_replies = r.random() < 0.5
        stuck += advance(sim, 0.05, orc)
        sim.pending.clear()
        if receiver_sends:
            sim.api(ep, "send_stream_data", sid[ep.name], bytes(r.choice([3000, 40000])))
            sim.transmit(ep)
        t_end = sim.now + duration
        while sim.now < t_end and not (ep.terminated or peer.terminated):
            inject_pn(sim, peer, peer.conn._packet_number + (1 if r.random() < 0.05 else 0))
            if lose_replies:
                sim.pending.clear()
            else:
                while sim.pending:
                    sim.deliver(sim.pending.pop(0))
            stuck += advance(sim, gap, orc)
        stuck += advance(sim, 0.06, orc)
        return sim, obs, orc, stuck
    for _ in range(steps):
        if ep.terminated or peer.terminated:
            break
        x = r.random()
        if mode == "burst":
            # every other packet number, every ACK lost
            base = peer.conn._packet_number + 1
            for i in range(steps * 8):
                stuck += advance(sim, 0.002, orc)
                inject_pn(sim, peer, base + 2 * i)
                sim.pending.clear()
                if ep.raised:
                    break
            stuck += advance(sim, 0.03, orc)
            break
        if x < 0.2:
            who = r.choice([ep, peer])
            sim.api(who, "send_stream_data", sid[who.name], bytes(r.choice([1, 100, 1500, 6000])))
            sim.transmit(who)
        elif x < 0.45 and sim.pending:
            i = r.randrange(len(sim.pending)) if r.random() < 0.4 else 0
            d = sim.pending[i]
            y = r.random()
            if y < 0.25:
                sim.pending.pop(i)                 # lost (ACKs and ACK-of-ACK carriers included)
            elif y < 0.4:
                sim.deliver(d)                     # duplicated
            else:
                sim.pending.pop(i)
                sim.deliver(d)
        elif x < 0.75:
            nxt = peer.conn._packet_number
            pn = nxt + r.choice([0, 0, 1, 2, 5]) if r.random() < 0.75 else max(0, nxt - r.randrange(1, 12))
            inject_pn(sim, peer, pn, ack_eliciting=r.random() < 0.8)
        else:
            stuck += advance(sim, r.choice([0.0, 0.0005, 0.001, 0.001, 0.002, 0.03]), orc)
    stuck += advance(sim, 0.05, orc)
    return sim, obs, orc, stuck
