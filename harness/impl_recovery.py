"""Runs the recovery line protocol against the real QuicPacketRecovery."""
import struct


def fbits(x):
    return str(struct.unpack("<Q", struct.pack("<d", x))[0])


def ofbits(s):
    return struct.unpack("<d", struct.pack("<Q", int(s)))[0]


def _b(x):
    return "1" if x else "0"


def _of(x):
    return "none" if x is None else fbits(x)


class RecoveryImpl:
    def __init__(self):
        from aioquic.quic import recovery, packet_builder, rangeset, packet
        from aioquic import tls
        self.recovery = recovery
        self.pb = packet_builder
        self.rangeset = rangeset
        self.packet = packet
        self.tls = tls
        self.rec = None
        self.cb = []
        self.uid = 0
        self.probes = 0

    def _probe(self):
        self.probes += 1

    def _handler(self, state, uid):
        self.cb.append(f"{uid}:{'A' if state == self.pb.QuicDeliveryState.ACKED else 'L'}")

    def show(self):
        r = self.rec
        cc = r._cc
        sp = " ".join(
            "[" + ",".join(str(k) for k in s.sent_packets.keys()) + "]"
            + f";ae={s.ack_eliciting_in_flight};la={s.largest_acked_packet};lt={_of(s.loss_time)}"
            for s in r.spaces
        )
        cb = ",".join(self.cb)
        self.cb = []
        return (f"bif={cc.bytes_in_flight} cwnd={cc.congestion_window} ss={'none' if cc.ssthresh is None else cc.ssthresh} "
                f"pto={r._pto_count} probes={self.probes} cb=[{cb}] sp={sp} "
                f"rtt={_b(r._rtt_initialized)},{fbits(r._rtt_latest)},{fbits(r._rtt_min)},{fbits(r._rtt_smoothed)},{fbits(r._rtt_variance)} "
                f"pacer={_of(r._pacer.packet_time)},{fbits(r._pacer.bucket_max)}")

    def step(self, line):
        t = line.split()
        op = t[0]
        try:
            if op == "rec.new":
                self.rec = self.recovery.QuicPacketRecovery(
                    congestion_control_algorithm=t[1], initial_rtt=ofbits(t[4]),
                    max_datagram_size=int(t[2]), peer_completed_address_validation=True,
                    send_probe=self._probe)
                self.rec.spaces = [self.recovery.QuicPacketSpace() for _ in range(int(t[3]))]
                self.cb = []
                self.uid = 0
                self.probes = 0
                return "ok | " + self.show()
            if op == "rec.sent":
                uid = self.uid
                self.uid += 1
                sp = int(t[1])
                p = self.pb.QuicSentPacket(
                    epoch=self.tls.Epoch.ONE_RTT, in_flight=t[4] == "1", is_ack_eliciting=t[5] == "1",
                    is_crypto_packet=t[6] == "1", packet_number=int(t[2]),
                    packet_type=self.packet.QuicPacketType.ONE_RTT, sent_time=ofbits(t[7]),
                    sent_bytes=int(t[3]), delivery_handlers=[(self._handler, (uid,))])
                self.rec.on_packet_sent(packet=p, space=self.rec.spaces[sp])
                return "ok | " + self.show()
            if op == "rec.ack":
                rs = self.rangeset.RangeSet()
                if t[2] != "[]":
                    rr = []
                    for part in t[2].split(","):
                        a, b = part.split("-")
                        rr.append(range(int(a), int(b)))
                    # build the range list verbatim (pull_ack_frame builds it by add())
                    rs._RangeSet__ranges = rr
                self.rec.on_ack_received(ack_rangeset=rs, ack_delay=ofbits(t[3]), now=ofbits(t[4]),
                                         space=self.rec.spaces[int(t[1])])
                return "ok | " + self.show()
            if op == "rec.timeout":
                self.rec.on_loss_detection_timeout(now=ofbits(t[1]))
                return "ok | " + self.show()
            if op == "rec.discard":
                sp = int(t[1])
                if sp >= len(self.rec.spaces):
                    raise AssertionError
                self.rec.discard_space(self.rec.spaces[sp])
                return "ok | " + self.show()
            if op == "rec.ldt":
                self.rec.peer_completed_address_validation = t[1] == "1"
                v = self.rec.get_loss_detection_time()
                return f"ok {_of(v)} pto={fbits(self.rec.get_probe_timeout())}"
            return "bad-op"
        except Exception as e:
            return f"err {type(e).__name__} | " + self.show()
