"""C09: monitor that derives, for every public API call made on a real
QuicConnection inside harness/sim.py, the op line of the Lean model
AQ.Model.CloseTimer (prefix `close.`) together with the canonical output line
computed from the real object.

Inputs of a model op are *observations of sub-calls* made while the API call
ran (values `_idle_timeout()` / `get_probe_timeout()` returned, what each packet
of the datagram was, how many events frame handling appended); the compared
outputs are the attributes the property talks about after the call.

Also records a public-API level trace per endpoint for the oracle of
checks/c09.py (which never looks at the model lines).
"""
import struct

from . import frames as F
from . import sim as S


def fbits(x):
    return str(struct.unpack("<Q", struct.pack("<d", float(x)))[0])


def _of(x):
    return "none" if x is None else fbits(x)


def _b(x):
    return "1" if x else "0"


def _hex(s):
    b = s.encode("utf8") if isinstance(s, str) else bytes(s)
    return b.hex() if b else "-"


def _ce(code, ft, reason):
    return f"{int(code)}:{'none' if ft is None else int(ft)}:{_hex(reason)}"


ZERO = fbits(0.0)
K_GRANULARITY = 0.001   # RFC 9002 kGranularity (1 ms)


def base_pto(conn):
    """The probe timeout as the property means it (RFC 9002 section 6.2.1), read
    from the recovery's RTT estimator fields and WITHOUT exponential back-off:
    smoothed_rtt + max(4*rttvar, kGranularity) + max_ack_delay, or 2*initial_rtt
    before the first RTT sample.  Independent of get_probe_timeout()."""
    loss = conn._loss
    if not loss._rtt_initialized:
        return 2 * loss._rtt_initial
    return loss._rtt_smoothed + max(4 * loss._rtt_variance, K_GRANULARITY) + loss.max_ack_delay


def negotiated_idle(conn):
    """RFC 9000 section 10.1: min of both ends' max_idle_timeout, but at least
    three (base) probe timeouts.  Independent of _idle_timeout()."""
    idle = conn._configuration.idle_timeout
    remote = conn._remote_max_idle_timeout
    if remote is not None:
        idle = min(idle, remote)
    return max(idle, 3 * base_pto(conn))


class CSim(S.Sim):
    """Sim whose event draining goes through the monitored API path"""
    drain_p = 1.0

    def _drain_events(self, ep, force=False):
        if not force and self.drain_p < 1.0 and self.r.random() >= self.drain_p:
            return
        while True:
            self._emit("before_api", ep, "next_event", (), {})
            try:
                ev = ep.conn.next_event()
            except Exception as e:  # noqa
                ep.raised.append(("next_event", e))
                self._emit("on_raise", ep, "next_event", (), e)
                self._emit("after_api", ep, "next_event", (), {}, None)
                return
            self._emit("after_api", ep, "next_event", (), {}, ev)
            if ev is None:
                return
            ep.events.append((self.now, ev))
            if type(ev).__name__ == "ConnectionTerminated":
                ep.terminated = True
            self._emit("on_event", ep, ev)

    flip_reserved = False

    def _install_taps(self):
        super()._install_taps()
        from aioquic.quic import crypto as qcrypto
        sim = self
        inner = qcrypto.CryptoPair.encrypt_packet

        def enc(pair, plain_header, plain_payload, packet_number):
            if sim.flip_reserved:
                sim.flip_reserved = False
                h = bytearray(plain_header)
                h[0] |= 0x04 if h[0] & 0x80 else 0x08
                plain_header = bytes(h)
            return inner(pair, plain_header, plain_payload, packet_number)
        qcrypto.CryptoPair.encrypt_packet = enc

    def check_timer(self, ep):
        t = super().check_timer(ep)
        if t is None and getattr(ep, "started", False):
            # "until termination is reported": when no timer is named the
            # termination event must be retrievable right now
            self._drain_events(ep, force=True)
        return t

    def api(self, ep, name, *args, **kw):
        if name in ("connect", "receive_datagram"):
            ep.started = True
        return super().api(ep, name, *args, **kw)


class EpState:
    def __init__(self, ep):
        self.ep = ep
        self.ops = []          # model op lines
        self.outs = []         # canonical output lines from the real object
        self.trace = []        # public-API trace for the oracle
        self.sub = []          # sub-call observations during the current API call
        self.in_api = None
        self.in_close_begin = False
        self.in_payload = False
        self.popped = 0        # events retrieved through next_event
        self.popped_term = 0
        self.loss_fired = 0
        self.close_begin_init = 0
        self.close_pkts = 0
        self.built = []        # packets built during the current API call: (epoch, frames)
        self.auth = []         # packets authenticated during the current API call
        self.pre = {}
        self.unclassified = []
        self.seen_pn = set()   # (space, packet number) of every packet that authenticated
        self.delivered = []    # datagrams handed to receive_datagram, in order


class CloseMonitor:
    def __init__(self):
        self.eps = {}

    # ------------------------------------------------------------ attach
    def attach(self, sim):
        for ep in sim.endpoints:
            st = EpState(ep)
            self.eps[ep.name] = st
            ep.started = False
            self._wrap(sim, ep, st)
            st.rec = RecTap(ep.conn, st)
            role = "client" if ep.is_client else "server"
            st.ops.append(f"close.new {role}")
            st.outs.append("ok | " + self.show(st))

    def _wrap(self, sim, ep, st):
        conn = ep.conn
        from aioquic.quic.connection import QuicConnectionError
        from aioquic.quic.packet import get_retry_integrity_tag

        orig_payload = conn._payload_received

        def payload(context, plain, crypto_frame_required=False):
            st.sub.append(["pl_start", len(conn._events)])
            st.in_payload = True
            st.plain = bytes(plain)
            try:
                res = orig_payload(context, plain, crypto_frame_required=crypto_frame_required)
            except QuicConnectionError as exc:
                st.in_payload = False
                st.sub.append(["pl_end", len(conn._events), (exc.error_code, exc.frame_type, exc.reason_phrase)])
                raise
            except BaseException:
                st.in_payload = False
                st.sub.append(["pl_abort", len(conn._events)])
                raise
            st.in_payload = False
            st.sub.append(["pl_end", len(conn._events), None])
            return res
        conn._payload_received = payload

        handlers = conn._QuicConnection__frame_handlers
        orig_cc = conn._handle_connection_close_frame

        def cc(context, frame_type, buf):
            # independent parse of the frame content (input of the model op)
            content = None
            try:
                data = st.plain
                i = buf.tell()
                code, i = F.get_varint(data, i)
                ft = None
                if frame_type == 0x1C:
                    ft, i = F.get_varint(data, i)
                ln, i = F.get_varint(data, i)
                if i + ln <= len(data):
                    try:
                        reason = data[i:i + ln].decode("utf8")
                    except UnicodeDecodeError:
                        reason = ""
                    content = (code, ft, reason)
            except Exception:  # noqa
                content = None
            if content is not None:
                st.sub.append(["cc", len(conn._events), content])
            return orig_cc(context, frame_type, buf)
        for t in (0x1C, 0x1D):
            handlers[t] = (cc, handlers[t][1])

        orig_vn = conn._receive_version_negotiation_packet

        def vn(header, now):
            ours = conn._version in header.supported_versions
            common = any(x in header.supported_versions for x in conn._configuration.supported_versions)
            st.sub.append(["vn", ours, common])
            return orig_vn(header=header, now=now)
        conn._receive_version_negotiation_packet = vn

        orig_retry = conn._receive_retry_packet

        def retry(header, packet_without_tag, now):
            valid = (header.destination_cid == conn.host_cid and header.integrity_tag ==
                     get_retry_integrity_tag(packet_without_tag, conn._peer_cid.cid, version=header.version))
            st.sub.append(["retry", bool(valid)])
            return orig_retry(header=header, packet_without_tag=packet_without_tag, now=now)
        conn._receive_retry_packet = retry

        orig_init = conn._initialize

        def initialize(peer_cid):
            st.sub.append(["init"])
            st.seen_pn.clear()      # new attempt (Retry / Version Negotiation): fresh packet number spaces
            res = orig_init(peer_cid)
            st.rec.spaces_replaced()
            return res
        conn._initialize = initialize

        orig_idle = conn._idle_timeout

        def idle():
            # the model is fed the negotiated idle timeout computed independently
            # at this very moment, not the value the connection computed
            if st.in_api is not None:
                st.sub.append(["idle", negotiated_idle(conn)])
            return orig_idle()
        conn._idle_timeout = idle

        loss = conn._loss

        orig_ldt = loss.on_loss_detection_timeout

        def ldt(now):
            st.loss_fired += 1
            return orig_ldt(now=now)
        loss.on_loss_detection_timeout = ldt

        orig_cb = conn._close_begin

        def close_begin(is_initiator, now):
            if is_initiator:
                st.close_begin_init += 1
            st.in_close_begin = True
            # the model is fed the base probe timeout computed independently at
            # the moment the closing period starts
            st.sub.append(["pto", base_pto(conn)])
            # product glue: the recovery MODEL's getProbeTimeout at this moment must
            # be the value the close model is fed
            st.rec.probe("pto", fbits(base_pto(conn)))
            try:
                return orig_cb(is_initiator=is_initiator, now=now)
            finally:
                st.in_close_begin = False
        conn._close_begin = close_begin

        orig_close = conn.close

        def close(error_code=0, frame_type=None, reason_phrase=""):
            if st.in_api == "receive_datagram":
                st.sub.append(["close", (error_code, frame_type, reason_phrase)])
            return orig_close(error_code=error_code, frame_type=frame_type, reason_phrase=reason_phrase)
        conn.close = close

    # ---------------------------------------------------------- projection
    def show(self, st):
        c = st.ep.conn
        ev = c._close_event
        evs = "-" if ev is None else _ce(ev.error_code, ev.frame_type, ev.reason_phrase)
        q = len(c._events)
        term = st.popped_term + sum(1 for e in c._events if type(e).__name__ == "ConnectionTerminated")
        return (f"st={c._state.name} ca={_of(c._close_at)} ev={evs} pend={_b(c._close_pending)} "
                f"path={_b(bool(c._network_paths))} q={q} term={term} log={st.popped + q} "
                f"lf={st.loss_fired} cb={st.close_begin_init} cp={st.close_pkts}")

    # --------------------------------------------------------------- hooks
    def on_packet_built(self, sim, ep, epoch, pn, header, payload, size):
        st = self.eps[ep.name]
        frames = S.parse_payload(payload)
        st.built.append((epoch, frames))

    def on_packet_authenticated(self, sim, ep, epoch, pn, header, payload):
        """wire-level fact: a packet authenticated; it is a DUPLICATE when the same
        (packet number space, packet number) authenticated before"""
        st = self.eps[ep.name]
        space = "ONE_RTT" if epoch == "ZERO_RTT" else epoch
        dup = (space, pn) in st.seen_pn
        st.seen_pn.add((space, pn))
        st.auth.append((epoch, S.parse_payload(payload), pn, dup))
        if st.in_api == "receive_datagram":
            st.sub.append(["auth", epoch, pn, dup])

    def on_datagram_delivered(self, sim, ep, d, addr):
        self.eps[ep.name].delivered.append(dict(d))

    def before_api(self, sim, ep, name, args, kw):
        st = self.eps[ep.name]
        st.in_api = name
        st.sub = []
        st.built = []
        st.auth = []
        st.raised = None
        c = ep.conn
        st.pre = {"events": len(c._events)}
        if name == "datagrams_to_send":
            from aioquic import tls
            keys = []
            for e in (tls.Epoch.INITIAL, tls.Epoch.HANDSHAKE, tls.Epoch.ONE_RTT):
                p = c._cryptos.get(e)
                keys.append(bool(p is not None and p.send.is_valid()))
            st.pre.update(hs=c._handshake_confirmed, keys=keys)
        if name == "get_timer":
            st.pre.update(
                acks=[s.ack_at for s in c._loss.spaces],
                loss=c._loss.get_loss_detection_time(),
                pacing=c._pacing_at,
            )
            # product glue: the recovery MODEL's getLossDetectionTime is the `loss`
            # source the close model's get_timer reads
            st.rec.probe("ldt", _of(st.pre["loss"]))
        # for the oracle: probe timeout / negotiated idle timeout from the RTT
        # estimator and the transport parameters (never from the methods under test)
        st.pre["pto"] = base_pto(c)
        st.pre["idle"] = negotiated_idle(c)

    def on_raise(self, sim, ep, name, args, e):
        self.eps[ep.name].raised = e

    def after_api(self, sim, ep, name, args, kw, res):
        st = self.eps[ep.name]
        c = ep.conn
        st.in_api = None
        now = kw.get("now", args[0] if (args and name in ("datagrams_to_send",)) else None)
        pre = "ok" if st.raised is None else f"err {type(st.raised).__name__}"
        line = None
        out = None
        rec = {"api": name, "now": now, "raised": st.raised, "t": sim.now,
               "pto_before": st.pre.get("pto"), "idle_before": st.pre.get("idle")}
        if name == "connect":
            idle = [s[1] for s in st.sub if s[0] == "idle"]
            line = f"close.connect {fbits(kw['now'])} {fbits(idle[0]) if idle else ZERO}"
            out = f"{pre} | "
        elif name == "receive_datagram":
            idle0, toks = self._classify_rx(st)
            line = " ".join([f"close.rx {fbits(kw['now'])} {idle0}"] + toks)
            out = f"{pre} | "
            rec["auth"] = list(st.auth)
            rec["data0"] = bytes(args[0][:5]) if args else b""
        elif name == "close":
            code = kw.get("error_code", 0)
            ft = kw.get("frame_type", None)
            reason = kw.get("reason_phrase", "")
            line = f"close.close {_ce(code, ft, reason).replace(':', ' ')}"
            out = f"{pre} | "
            rec["close"] = (code, ft, reason)
        elif name == "datagrams_to_send":
            ptos = [s[1] for s in st.sub if s[0] == "pto"]
            ndg = len(res or [])
            ncl = sum(1 for _, fr in st.built if any(f.get("type") in (0x1C, 0x1D) for f in fr))
            ndata = len(st.built) - ncl
            st.close_pkts += ncl
            evs = len(c._events) - st.pre["events"]
            k = st.pre["keys"]
            line = (f"close.send {fbits(args[0])} {_b(st.pre['hs'])} {_b(k[0])} {_b(k[1])} {_b(k[2])} "
                    f"{fbits(ptos[0]) if ptos else ZERO} {ndg} {len(st.built)} {evs}")
            out = f"{pre} dg={ndg} cl={ncl} data={ndata} | " if st.raised is None else f"{pre} | "
            rec["built"] = list(st.built)
            rec["ndg"] = ndg
        elif name == "get_timer":
            acks = ",".join(_of(a) for a in st.pre["acks"]) or "[]"
            line = f"close.timer {acks} {_of(st.pre['loss'])} {_of(st.pre['pacing'])}"
            out = f"{pre} {_of(res)} | " if st.raised is None else f"{pre} | "
            rec["ret"] = res
        elif name == "handle_timer":
            line = f"close.fire {fbits(kw['now'])}"
            out = f"{pre} | "
        elif name == "next_event":
            if res is not None:
                st.popped += 1
            if res is None:
                e = "none"
            elif type(res).__name__ == "ConnectionTerminated":
                st.popped_term += 1
                e = "term:" + _ce(res.error_code, res.frame_type, res.reason_phrase)
            else:
                e = "other"
            line = "close.next"
            out = f"{pre} {e} | " if st.raised is None else f"{pre} | "
            rec["ret"] = res
        else:
            # other application calls (writes, pings): not modelled, must not
            # touch the modelled attributes — checked by the next compared line
            rec["state_after"] = c._state.name
            st.trace.append(rec)
            return
        rec["state_after"] = c._state.name
        rec["pto_after"] = None
        rec["pto_after"] = base_pto(c)
        rec["idle_after"] = negotiated_idle(c)
        st.trace.append(rec)
        st.ops.append(line)
        st.outs.append(out + self.show(st))

    # ------------------------------------------------------ classification
    def _classify_rx(self, st):
        """turn the sub-call observations of one receive_datagram into the
        packet tokens of the model op"""
        sub = st.sub
        toks = []
        idle0 = ZERO
        i = 0
        n = len(sub)
        if n and sub[0][0] == "idle":
            idle0 = fbits(sub[0][1])
            i = 1
        pending_init = False
        while i < n:
            k = sub[i][0]
            if k == "init":
                if pending_init:
                    toks.append("drop")
                pending_init = True
                i += 1
            elif k == "auth":
                # harness-derived: a packet whose (space, pn) authenticated before is a
                # duplicate -> the model's dropped packet (never re-arms anything); an
                # `_idle_timeout()` call right after it belongs to no modelled statement
                if sub[i][3]:
                    toks.append("dup")
                    if i + 1 < n and sub[i + 1][0] == "idle":
                        i += 1
                i += 1
            elif k == "vn":
                _, ours, common = sub[i]
                idle = ZERO
                j = i + 1
                # a restart runs _connect: optional "init" and "idle" records
                while j < n and sub[j][0] in ("init", "idle"):
                    if sub[j][0] == "idle":
                        idle = fbits(sub[j][1])
                    j += 1
                toks.append(f"vn,{_b(ours)},{_b(common)},{idle}")
                i = j
            elif k == "retry":
                idle = ZERO
                j = i + 1
                while j < n and sub[j][0] in ("init", "idle"):
                    if sub[j][0] == "idle":
                        idle = fbits(sub[j][1])
                    j += 1
                toks.append(f"retry,{_b(sub[i][1])},{idle}")
                i = j
            elif k == "close":
                # close() called by receive_datagram outside the QuicConnectionError handler
                pending_init = False
                if tuple(sub[i][1]) == (10, 0, "Reserved bits must be zero"):
                    toks.append("rb")
                else:
                    st.unclassified.append(("close", sub[i][1]))
                    toks.append("unclassified")
                i += 1
            elif k == "pl_start":
                pending_init = False
                ev0 = sub[i][1]
                j = i + 1
                cc = None
                pto = ZERO
                end = None
                while j < n:
                    kk = sub[j][0]
                    if kk == "cc" and cc is None:
                        cc = sub[j]
                    elif kk == "pto" and pto == ZERO:
                        pto = fbits(sub[j][1])
                    elif kk in ("pl_end", "pl_abort"):
                        end = sub[j]
                        break
                    j += 1
                if end is None or end[0] == "pl_abort":
                    st.unclassified.append(("payload-abort", None))
                    toks.append("unclassified")
                    return idle0, toks
                ev1 = end[1]
                err = end[2]
                if cc is not None:
                    pre_n = cc[1] - ev0
                    post_n = ev1 - cc[1]
                    pcs = _ce(*cc[2])
                else:
                    pre_n = ev1 - ev0
                    post_n = 0
                    pcs = "-"
                errs = "-" if err is None else _ce(*err)
                j += 1
                if err is not None:
                    # the except handler calls close()
                    if j < n and sub[j][0] == "close":
                        j += 1
                    else:
                        st.unclassified.append(("no-close-after-error", err))
                idle = ZERO
                if j < n and sub[j][0] == "idle":
                    idle = fbits(sub[j][1])
                    j += 1
                toks.append(f"pl,{pre_n},{pcs},{pto},{post_n},{errs},{idle}")
                i = j
            else:
                st.unclassified.append((k, sub[i][1:]))
                i += 1
        if pending_init:
            toks.append("drop")
        return idle0, toks


# ------------------------------------------------------------------ crafting
def vn_datagram(sim, versions):
    """Version Negotiation packet addressed to the client"""
    from aioquic.quic.packet import encode_quic_version_negotiation
    c = sim.client.conn
    return encode_quic_version_negotiation(
        source_cid=c._peer_cid.cid, destination_cid=c.host_cid, supported_versions=list(versions))


def retry_datagram(sim, valid=True):
    from aioquic.quic.packet import encode_quic_retry
    c = sim.client.conn
    odcid = c._peer_cid.cid if valid else bytes(8)
    return encode_quic_retry(
        version=c._version, source_cid=bytes(sim.r.getrandbits(8) for _ in range(8)),
        destination_cid=c.host_cid, original_destination_cid=odcid, retry_token=b"token-c09")


def raw_deliver(sim, dst, data, src=None):
    """hand arbitrary bytes to `dst` as a datagram from its peer's address"""
    src = src or dst.peer
    d = {"id": -2, "src": src, "dst": dst, "data": bytes(data), "to": dst.addr, "from": src.addr,
         "t": sim.now, "injected": True}
    sim.deliver(d)


# ------------------------------------------------ recovery component (product)
class RecTap:
    """Feeds the recovery model (driver prefix `rec.`) from the calls the real
    connection makes on its own QuicPacketRecovery object during the run, so that
    the product CloseTimer x Recovery (AQ.Model.ConnTimers) is compared with the
    real connection: same canonical lines as harness/impl_recovery.py, computed
    from the connection's `_loss` after every observed call."""

    def __init__(self, conn, st):
        from .impl_recovery import RecoveryImpl
        self.fmt = RecoveryImpl()            # canonical `show()` on a given recovery object
        loss = conn._loss
        self.conn, self.loss, self.st = conn, loss, st
        self.fmt.rec = loss
        self.ops, self.outs = [], []
        self.glue = []                       # (index of a rec.ldt line, "ldt"|"pto", bits the close model was fed)
        self.depth = 0
        self.uid = 0
        self.mad = loss.max_ack_delay
        algo = conn._configuration.congestion_control_algorithm
        self.ops.append(f"rec.new {algo} {conn._max_datagram_size} {len(loss.spaces)} "
                        f"{fbits(conn._configuration.initial_rtt)}")
        self.outs.append("ok | " + self.fmt.show())
        tap = self

        orig_probe = loss._send_probe

        def send_probe():
            tap.fmt.probes += 1
            return orig_probe()
        loss._send_probe = send_probe

        def wrap(name, line_of):
            orig = getattr(loss, name)

            def f(*a, **kw):
                if tap.depth:
                    return orig(*a, **kw)
                tap.sync_mad()
                line = line_of(*a, **kw)
                tap.depth += 1
                try:
                    res = orig(*a, **kw)
                except Exception as e:  # noqa
                    tap.emit(line, f"err {type(e).__name__} | " + tap.fmt.show())
                    raise
                finally:
                    tap.depth -= 1
                tap.emit(line, "ok | " + tap.fmt.show())
                return res
            setattr(loss, name, f)

        def sent_line(packet, space):
            uid = tap.uid
            tap.uid += 1
            packet.delivery_handlers.append((tap.fmt._handler, (uid,)))
            return (f"rec.sent {tap.idx(space)} {packet.packet_number} {packet.sent_bytes} "
                    f"{_b(packet.in_flight)} {_b(packet.is_ack_eliciting)} {_b(packet.is_crypto_packet)} "
                    f"{fbits(packet.sent_time)}")

        def ack_line(ack_rangeset, ack_delay, now, space):
            rs = ",".join(f"{r.start}-{r.stop}" for r in ack_rangeset) or "[]"
            return f"rec.ack {tap.idx(space)} {rs} {fbits(ack_delay)} {fbits(now)}"

        wrap("on_packet_sent", sent_line)
        wrap("on_ack_received", ack_line)
        wrap("on_loss_detection_timeout", lambda now: f"rec.timeout {fbits(now)}")
        wrap("discard_space", lambda space: f"rec.discard {tap.idx(space)}")
        wrap("reschedule_data", lambda now: f"rec.resched {fbits(now)}")

    def idx(self, space):
        for i, s in enumerate(self.loss.spaces):
            if s is space:
                return i
        return 99

    def emit(self, line, out):
        self.ops.append(line)
        self.outs.append(out)

    def sync_mad(self):
        if self.loss.max_ack_delay != self.mad:
            self.mad = self.loss.max_ack_delay
            self.emit(f"rec.mad {fbits(self.mad)}", "ok | " + self.fmt.show())

    def spaces_replaced(self):
        self.sync_mad()
        self.emit(f"rec.spaces {len(self.loss.spaces)}", "ok | " + self.fmt.show())

    def probe(self, what, fed_bits):
        """a `rec.ldt` line: the model's loss-detection time / probe timeout vs the real ones"""
        self.sync_mad()
        loss = self.loss
        pv = _b(loss.peer_completed_address_validation)
        self.glue.append((len(self.ops), what, fed_bits))
        self.emit(f"rec.ldt {pv}", f"ok {_of(loss.get_loss_detection_time())} pto={fbits(loss.get_probe_timeout())}")
