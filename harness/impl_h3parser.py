"""Runs the h3./h0./close. line protocol against the real aioquic objects.

`H3Impl.step(line)` returns `(output_line, model_line)`: the model line is the
op line with the ORACLE ANSWERS appended — what pylsqpack, the header
validators and the qlog header encoder answered during this very call, in call
order — which the Lean model consumes instead of re-implementing QPACK.

Import only after `harness.tree.activate()`.
"""
import traceback

QUIRK_FIELDS = [
    "truncatedNoError", "silentFrameNoEnd", "blockedPushAsHeaders", "maxPushIdRaises",
    "settingsBufferRead", "pushPromiseBufferRead", "unblockedKeyError", "logDecode",
]


def _b(x):
    return "1" if x else "0"


def _hx(b):
    return bytes(b).hex() if b else "-"


def _opt(x):
    return "none" if x is None else str(int(x))


def show_headers(hs):
    if not hs:
        return "~"
    return ",".join(f"{_hx(a)}={_hx(b)}" for a, b in hs)


class _Recorder:
    """the list the wrappers append oracle answers to"""
    cur = None


def _rec(tok):
    if _Recorder.cur is not None:
        _Recorder.cur.append(tok)


_patched = False


def _patch_validators():
    """wrap the module-level validators of aioquic.h3.connection (once)"""
    global _patched
    if _patched:
        return
    _patched = True
    from aioquic.h3 import connection as h3c

    def wrap(name, takes_stream):
        real = getattr(h3c, name)

        def wrapper(headers, stream=None):
            try:
                if takes_stream:
                    real(headers, stream)
                else:
                    real(headers)
            except h3c.MessageError:
                _rec("V:i")
                raise
            cl = None
            if takes_stream and stream is not None:
                cl = stream.expected_content_length
            _rec("V:o:" + _opt(cl))

        setattr(h3c, name, wrapper)

    wrap("validate_request_headers", True)
    wrap("validate_response_headers", True)
    wrap("validate_trailers", False)
    wrap("validate_push_promise_headers", False)


class _DecoderProxy:
    def __init__(self, real):
        self.real = real

    def feed_header(self, stream_id, data):
        import pylsqpack
        try:
            r = self.real.feed_header(stream_id, data)
        except pylsqpack.StreamBlocked:
            _rec("D:b")
            raise
        except pylsqpack.DecompressionFailed:
            _rec("D:f")
            raise
        _rec("D:h:" + show_headers(r[1]))
        return r

    def resume_header(self, stream_id):
        import pylsqpack
        try:
            r = self.real.resume_header(stream_id)
        except pylsqpack.DecompressionFailed:
            _rec("R:f")
            raise
        _rec("R:h:" + show_headers(r[1]))
        return r

    def feed_encoder(self, data):
        import pylsqpack
        try:
            r = self.real.feed_encoder(data)
        except pylsqpack.EncoderStreamError:
            _rec("E:e")
            raise
        order = list(set(r))   # the iteration order `for stream_id in unblocked_streams` sees
        _rec("E:u:" + (",".join(str(i) for i in order) if order else "-"))
        return r


class _EncoderProxy:
    def __init__(self, real):
        self.real = real

    def feed_decoder(self, data):
        import pylsqpack
        try:
            self.real.feed_decoder(data)
        except pylsqpack.DecoderStreamError:
            _rec("F:0")
            raise
        _rec("F:1")

    def apply_settings(self, **kw):
        return self.real.apply_settings(**kw)

    def encode(self, stream_id, headers):
        return self.real.encode(stream_id, headers)


class FakeQuic:
    """the QuicConnection surface H3Connection / H0Connection use"""

    def __init__(self, is_client, logging=False, has_dgram=False):
        from aioquic.quic.configuration import QuicConfiguration
        self.closed = None
        self.configuration = QuicConfiguration(is_client=is_client)
        self.sent = []
        self._nb = 0 if is_client else 1
        self._nu = 2 if is_client else 3
        self._quic_logger = None
        if logging:
            from aioquic.quic.logger import QuicLogger
            self._quic_logger = QuicLogger().start_trace(is_client=is_client, odcid=b"")
        self._remote_max_datagram_frame_size = 65536 if has_dgram else None

    def close(self, error_code, reason_phrase=""):
        if self.closed is None:
            self.closed = (int(error_code), reason_phrase)

    def get_next_available_stream_id(self, is_unidirectional=False):
        if is_unidirectional:
            s = self._nu
            self._nu += 4
        else:
            s = self._nb
            self._nb += 4
        return s

    def send_stream_data(self, stream_id, data, end_stream=False):
        self.sent.append((stream_id, bytes(data), end_stream))

    def send_datagram_frame(self, data):
        self.sent.append(("dgram", bytes(data), False))


def innermost_aioquic_function(exc):
    """name of the innermost frame of the traceback that is aioquic code"""
    name = None
    for fs in traceback.extract_tb(exc.__traceback__):
        if "aioquic" in fs.filename.replace("\\", "/").split("/"):
            name = fs.name
    return name or "?"


def show_event(e):
    from aioquic.h3 import events as ev
    if isinstance(e, ev.HeadersReceived):
        return f"hdr sid={e.stream_id} end={_b(e.stream_ended)} push={_opt(e.push_id)} h={show_headers(e.headers)}"
    if isinstance(e, ev.DataReceived):
        return f"data sid={e.stream_id} end={_b(e.stream_ended)} push={_opt(e.push_id)} d={_hx(e.data)}"
    if isinstance(e, ev.PushPromiseReceived):
        return f"pp sid={e.stream_id} push={e.push_id} h={show_headers(e.headers)}"
    if isinstance(e, ev.WebTransportStreamDataReceived):
        return f"wt sid={e.stream_id} end={_b(e.stream_ended)} sess={e.session_id} d={_hx(e.data)}"
    if isinstance(e, ev.DatagramReceived):
        return f"dgram sid={e.stream_id} d={_hx(e.data)}"
    return "?" + type(e).__name__


def show_events(evs):
    return ";".join(show_event(e) for e in evs) if evs else "none"


class H3Impl:
    def __init__(self):
        _patch_validators()
        self.h = None
        self.q = None
        self.h0 = None
        self.h0_client = False
        self.last_exc = None     # (exception, innermost aioquic function) of the last `err`
        self.last_events = []

    # ------------------------------------------------------------ projection
    def show_conn(self):
        h = self.h
        if h._is_done:
            code = self.q.closed[0] if self.q.closed else None
            return f"done=1 code={_opt(code)}"
        from aioquic.h3.connection import HeadersState
        hs = {HeadersState.INITIAL: "i", HeadersState.AFTER_HEADERS: "h", HeadersState.AFTER_TRAILERS: "t"}
        st = []
        for sid in sorted(h._stream):
            s = h._stream[sid]
            st.append(
                f"{sid}:{len(s.buffer)}:{_opt(s.frame_type)}:{_opt(s.frame_size)}:{_b(s.blocked)}:"
                f"{_b(s.receiving_ended)}:{_b(s.sending_ended)}:{hs[s.headers_recv_state]}:{_opt(s.stream_type)}:"
                f"{_opt(s.push_id)}:{_opt(s.session_id)}:{_opt(s.expected_content_length)}:{s.content_length}")
        rs = h._received_settings
        if rs is None:
            rss = "none"
        elif not rs:
            rss = "-"
        else:
            rss = ",".join(f"{int(a)}={int(b)}" for a, b in rs.items())
        return (f"done=0 set={_b(h._settings_received)} rs={rss} ctrl={_opt(h._peer_control_stream_id)} "
                f"enc={_opt(h._peer_encoder_stream_id)} dec={_opt(h._peer_decoder_stream_id)} "
                f"maxpush={_opt(h._max_push_id)} st=[{','.join(st)}]")

    def show_h0(self):
        h = self.h0
        b = ",".join(f"{i}:{_hx(d)}" for i, d in h._buffer.items())
        hr = ",".join(str(i) for i in reversed([k for k, v in h._headers_received.items() if v]))
        return f"buf=[{b}] hr=[{hr}]"

    # ------------------------------------------------------------------ ops
    #: attach a real QuicLoggerTrace to the connection under `h0.new` (set by checks/c16.py; the op line is unchanged)
    h0_logging = False

    def _new(self, is_client, logging, has_dgram):
        from aioquic.h3.connection import H3Connection
        self.q = FakeQuic(is_client, logging, has_dgram)
        self.h = H3Connection(self.q)
        self.h._decoder = _DecoderProxy(self.h._decoder)
        self.h._encoder = _EncoderProxy(self.h._encoder)
        if self.q._quic_logger is not None:
            lg = self.q._quic_logger
            real_h = lg.encode_http3_headers_frame
            real_p = lg.encode_http3_push_promise_frame

            def wrap(real):
                def w(**kw):
                    try:
                        r = real(**kw)
                    except UnicodeDecodeError:
                        _rec("L:0")
                        raise
                    _rec("L:1")
                    return r
                return w
            lg.encode_http3_headers_frame = wrap(real_h)
            lg.encode_http3_push_promise_frame = wrap(real_p)

    def _handle(self, event, line):
        rec = []
        _Recorder.cur = rec
        self.last_exc = None
        try:
            evs = self.h.handle_event(event)
        except Exception as e:  # an exception escaped handle_event
            _Recorder.cur = None
            self.last_exc = (e, innermost_aioquic_function(e))
            self.last_events = []
            return f"err {type(e).__name__}", " ".join([line] + rec)
        _Recorder.cur = None
        self.last_events = evs
        return f"ok {show_events(evs)} | {self.show_conn()}", " ".join([line] + rec)

    def step(self, line):
        """returns (output line, op line for the model)"""
        t = line.split()
        op = t[0]
        from aioquic.quic.events import StreamDataReceived, DatagramFrameReceived, ConnectionIdIssued
        if op == "h3.new":
            self._new(t[1] == "1", t[2] == "1", t[3] == "1")
            return "ok " + self.show_conn(), line
        if op == "h3.data":
            data = b"" if t[2] == "-" else bytes.fromhex(t[2])
            return self._handle(StreamDataReceived(stream_id=int(t[1]), data=data, end_stream=t[3] == "1"), line)
        if op == "h3.datagram":
            data = b"" if t[1] == "-" else bytes.fromhex(t[1])
            return self._handle(DatagramFrameReceived(data=data), line)
        if op == "h3.other":
            return self._handle(ConnectionIdIssued(connection_id=b"12345678"), line)
        if op in ("h3.sendheaders", "h3.senddata"):
            from aioquic.h3.connection import ProtocolError
            self.last_exc = None
            try:
                if op == "h3.sendheaders":
                    self.h.send_headers(int(t[1]), [(b":status", b"200")], end_stream=t[2] == "1")
                else:
                    self.h.send_data(int(t[1]), b"", end_stream=t[2] == "1")
            except ProtocolError as e:
                return f"err H3Error({int(e.error_code)})", line
            except Exception as e:
                self.last_exc = (e, innermost_aioquic_function(e))
                return f"err {type(e).__name__}", line
            return "ok | " + self.show_conn(), line
        if op == "h3.encframe":
            from aioquic.h3.connection import encode_frame
            data = b"" if t[2] == "-" else bytes.fromhex(t[2])
            try:
                return "ok " + _hx(encode_frame(int(t[1]), data)), line
            except ValueError:
                return "err ValueError", line
        if op == "h3.parseframe":
            from aioquic.buffer import Buffer, BufferReadError
            data = b"" if t[1] == "-" else bytes.fromhex(t[1])
            buf = Buffer(data=data)
            try:
                ft = buf.pull_uint_var()
                n = buf.pull_uint_var()
                p = buf.pull_bytes(n)
            except BufferReadError:
                return "ok none", line
            return f"ok {ft} {_hx(p)} {_hx(data[buf.tell():])}", line
        if op == "h0.new":
            from aioquic.h0.connection import H0Connection
            self.h0_client = t[1] == "1"
            self.h0 = H0Connection(FakeQuic(self.h0_client, logging=H3Impl.h0_logging))
            return "ok " + self.show_h0(), line
        if op == "h0.data":
            data = b"" if t[2] == "-" else bytes.fromhex(t[2])
            self.last_exc = None
            try:
                evs = self.h0.handle_event(
                    StreamDataReceived(stream_id=int(t[1]), data=data, end_stream=t[3] == "1"))
            except Exception as e:
                self.last_exc = (e, innermost_aioquic_function(e))
                return f"err {type(e).__name__}", line
            from aioquic.h3 import events as ev
            out = []
            for e in evs:
                if isinstance(e, ev.HeadersReceived):
                    out.append(f"hdr sid={e.stream_id} h={show_headers(e.headers)}")
                else:
                    out.append(f"data sid={e.stream_id} end={_b(e.stream_ended)} d={_hx(e.data)}")
            return f"ok {';'.join(out) if out else 'none'} | {self.show_h0()}", line
        return "bad-op", line


# ----------------------------------------------------------- real transport
class ClosePath:
    """`QuicConnection.close(code, reason)` then `datagrams_to_send` on a real,
    handshaken connection pair (no network: datagrams are handed over directly)"""

    def __init__(self):
        import os
        from aioquic.quic.configuration import QuicConfiguration
        from aioquic.quic.connection import QuicConnection
        from harness import tree
        tests = os.path.join(tree.REPO, "tests")
        self.QuicConfiguration = QuicConfiguration
        self.QuicConnection = QuicConnection
        self.cert = os.path.join(tests, "ssl_cert.pem")
        self.key = os.path.join(tests, "ssl_key.pem")
        self.ca = os.path.join(tests, "pycacert.pem")

    def pair(self, rounds=6):
        cc = self.QuicConfiguration(is_client=True, alpn_protocols=["h3"])
        cc.load_verify_locations(cafile=self.ca)
        sc = self.QuicConfiguration(is_client=False, alpn_protocols=["h3"])
        sc.load_cert_chain(self.cert, self.key)
        client = self.QuicConnection(configuration=cc)
        client._ack_delay = 0
        server = self.QuicConnection(
            configuration=sc, original_destination_connection_id=client.original_destination_connection_id)
        server._ack_delay = 0
        ca, sa = ("1.2.3.4", 1234), ("2.3.4.5", 4433)
        now = 1000.0
        client.connect(sa, now=now)
        if rounds == 0:
            # only the client's first flight reaches the server: the server then owns
            # INITIAL, HANDSHAKE and 1-RTT send keys and coalesces three close packets
            now += 0.01
            for d, _a in client.datagrams_to_send(now=now):
                server.receive_datagram(d, ca, now=now)
            return client, server, now
        for _ in range(rounds):
            now += 0.01
            for d, _a in client.datagrams_to_send(now=now):
                server.receive_datagram(d, ca, now=now)
            for d, _a in server.datagrams_to_send(now=now):
                client.receive_datagram(d, sa, now=now)
        return client, server, now

    V1, V2 = 0x00000001, 0x6B3343CF
    PHASES = ("client-confirmed", "server-confirmed", "client-complete-not-confirmed", "server-early")

    def scenario(self, phase, version=0x00000001, mds=1200):
        """(closer, peer, now) in the given handshake phase.
        client-complete-not-confirmed: the client has finished the handshake (owns 1-RTT keys) but every server
        datagram after that is lost (no HANDSHAKE_DONE): it still owns Handshake keys and coalesces a Handshake and
        a 1-RTT close, while the server has discarded its Handshake keys."""
        cc = self.QuicConfiguration(is_client=True, alpn_protocols=["h3"], max_datagram_size=mds,
                                    original_version=version, supported_versions=[version])
        cc.load_verify_locations(cafile=self.ca)
        sc = self.QuicConfiguration(is_client=False, alpn_protocols=["h3"], max_datagram_size=mds,
                                    original_version=version, supported_versions=[version])
        sc.load_cert_chain(self.cert, self.key)
        client = self.QuicConnection(configuration=cc)
        client._ack_delay = 0
        server = self.QuicConnection(
            configuration=sc, original_destination_connection_id=client.original_destination_connection_id)
        server._ack_delay = 0
        ca, sa = ("1.2.3.4", 1234), ("2.3.4.5", 4433)
        now = 1000.0
        client.connect(sa, now=now)

        def c2s():
            for d, _a in client.datagrams_to_send(now=now):
                server.receive_datagram(d, ca, now=now)

        def s2c(deliver=True):
            for d, _a in server.datagrams_to_send(now=now):
                if deliver:
                    client.receive_datagram(d, sa, now=now)
        if phase == "server-early":
            now += 0.01
            c2s()
            return server, client, now
        if phase == "client-complete-not-confirmed":
            for _ in range(10):
                now += 0.01
                c2s()
                if client._handshake_complete:
                    break
                s2c()
            s2c(deliver=False)          # HANDSHAKE_DONE (and everything else) lost
            assert client._handshake_complete and not client._handshake_confirmed, "phase not reached"
            return client, server, now
        for _ in range(6):
            now += 0.01
            c2s()
            s2c()
        assert client._handshake_confirmed and server._handshake_confirmed
        return (client, server, now) if phase == "client-confirmed" else (server, client, now)

    def close_on_wire(self, phase, version, mds, error_code, reason):
        """close(error_code, reason) on the closer, hand its datagrams to the REAL peer and judge at the receiver:
        plaintext of every packet the peer could decrypt is parsed by harness/frames.py (independent decoder).
        Returns (problem or None, details)."""
        from harness import frames as F
        from aioquic.quic import events as qe
        closer, peer, now = self.scenario(phase, version, mds)
        peer_has_1rtt = False
        try:
            from aioquic import tls
            peer_has_1rtt = peer._cryptos[tls.Epoch.ONE_RTT].recv.is_valid()
        except Exception:
            pass
        seen = []
        real = peer._payload_received

        def tap(context, plain, *a, **kw):
            try:
                fr = F.parse_frames(bytes(plain))
            except F.ParseError as e:
                fr = [{"type": -1, "error": str(e)}]
            for f in fr:
                if f["type"] in (0x1C, 0x1D):
                    seen.append((context.epoch.name, f["type"], f["error_code"], len(f["reason"]), bytes(f["reason"])))
            return real(context, plain, *a, **kw)
        peer._payload_received = tap
        closer.close(error_code=error_code, reason_phrase=reason)
        try:
            out = closer.datagrams_to_send(now=now + 0.1)
        except Exception as e:
            return f"{type(e).__name__} escapes datagrams_to_send (raised in {innermost_aioquic_function(e)})", {}
        sizes = [len(d) for d, _a in out]
        addr = ("9.9.9.9", 999)
        for d, _a in out:
            try:
                peer.receive_datagram(d, addr, now=now + 0.2)
            except Exception as e:
                return f"{type(e).__name__} escapes the peer's receive_datagram on the closing datagram", {}
        term = None
        ev = peer.next_event()
        while ev is not None:
            if isinstance(ev, qe.ConnectionTerminated):
                term = ev
            ev = peer.next_event()
        det = {"datagram_sizes": sizes, "closes_decrypted_by_peer": [(e, hex(t), c, n) for e, t, c, n, _ in seen],
               "peer_has_1rtt_keys": peer_has_1rtt, "peer_state": str(peer._state)}
        problem = None
        if not out:
            problem = "no closing datagram produced"
        elif any(n > mds for n in sizes):
            problem = f"closing datagram of {max(sizes)} bytes exceeds max_datagram_size {mds}"
        elif not seen:
            problem = "the peer could not decrypt any packet carrying a CONNECTION_CLOSE frame"
        elif peer_has_1rtt:
            app = [x for x in seen if x[1] == 0x1D]
            want = reason.encode("utf8")
            if not any(x[2] == error_code for x in app):
                problem = (f"the peer (which owns 1-RTT keys) received no application CONNECTION_CLOSE carrying the "
                           f"error code 0x{error_code:x}")
            elif not all(want.startswith(x[4]) for x in app if x[2] == error_code):
                problem = "the reason phrase received is not a prefix of the one given to close()"
            else:
                try:
                    [x[4].decode("utf8") for x in app]
                except UnicodeDecodeError:
                    problem = "the reason phrase on the wire is not valid UTF-8"
        if problem is None and "DRAINING" not in str(peer._state) and "TERMINATED" not in str(peer._state):
            problem = f"the peer did not enter the draining state (state {peer._state})"
        return problem, det

    def close_with(self, which, error_code, reason, early=False, frame_type=None):
        """returns (None, datagrams) if the close packet was produced, else
        ((exception, function), None)"""
        client, server, now = self.pair(0 if early else 6)
        conn = client if which == "client" else server
        conn.close(error_code=error_code, frame_type=frame_type, reason_phrase=reason)
        try:
            out = conn.datagrams_to_send(now=now + 0.1)
        except Exception as e:
            return (e, innermost_aioquic_function(e)), None
        return None, out
