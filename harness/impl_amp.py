"""`amp.*` line protocol on a real QuicConnection inside harness/sim.py.

Every `receive_datagram` and `datagrams_to_send` call of the observed endpoint
becomes a group of model ops (AQ.Model.Amplification): ledger accounting for a
known / new address, server initialisation, path validation (Handshake packet or
PATH_RESPONSE), promotion, and the send call with the connection state the
budgets are computed from.  After each call the model's path list (address,
bytes_received, bytes_sent, is_validated, order) must equal `_network_paths`, and
the budgets the model computes (`max_flight_bytes`, `max_total_bytes`) must equal
what the real QuicPacketBuilder was given."""

END = ("CLOSING", "DRAINING", "TERMINATED")


def _b(x):
    return "1" if x else "0"


_ACTIVE = []
_ORIG = {}


def _install(obs):
    """one class-level wrapper of QuicPacketBuilder.flush shared by all observers"""
    from aioquic.quic import packet_builder
    cls = packet_builder.QuicPacketBuilder
    if not _ACTIVE:
        orig = cls.flush
        _ORIG["flush"] = orig

        def flush(b):
            for o in _ACTIVE:
                if o.snap is not None and o.snap.get("send"):
                    o.budget = (b.max_flight_bytes, b.max_total_bytes)
            return orig(b)
        cls.flush = flush
    _ACTIVE.append(obs)


def _uninstall(obs):
    from aioquic.quic import packet_builder
    if obs in _ACTIVE:
        _ACTIVE.remove(obs)
        if not _ACTIVE:
            packet_builder.QuicPacketBuilder.flush = _ORIG.pop("flush")


class AmpObserver:
    def __init__(self, role="server"):
        self.role = role
        self.lines = []
        self.expect = []       # None = intermediate op of a group (state not observable there)
        self.ep = None
        self.addr_id = {}
        self.snap = None
        self.budget = None
        self.sends = 0
        self.limited_ping_calls = 0
        self.built_challenges = []     # PATH_CHALLENGE data built in the running send call
        self.challenge_path = {}       # data -> path object it was sent to (the 5 most recent, like _local_challenges)
        self.pkt = None                # packet being processed by receive_datagram
        self.causes = []               # validations the wire justifies in this receive_datagram call
        self.cross_address_responses = 0

    def _aid(self, addr):
        if addr not in self.addr_id:
            self.addr_id[addr] = len(self.addr_id) + 1
        return self.addr_id[addr]

    def show(self):
        ps = self.ep.conn._network_paths
        return "[" + ",".join(f"{self._aid(p.addr)}:{p.bytes_received}:{p.bytes_sent}:{_b(p.is_validated)}" for p in ps) + "]"

    def attach(self, sim, ep):
        from aioquic.quic import packet_builder
        self.ep = ep
        self.lines.append("amp.new")
        self.expect.append("ok | []")
        _install(self)
        conn = ep.conn
        obs = self
        orig_payload = conn._payload_received

        def payload_received(*a, **kw):
            if obs.pkt is not None:
                obs.pkt["processed"] = True
            return orig_payload(*a, **kw)
        conn._payload_received = payload_received

    # ------------------------------------------------------------ wire taps
    def on_packet_built(self, sim, ep, epoch, pn, hdr, payload, outlen):
        if ep is self.ep:
            from . import sim as S
            for f in S.parse_payload(payload):
                if f.get("name") == "PATH_CHALLENGE":
                    self.built_challenges.append(f["data"])

    def _finish_packet(self):
        p, self.pkt = self.pkt, None
        if p is None or not p.get("processed"):
            return                       # dropped (duplicate, undecryptable, ...): validates nothing
        c = self.ep.conn
        for data in p["responses"]:
            target = self.challenge_path.pop(data, None)
            if target is not None:
                self.causes.append((target, "resp"))
                if target.addr != self.snap["addr"]:
                    self.cross_address_responses += 1
        closing = c._close_pending or c._state.name in END
        if p["epoch"] == "HANDSHAKE" and not closing:
            self.causes.append(("arrival", "hs"))

    def on_packet_authenticated(self, sim, ep, epoch, pn, hdr, payload):
        if ep is not self.ep or self.snap is None or not self.snap.get("rx"):
            return
        from . import sim as S
        self._finish_packet()
        self.pkt = {"epoch": epoch, "processed": False,
                    "responses": [f["data"] for f in S.parse_payload(payload) if f.get("name") == "PATH_RESPONSE"]}

    def close(self):
        _uninstall(self)

    def _group(self, ops, final_pre=""):
        for i, op in enumerate(ops):
            self.lines.append(op)
            self.expect.append(f"ok{final_pre} | {self.show()}" if i == len(ops) - 1 else None)

    # ------------------------------------------------------------ monitor API
    def before_api(self, sim, ep, name, args, kw):
        if self.ep is None and ep.name == self.role:
            self.attach(sim, ep)
        if ep is not self.ep:
            return
        c = ep.conn
        if name == "connect":
            self.snap = {"connect": True}
        elif name == "receive_datagram":
            ps = list(c._network_paths)
            self.snap = {"rx": True, "closed": c._state.name in END, "paths": ps,
                         "valid": {id(p): p.is_validated for p in ps}, "addr": args[1], "len": len(args[0])}
        elif name == "datagrams_to_send":
            self.budget = None
            self.built_challenges = []
            self.snap = {"send": True, "closed": c._state.name in END or not c._network_paths,
                         "cwnd": c._loss.congestion_window, "bif": c._loss.bytes_in_flight, "probe": c._probe_pending,
                         "ping": bool(c._ping_pending), "closing": c._close_pending, "mds": c._max_datagram_size}

    def after_api(self, sim, ep, name, args, kw, res):
        if ep is not self.ep or self.snap is None:
            return
        s, self.snap = self.snap, None
        c = ep.conn
        if s.get("connect"):
            # QuicNetworkPath(addr, is_validated=True)
            p = c._network_paths[0]
            self._group([f"amp.rxfirst {self._aid(p.addr)} 0", "amp.validate 0 own"])
            return
        if s.get("rx"):
            self.snap = s
            self._finish_packet()
            self.snap = None
            if s["closed"]:
                self.causes = []
                return
            after = list(c._network_paths)
            before = s["paths"]
            order = list(before)          # the model's list as the ops below transform it
            ops = []
            a = self._aid(s["addr"])
            idx = [i for i, p in enumerate(before) if p.addr == s["addr"]]
            new = [p for p in after if not any(p is q for q in before)]
            if idx:
                ops.append(f"amp.rx {idx[0]} {s['len']}")
            elif not before and len(after) == 1 and new:
                ops.append(f"amp.rxfirst {a} {s['len']}")
                order = [new[0]]
            elif new:
                ops.append(f"amp.rxnew {a} {s['len']} 1")
                order.append(new[0])
            else:
                ops.append(f"amp.rxnew {a} {s['len']} 0")
            # validations: only what the wire justifies (a Handshake packet processed from this
            # address; a PATH_RESPONSE echoing a challenge -> the path the challenge was SENT to)
            arrival = [p for p in order if p.addr == s["addr"]]
            for target, cause in self.causes:
                t = arrival[0] if target == "arrival" and arrival else target
                j = [k for k, p in enumerate(order) if p is t]
                if j:
                    ops.append(f"amp.validate {j[0]} {cause}")
            if after and order and after[0] is not order[0]:
                j = [k for k, p in enumerate(order) if p is after[0]]
                if j:
                    ops.append(f"amp.promote {j[0]}")
            self.causes = []
            self._group(ops)
            return
        if s.get("send"):
            if s["closed"]:
                return
            total = sum(len(d) for d, _ in (res or []))
            for data in self.built_challenges:
                self.challenge_path[data] = c._network_paths[0]
                while len(self.challenge_path) > 5:          # MAX_LOCAL_CHALLENGES
                    del self.challenge_path[next(iter(self.challenge_path))]
            self.built_challenges = []
            mf, mt = self.budget if self.budget is not None else ("?", "?")
            f = lambda x: "none" if x is None else str(x)
            self.sends += 1
            if s["ping"] and not s["probe"] and s["cwnd"] - s["bif"] < s["mds"]:
                self.limited_ping_calls += 1
            self._group([f"amp.send {s['cwnd']} {s['bif']} {_b(s['probe'])} {_b(s['ping'])} {_b(s['closing'])} {s['mds']} {total}"],
                        f" mf={f(mf)} mt={f(mt)}")


def compare(obs, model):
    """first disagreement between the model's output and the connection, or None"""
    for i, (l, m, e) in enumerate(zip(obs.lines, model, obs.expect)):
        if e is not None and m != e:
            return i, l, m, e
    return None
