"""Observation of real `tls.Context` objects for the correspondence with the
generated machine (lean/AQ/Gen/tls_machine.json, Driver/Tls.lean).

One observation = one `handle_message` call with ONE complete handshake message
under `sys.settrace` restricted to the extracted handler functions of tls.py:
  * which handler ran, which `if` bodies / `except` handlers were entered
    (truth of the generated tests), which statement raised;
  * observables: exception class, state change, `update_traffic_key_cb` calls,
    transcript-hash updates (harness-side wrap of update_hash), resumption flag.
The same canonical line is produced by the model (`tls.exec`) from the test
truths and the failing statement; everything else is the model's prediction.
"""
import json
import os
import sys

from . import lean as _lean
from . import tlsdrive as D

IR_PATH = os.path.join(_lean.LEAN, "AQ", "Gen", "tls_machine.json")
_ir = None


def ir():
    global _ir
    if _ir is None:
        _ir = json.load(open(IR_PATH))
        _ir["_callees"] = {}
        for f, steps in _ir["functions"].items():
            _ir["_callees"][f] = [s["act"]["fn"] for s in steps if s["act"]["k"] == "call"]
    return _ir


_hash_log = None
_depth = 0


def tap_hash():
    """record which key schedule every top-level update_hash call goes to"""
    from aioquic import tls
    if getattr(tls.KeySchedule, "_aq_hash_tapped", False):
        return
    for cls in (tls.KeySchedule, tls.KeyScheduleProxy):
        orig = cls.update_hash

        def update_hash(self, data, _orig=orig):
            global _depth
            if _depth == 0 and _hash_log is not None:
                _hash_log.append((self, bytes(data)))
            _depth += 1
            try:
                return _orig(self, data)
            finally:
                _depth -= 1

        cls.update_hash = update_hash
    tls.KeySchedule._aq_hash_tapped = True


class Obs:
    pass


def observe(ctx, data, keytap):
    """run ctx.handle_message(data) for one message; returns an Obs"""
    global _hash_log
    from aioquic import tls
    R = ir()
    inl = R.get("inlined", {})
    traced = (set(R["functions"]) | {h for hs in inl.values() for h in hs}) - {"_check_certificate_verify_signature"}
    fname = tls.__file__
    events = []          # (function, line)

    def local(frame, event, arg):
        if event == "line":
            events.append((frame.f_code.co_name, frame.f_lineno))
        return local

    def tracer(frame, event, arg):
        if event == "call" and frame.f_code.co_filename == fname and \
                (frame.f_code.co_name in traced or frame.f_code.co_name == "_handle_reassembled_message"):
            events.append((frame.f_code.co_name, frame.f_lineno))
            return local
        return None

    o = Obs()
    o.state0 = ctx.state
    o.resumed0 = ctx._session_resumed
    o.attrs0 = {"session_resumed": ctx._session_resumed, "key_schedule_psk_none": ctx._key_schedule_psk is None,
                "certificate_request_none": ctx._certificate_request is None}
    o.rbuf0 = ctx._receive_buffer
    k0 = len(keytap.calls)
    # tests that are conditional EXPRESSIONS (`_set_state(X if c else Y)`) leave no line trace: they
    # only read attributes of the context, so they are evaluated on the context at handler entry
    pre = {}
    for t in R["tests"]:
        if t.get("ifexp"):
            try:
                pre[t["name"]] = bool(eval(t["text"], dict(vars(tls), self=ctx, ssl=__import__("ssl"))))
            except Exception:   # noqa
                pre[t["name"]] = False
    _hash_log = []
    bufs = D.buffers()
    old = sys.gettrace()
    sys.settrace(tracer)
    try:
        try:
            ctx.handle_message(data, bufs)
            o.exc = None
        except BaseException as exc:   # noqa
            o.exc = exc
    finally:
        sys.settrace(old)
    o.out = D.drain(bufs)
    hl, _hash_log = _hash_log, None
    o.state1 = ctx.state
    o.resumed_now = ctx._session_resumed
    o.rbuf1 = ctx._receive_buffer
    o.keys = keytap.names(k0)
    o.hash = []
    for obj, _ in hl:
        if obj is ctx.key_schedule:
            o.hash.append("main")
        elif obj is ctx._key_schedule_psk:
            o.hash.append("psk")
        elif obj is ctx._key_schedule_proxy:
            o.hash.append("proxy")
        else:
            o.hash.append("main")    # the schedule became key_schedule later / was dropped
    o.hashed = [d for _, d in hl]
    o.events = events
    # handler: first traced function entered that is not the dispatcher
    o.fn = next((f for f, _ in events if f != "_handle_reassembled_message"), None)
    o.dispatched = any(f == "_handle_reassembled_message" for f, _ in events)
    # the handler is the first traced function that is one of the extracted handlers
    o.fn = next((f for f, _ in events if f in R["functions"]), None)
    fns = [o.fn] + R["_callees"].get(o.fn, []) if o.fn else []
    for f in list(fns):                      # private helpers inlined into them by the extractor
        fns += [h for h in inl.get(f, []) if h not in fns]
    lines = {f: [l for g, l in events if g == f] for f in fns}
    o.lines = lines

    def truth(t):
        if t.get("ifexp"):
            return pre.get(t["name"], False)
        ls = lines[t["fn"]]
        body = any(t["true_lo"] <= l <= t["true_hi"] for l in ls)
        if not t.get("flipped"):
            return body
        # the named test is the NEGATION of the source test: true iff the `if` was reached and its body skipped
        return (not body) and any(t["line"] <= l < t["true_lo"] for l in ls)
    o.tests = sorted({t["name"] for t in R["tests"] if t["fn"] in lines and truth(t)})
    o.fail = None
    if o.exc is not None and o.fn is not None:
        hev = [(f, l) for f, l in events if f in fns]
        if hev:
            f, l = hev[-1]
            best = None
            cand = [x for g in fns if g in R["functions"] for x in R["functions"][g] if x.get("src", g) == f]
            for s in cand:
                if s["line"] <= l <= s["end"] and (best is None or s["end"] - s["line"] < best["end"] - best["line"]):
                    best = s
            o.fail = best["line"] if best else l
    o.post_assert = bool(o.exc is not None and events and events[-1][0] == "_handle_reassembled_message"
                         and isinstance(o.exc, AssertionError))
    return o


def exc_name(exc):
    from aioquic import tls
    if exc is None:
        return None
    if isinstance(exc, tls.Alert):
        return type(exc).__name__
    return "py"


def impl_line(o):
    st = o.state1.name if o.state1 != o.state0 else "-"
    from aioquic import tls  # noqa
    head = "ok" if o.exc is None else "err " + exc_name(o.exc)
    resumed = 1 if (o.resumed_now and not o.resumed0) else 0
    return (f"{head} | st={st} keys={','.join(o.keys) or '-'} hash={','.join(o.hash) or '-'} resumed={resumed}")


def model_op(o):
    e = exc_name(o.exc) or "-"
    return f"tls.exec {o.fn} {','.join(o.tests) or '-'} {o.fail if o.fail is not None else '-'} {e}"
