"""Independent TLS 1.3 handshake message codec written from RFC 8446 §4 (and
RFC 6066 §3, RFC 7301 §3.1, RFC 9001 §8.2 for the extensions) — shares no code
with aioquic.  Values are plain dicts / tuples.

The decoder is STRICT: every vector must end exactly at its declared length and
every extension body is decoded inside its declared `extension_data` length.
"""


class RefError(Exception):
    pass


# ------------------------------------------------------------------ writer
def u(n, v):
    if not 0 <= v < (1 << (8 * n)):
        raise RefError(f"value {v} does not fit {n} bytes")
    return v.to_bytes(n, "big")


def vec(n, b):
    return u(n, len(b)) + b


def handshake(t, body):
    return bytes([t]) + vec(3, body)


def enc_ext(t, body):
    return u(2, t) + vec(2, body)


EXT = dict(server_name=0, supported_groups=10, signature_algorithms=13, alpn=16, pre_shared_key=41, early_data=42,
           supported_versions=43, psk_key_exchange_modes=45, key_share=51)


def enc_ext_body(msg, name, v):
    """extension_data of a known extension in message kind `msg`"""
    if name == "key_share":
        if msg == "client_hello":
            return vec(2, b"".join(u(2, g) + vec(2, k) for g, k in v))
        return u(2, v[0]) + vec(2, v[1])
    if name == "supported_versions":
        return vec(1, b"".join(u(2, x) for x in v)) if msg == "client_hello" else u(2, v)
    if name in ("signature_algorithms", "supported_groups"):
        return vec(2, b"".join(u(2, x) for x in v))
    if name == "psk_key_exchange_modes":
        return vec(1, bytes(v))
    if name == "server_name":
        return vec(2, b"\x00" + vec(2, v.encode("ascii")))
    if name == "alpn":
        return vec(2, b"".join(vec(1, p.encode("ascii")) for p in v))
    if name == "early_data":
        return b"" if msg != "new_session_ticket" else u(4, v)
    if name == "pre_shared_key":
        if msg == "client_hello":
            ids, binders = v
            return vec(2, b"".join(vec(2, i) + u(4, age) for i, age in ids)) + vec(2, b"".join(vec(1, b) for b in binders))
        return u(2, v)
    raise RefError(name)


def enc_exts(msg, exts):
    """exts: ordered list of (name, value) for known or (int type, bytes) for raw"""
    out = b""
    for k, v in exts:
        out += enc_ext(EXT[k], enc_ext_body(msg, k, v)) if isinstance(k, str) else enc_ext(k, v)
    return vec(2, out)


def encode(msg, d):
    if msg == "client_hello":
        body = u(2, 0x0303) + d["random"] + vec(1, d["session_id"]) + vec(2, b"".join(u(2, c) for c in d["cipher_suites"])) \
            + vec(1, bytes(d["compression"])) + enc_exts(msg, d["extensions"])
        return handshake(1, body)
    if msg == "server_hello":
        body = u(2, 0x0303) + d["random"] + vec(1, d["session_id"]) + u(2, d["cipher_suite"]) + u(1, d["compression"]) \
            + enc_exts(msg, d["extensions"])
        return handshake(2, body)
    if msg == "new_session_ticket":
        body = u(4, d["lifetime"]) + u(4, d["age_add"]) + vec(1, d["nonce"]) + vec(2, d["ticket"]) + enc_exts(msg, d["extensions"])
        return handshake(4, body)
    if msg == "encrypted_extensions":
        return handshake(8, enc_exts(msg, d["extensions"]))
    if msg == "certificate":
        entries = b"".join(vec(3, c) + vec(2, e) for c, e in d["certificates"])
        return handshake(11, vec(1, d["context"]) + vec(3, entries))
    if msg == "certificate_request":
        return handshake(13, vec(1, d["context"]) + enc_exts(msg, d["extensions"]))
    if msg == "certificate_verify":
        return handshake(15, u(2, d["algorithm"]) + vec(2, d["signature"]))
    if msg == "finished":
        return handshake(20, d["verify_data"])
    raise RefError(msg)


# ------------------------------------------------------------------ strict reader
class R:
    def __init__(self, b):
        self.b, self.i = bytes(b), 0

    def take(self, n):
        if self.i + n > len(self.b):
            raise RefError("truncated")
        x = self.b[self.i:self.i + n]
        self.i += n
        return x

    def u(self, n):
        return int.from_bytes(self.take(n), "big")

    def vec(self, n):
        return R(self.take(self.u(n)))

    def end(self):
        if self.i != len(self.b):
            raise RefError("trailing bytes inside a length-delimited field")

    def eof(self):
        return self.i == len(self.b)


def items(r, f):
    out = []
    while not r.eof():
        out.append(f(r))
    return out


KNOWN = {
    "client_hello": {51, 43, 13, 10, 45, 0, 16, 42, 41},
    "server_hello": {43, 51, 41},
    "new_session_ticket": {42},
    "encrypted_extensions": {16, 42},
    "certificate_request": {13},
}
NAME = {v: k for k, v in EXT.items()}


def dec_ext_body(msg, t, r):
    name = NAME[t]
    if name == "key_share":
        if msg == "client_hello":
            v = items(r.vec(2), lambda x: (x.u(2), x.vec(2).b))
        else:
            v = (r.u(2), r.vec(2).b)
    elif name == "supported_versions":
        v = items(r.vec(1), lambda x: x.u(2)) if msg == "client_hello" else r.u(2)
    elif name in ("signature_algorithms", "supported_groups"):
        v = items(r.vec(2), lambda x: x.u(2))
    elif name == "psk_key_exchange_modes":
        v = list(r.vec(1).b)
    elif name == "server_name":
        lst = r.vec(2)
        nt = lst.u(1)
        host = lst.vec(2).b
        lst.end()
        v = (nt, host)
    elif name == "alpn":
        v = items(r.vec(2), lambda x: x.vec(1).b)
    elif name == "early_data":
        v = r.u(4) if msg == "new_session_ticket" else True
    elif name == "pre_shared_key":
        if msg == "client_hello":
            v = (items(r.vec(2), lambda x: (x.vec(2).b, x.u(4))), items(r.vec(2), lambda x: x.vec(1).b))
        else:
            v = r.u(2)
    r.end()          # the body must fill extension_data exactly
    return (name, v)


def dec_exts(msg, r):
    def one(x):
        t = x.u(2)
        body = x.vec(2)
        if t in KNOWN.get(msg, ()):
            return dec_ext_body(msg, t, body)
        return (t, body.b)
    return items(r.vec(2), one)


def decode(b):
    """strict decode of one handshake message -> (kind, dict)"""
    top = R(b)
    t = top.u(1)
    r = top.vec(3)
    top.end()
    if t in (1, 2):
        if r.u(2) != 0x0303:
            raise RefError("legacy_version")
        d = {"random": r.take(32), "session_id": r.vec(1).b}
        if t == 1:
            d["cipher_suites"] = items(r.vec(2), lambda x: x.u(2))
            d["compression"] = list(r.vec(1).b)
            kind = "client_hello"
        else:
            d["cipher_suite"] = r.u(2)
            d["compression"] = r.u(1)
            kind = "server_hello"
        d["extensions"] = dec_exts(kind, r)
    elif t == 4:
        kind = "new_session_ticket"
        d = {"lifetime": r.u(4), "age_add": r.u(4), "nonce": r.vec(1).b, "ticket": r.vec(2).b}
        d["extensions"] = dec_exts(kind, r)
    elif t == 8:
        kind, d = "encrypted_extensions", {"extensions": dec_exts("encrypted_extensions", r)}
    elif t == 11:
        kind = "certificate"
        d = {"context": r.vec(1).b, "certificates": items(r.vec(3), lambda x: (x.vec(3).b, x.vec(2).b))}
    elif t == 13:
        kind = "certificate_request"
        d = {"context": r.vec(1).b}
        d["extensions"] = dec_exts(kind, r)
    elif t == 15:
        kind, d = "certificate_verify", {"algorithm": r.u(2), "signature": r.vec(2).b}
    elif t == 20:
        kind, d = "finished", {"verify_data": r.take(len(r.b))}
    else:
        raise RefError(f"unknown handshake type {t}")
    r.end()
    return kind, d


def extension_spans(b):
    """[(type, offset of the 2-byte extension_data length, declared length)] of the
    extensions block of a handshake message (located by strict structure walking)"""
    kind, _ = decode(b)
    r = R(b)
    r.take(4)
    if kind in ("client_hello", "server_hello"):
        r.take(2 + 32)
        r.vec(1)
        if kind == "client_hello":
            r.vec(2)
            r.vec(1)
        else:
            r.take(3)
    elif kind == "new_session_ticket":
        r.take(8)
        r.vec(1)
        r.vec(2)
    elif kind == "certificate_request":
        r.vec(1)
    elif kind != "encrypted_extensions":
        return kind, []
    total = r.u(2)
    end = r.i + total
    spans = []
    while r.i < end:
        t = r.u(2)
        off = r.i
        n = r.u(2)
        r.take(n)
        spans.append((t, off, n))
    return kind, spans
