"""child process that executes `c.*` cases on the compiled extension (a memory error in the C code
must not take the check down with it).  argv: <tree root> <verif root> <cases.json> <start index>.
Prints `@ <i>` before and `= <json list of output lines>` after each case."""
import json
import signal
import sys

root, verif, cases_file, start = sys.argv[1], sys.argv[2], sys.argv[3], int(sys.argv[4])
sys.path.insert(0, root)
sys.path.insert(1, verif)
import aioquic  # noqa: E402
assert aioquic.__file__.startswith(root), aioquic.__file__
from harness.impl_chelpers import CHelpersImpl  # noqa: E402

cases = json.load(open(cases_file))
w = sys.stdout.write
for i in range(start, len(cases)):
    signal.alarm(20)      # watchdog: a hanging case (corrupted heap dead-locking malloc) kills this child
    w(f"@ {i}\n")
    sys.stdout.flush()
    impl = CHelpersImpl()
    w("= " + json.dumps([impl.step(line) for line in cases[i]]) + "\n")
w("@ done\n")
sys.stdout.flush()
