"""Driving real `aioquic.tls.Context` objects at message level (no QUIC).

* `client()/server()` build contexts the way tests/test_tls.py does
* `Pair` runs a handshake step by step and keeps every handshake message
* `Forger` is a key-holding server: it replays the key schedule of a real
  server context (observed `KeySchedule.extract` inputs) and produces any
  sequence of flight messages with CertificateVerify / Finished recomputed
  over the transcript actually sent.

Import aioquic only after `harness.tree.activate()`.
"""
import os

TESTS = os.path.join(os.environ.get("VERIF_REPO", "/repo"), "tests")
CLIENT_TP = bytes.fromhex("ff0000110031000500048010000000060004801000000007000480100000000400048100000000010002"
                          "4258000800024064000a00010a")
SERVER_TP = bytes.fromhex("ff00001104ff000011004500050004801000000006000480100000000700048010000000040004810000"
                          "0000010002425800020010cd08bbd1c0a4e5ab2bf0cfcb2e2ac5f9000800024064000a00010a")


def _tls():
    from aioquic import tls
    return tls


def buffers(capacity=16384):
    from aioquic.buffer import Buffer
    tls = _tls()
    return {tls.Epoch.INITIAL: Buffer(capacity=capacity), tls.Epoch.HANDSHAKE: Buffer(capacity=capacity),
            tls.Epoch.ONE_RTT: Buffer(capacity=capacity)}


def drain(bufs):
    """returns concatenated output (INITIAL, HANDSHAKE, ONE_RTT order) and resets"""
    out = b"".join(b.data for b in bufs.values())
    for b in bufs.values():
        b.seek(0)
    return out


def split(data):
    """handshake messages of a byte string (type 1, length 3)"""
    res = []
    while len(data) >= 4:
        n = 4 + int.from_bytes(data[1:4], "big")
        res.append(data[:n])
        data = data[n:]
    assert data == b"", "trailing partial message"
    return res


_identity_cache = {}


def server_identity(kind="rsa"):
    """(certificate, chain, key) for the server; the repository's PEM identities are loaded once
    (parsing the RSA key costs ~100 ms)"""
    if kind in ("rsa", "rsa-chain"):
        if kind not in _identity_cache:
            _identity_cache[kind] = _server_identity(kind)
        return _identity_cache[kind]
    return _server_identity(kind)


def _server_identity(kind="rsa"):
    from aioquic.quic.configuration import QuicConfiguration
    import sys
    sys.path.insert(0, TESTS)
    import utils as tutils  # tests/utils.py certificate generators
    from cryptography.hazmat.primitives.asymmetric import ec
    if kind == "rsa":
        c = QuicConfiguration(is_client=False)
        c.load_cert_chain(os.path.join(TESTS, "ssl_cert.pem"), os.path.join(TESTS, "ssl_key.pem"))
        return c.certificate, c.certificate_chain, c.private_key
    if kind == "rsa-chain":
        c = QuicConfiguration(is_client=False)
        c.load_cert_chain(os.path.join(TESTS, "ssl_cert_with_chain.pem"), os.path.join(TESTS, "ssl_key.pem"))
        return c.certificate, c.certificate_chain, c.private_key
    if kind == "ec256":
        cert, key = tutils.generate_ec_certificate(common_name="example.com", alternative_names=["localhost"], curve=ec.SECP256R1)
    elif kind == "ec384":
        cert, key = tutils.generate_ec_certificate(common_name="example.com", alternative_names=["localhost"], curve=ec.SECP384R1)
    elif kind == "ed25519":
        cert, key = tutils.generate_ed25519_certificate(common_name="example.com", alternative_names=["localhost"])
    elif kind == "ed448":
        cert, key = tutils.generate_ed448_certificate(common_name="example.com", alternative_names=["localhost"])
    else:
        raise ValueError(kind)
    return cert, [], key


def pem(cert):
    from cryptography.hazmat.primitives.serialization import Encoding
    return cert.public_bytes(Encoding.PEM)


def client(alpn=None, ident=None, server_name="localhost", **kw):
    """client context; trusts tests/pycacert.pem, or the given self-signed identity"""
    tls = _tls()
    if ident is not None and "cadata" not in kw and "cafile" not in kw:
        kw["cadata"] = pem(ident[0])
    elif "cadata" not in kw and "cafile" not in kw:
        kw["cafile"] = os.path.join(TESTS, "pycacert.pem")
    c = tls.Context(is_client=True, alpn_protocols=alpn, server_name=server_name, **kw)
    c.handshake_extensions = [(tls.ExtensionType.QUIC_TRANSPORT_PARAMETERS, CLIENT_TP)]
    return c


def server(alpn=None, ident=None, request_client_certificate=False, **kw):
    tls = _tls()
    s = tls.Context(is_client=False, alpn_protocols=alpn, max_early_data=0xFFFFFFFF, **kw)
    cert, chain, key = ident if ident is not None else server_identity("rsa")
    s.certificate, s.certificate_chain, s.certificate_private_key = cert, chain, key
    s.handshake_extensions = [(tls.ExtensionType.QUIC_TRANSPORT_PARAMETERS, SERVER_TP)]
    s._request_client_certificate = request_client_certificate
    return s


class KeyTap:
    """records every traffic key released by a context"""

    def __init__(self, ctx):
        self.calls = []
        ctx.update_traffic_key_cb = self

    def __call__(self, direction, epoch, cipher_suite, secret):
        self.calls.append((direction.name, epoch.name, int(cipher_suite), bytes(secret)))

    def names(self, start=0):
        return [f"{d}:{e}" for d, e, _, _ in self.calls[start:]]


_extract_tapped = False


def tap_extract():
    """observe the key material of every KeySchedule.extract (harness-side wrap)"""
    global _extract_tapped
    tls = _tls()
    if getattr(tls.KeySchedule, "_aq_tapped", False):
        return
    orig = tls.KeySchedule.extract

    def extract(self, key_material=None):
        self.__dict__.setdefault("_aq_extracts", []).append(key_material)
        return orig(self, key_material)

    tls.KeySchedule.extract = extract
    tls.KeySchedule._aq_tapped = True


def feed(ctx, data, bufs=None):
    """handle_message; returns (exception or None, output bytes)"""
    bufs = bufs or buffers()
    try:
        ctx.handle_message(data, bufs)
    except BaseException as exc:  # noqa: the caller classifies
        return exc, drain(bufs)
    return None, drain(bufs)


class Pair:
    """a client and a server context plus all messages exchanged so far"""

    def __init__(self, c, s):
        self.c, self.s = c, s
        self.ck, self.sk = KeyTap(c), KeyTap(s)
        self.client_hello = None
        self.server_flight = []     # list of messages
        self.client_flight = []
        self.server_late = []     # what the server sends after the client flight (tickets)

    def hello(self):
        exc, out = feed(self.c, b"")
        assert exc is None, exc
        self.client_hello = out
        return out

    def serve(self, data=None):
        exc, out = feed(self.s, self.client_hello if data is None else data)
        if exc is not None:
            return exc
        self.server_flight = split(out)
        return None

    def run(self):
        """full honest handshake; returns (client exception, server exception)"""
        self.hello()
        e = self.serve()
        if e is not None:
            return None, e
        exc, out = feed(self.c, b"".join(self.server_flight))
        if exc is not None:
            return exc, None
        self.client_flight = split(out)
        exc, out = feed(self.s, out)
        self.server_late = split(out) if exc is None else []
        return None, exc


class Forger:
    """key-holding server adversary for one client: built from a real server
    context that answered the client's hello (tap_extract() must be active
    before the server handled the hello)."""

    def __init__(self, pair, kind_of=None):
        tls = _tls()
        s = pair.s
        self.tls = tls
        self.pair = pair
        self.suite = s.key_schedule.cipher_suite
        self.extracts = list(s.key_schedule.__dict__.get("_aq_extracts", []))
        self.ch = pair.client_hello
        self.sh = pair.server_flight[0]
        self.msgs = {}
        for m in pair.server_flight[1:]:
            self.msgs.setdefault(m[0], m)
        self.resumed = s.session_resumed
        self.key = s.certificate_private_key
        self.sigalg = None
        cv = self.msgs.get(int(tls.HandshakeType.CERTIFICATE_VERIFY))
        if cv is not None:
            self.sigalg = int.from_bytes(cv[4:6], "big")

    def schedule(self):
        """fresh key schedule positioned after ServerHello (handshake secret in place)"""
        tls = self.tls
        ks = tls.KeySchedule(self.suite)
        orig = getattr(tls.KeySchedule.extract, "__wrapped__", None)
        ks.extract(self.extracts[0])
        if self.resumed:
            # the server hashed the hello in two slices; the bytes are the same
            ks.update_hash(self.ch)
        else:
            ks.update_hash(self.ch)
        ks.update_hash(self.sh)
        ks.extract(self.extracts[1])
        return ks

    def flight(self, kinds, cr=None, cert=None):
        """messages for the given HandshakeType sequence; CertificateVerify and
        Finished are recomputed over the transcript sent so far"""
        from aioquic.buffer import Buffer
        tls = self.tls
        HT = tls.HandshakeType
        ks = self.schedule()
        hs_secret = ks.derive_secret(b"s hs traffic")
        out = []
        for k in kinds:
            k = int(k)
            if k == HT.CERTIFICATE_VERIFY:
                if self.key is None or self.sigalg is None:
                    m = self.msgs.get(k) or (bytes([k]) + (4).to_bytes(3, "big") + b"\x08\x04\x00\x00")
                else:
                    sig = self.key.sign(ks.certificate_verify_data(tls.SERVER_CONTEXT_STRING),
                                        *tls.signature_algorithm_params(self.sigalg))
                    b = Buffer(capacity=4096)
                    tls.push_certificate_verify(b, tls.CertificateVerify(algorithm=self.sigalg, signature=sig))
                    m = b.data
            elif k == HT.FINISHED:
                b = Buffer(capacity=256)
                tls.push_finished(b, tls.Finished(verify_data=ks.finished_verify_data(hs_secret)))
                m = b.data
            elif k == HT.CERTIFICATE_REQUEST and cr is not None:
                m = cr
            elif k == HT.CERTIFICATE and cert is not None:
                m = cert
            else:
                m = self.msgs.get(k)
                if m is None:
                    m = minimal(k)
            ks.update_hash(m)
            out.append(m)
        return out


def minimal(t):
    """smallest syntactically plausible message of handshake type t"""
    from aioquic.buffer import Buffer
    tls = _tls()
    HT = tls.HandshakeType
    b = Buffer(capacity=4096)
    if t == HT.CERTIFICATE_REQUEST:
        tls.push_certificate_request(b, tls.CertificateRequest(request_context=b"", signature_algorithms=[0x0804, 0x0403]))
        return b.data
    if t == HT.NEW_SESSION_TICKET:
        tls.push_new_session_ticket(b, tls.NewSessionTicket(ticket_lifetime=60, ticket_age_add=1, ticket_nonce=b"", ticket=b"t" * 8))
        return b.data
    if t == HT.ENCRYPTED_EXTENSIONS:
        tls.push_encrypted_extensions(b, tls.EncryptedExtensions())
        return b.data
    if t == HT.CERTIFICATE:
        tls.push_certificate(b, tls.Certificate(request_context=b"", certificates=[]))
        return b.data
    if t == HT.FINISHED:
        tls.push_finished(b, tls.Finished(verify_data=bytes(32)))
        return b.data
    if t == HT.CERTIFICATE_VERIFY:
        tls.push_certificate_verify(b, tls.CertificateVerify(algorithm=0x0804, signature=bytes(8)))
        return b.data
    if t == HT.KEY_UPDATE:
        return bytes([t, 0, 0, 1, 0])
    return bytes([t, 0, 0, 0])


def digest(c, strict=True):
    """observable + internal state of a tls.Context for "a refused message changes nothing":
    weak   = handshake state and the traffic secrets it holds
    strict = + key-schedule generation / secret, transcript hash(es), pending secrets, negotiated flags,
               peer certificate / certificate request presence, reassembly buffer"""
    d = {"state": c.state.name, "enc_key": c._enc_key, "dec_key": c._dec_key}
    if strict:
        ks = c.key_schedule
        psk = c._key_schedule_psk
        d.update(
            generation=None if ks is None else ks.generation,
            secret=None if ks is None else bytes(ks.secret),
            transcript=None if ks is None else ks.hash.copy().finalize(),
            psk_transcript=None if psk is None else psk.hash.copy().finalize(),
            proxy=c._key_schedule_proxy is not None,
            next_dec_key=getattr(c, "_next_dec_key", None),
            resumed=c._session_resumed, early_data=c.early_data_accepted, alpn=c.alpn_negotiated,
            peer_certificate=c._peer_certificate is not None, certificate_request=c._certificate_request is not None,
            receive_buffer=bytes(c._receive_buffer),
        )
    return d


def digest_diff(a, b):
    return sorted(k for k in a if a[k] != b.get(k))
