"""Derives, from a harness/sim.py run of two real QuicConnections, the op
sequence of the Lean model AQ.StreamSys (one instance per *directed* stream
(sender endpoint, stream id)) together with the canonical output line the
model must print for every op, projected from the real objects at the moment
the real code performed the step.

Observation points (all harness-side, no source modification):
  * sim taps: after_api / on_raise (send_stream_data, reset_stream,
    datagrams_to_send), on_packet_built / on_packet_authenticated (payload
    parsed by harness/frames.py)
  * class-level wrappers installed for the lifetime of a `Tracer`:
      QuicConnection._write_stream_frame        -> emit  (space, max_offset it saw)
      QuicConnection._write_reset_stream_frame  -> emitReset
      QuicConnection._payload_received          -> which packet is being processed
      QuicConnection._handle_stream_frame       -> deliver i
      QuicConnection._handle_reset_stream_frame -> deliverReset j
      QuicStreamSender.get_frame / get_reset_frame (returned frame)
      QuicStreamSender.on_data_delivery         -> ackFrame i / loseFrame i
      QuicStreamSender.on_reset_delivery        -> ackReset / loseReset
Every STREAM / RESET_STREAM frame found on the wire (independent parser) must
be exactly the frame the wrapped `_write_*` call produced, in order; every
delivery report must name an emitted frame not yet reported.  Anything else is
recorded in `Tracer.problems` (a correspondence failure, not a property verdict).
"""
import collections

from . import frames as F


def _b(x):
    return "1" if x else "0"


def _hx(b):
    return bytes(b).hex() if b else "-"


def _rg(rs):
    return "[" + ",".join(f"{r.start}-{r.stop}" for r in rs) + "]"


def _opt(x):
    return "none" if x is None else str(x)


def show_send(s):
    return (f"empty={_b(s.buffer_is_empty)} hi={s.highest_offset} fin={_b(s.is_finished)} "
            f"rp={_b(s.reset_pending)} next={s.next_offset} start={s._buffer_start} stop={s._buffer_stop} "
            f"bfin={_opt(s._buffer_fin)} pend={_rg(list(s._pending))} peof={_b(s._pending_eof)} "
            f"acked={_rg(list(s._acked))} afin={_b(s._acked_fin)}")


def show_recv(r):
    if r is None:
        return "hi=0 fin=0 start=0 fs=none rg=[] buflen=0"
    return (f"hi={r.highest_offset} fin={_b(r.is_finished)} start={r._buffer_start} "
            f"fs={_opt(r._final_size)} rg={_rg(list(r._ranges))} buflen={len(r._buffer)}")


class Trace:
    """one directed stream"""

    def __init__(self, src, sid, sender):
        self.src = src                # sending Endpoint
        self.dst = src.peer
        self.sid = sid
        self.sender = sender          # QuicStreamSender object
        self.receiver = None          # QuicStreamReceiver object once it exists
        self.lines = []
        self.expect = []
        self.emissions = []           # dict(offset, data, fin, state)
        self.resets = []              # dict(final, state)
        self.gone = False
        self.sgone = False
        self.tracer = None
        self.nbytes = 0
        self.ends = 0
        self.reset_events = 0
        self.flags = set()

    def recv_obj(self):
        if self.receiver is None:
            st = self.dst.conn._streams.get(self.sid)
            if st is not None:
                self.receiver = st.receiver
        return self.receiver

    def state(self):
        return (f"S[{show_send(self.sender)}] R[{show_recv(self.recv_obj())} gone={_b(self.gone)}] sgone={_b(self.sgone)} "
                f"wire={len(self.emissions)} rwire={len(self.resets)} bytes={self.nbytes} "
                f"ends={self.ends} resets={self.reset_events}")

    def op(self, line, head):
        self.lines.append(line)
        self.expect.append(f"{head} | {self.state()}")
        if self.tracer is not None:
            self.tracer.table_op(self, line, head)


class Tracer:
    """sim monitor + wrappers; use as a context manager around Sim creation/run"""

    def __init__(self):
        self.traces = {}              # (src name, sid) -> Trace
        self.by_sender = {}           # id(sender obj) -> Trace
        self.problems = []
        self.pending_emit = collections.defaultdict(list)   # ep name -> [(kind, trace, idx)]
        self.pkt = {}                 # (src name, epoch, pn) -> [(kind, trace, idx)]
        self.last_auth = {}           # ep name -> (epoch, pn, payload)
        self.cur = {}                 # ep name -> deque of (kind, trace, idx)
        self.raised = None
        self.sim = None
        self._saved = []
        self._getframe = None
        self._getreset = None
        self.tab_lines = ["tab.new"]      # op lines of the stream-table model (AQ.StreamTable)
        self.tab_expect = ["ok | qC=[] qS=[] fC=[] fS=[]"]
        self.serve = {}                   # ep name -> record of the stream-loop run in progress
        self.in_app = set()               # connections inside _write_application

    # ------------------------------------------------------- stream-table log
    def table_state(self):
        c, sv = self.sim.client.conn, self.sim.server.conn
        ids = lambda l: "[" + ",".join(str(x) for x in l) + "]"
        return (f"qC={ids([st.stream_id for st in c._streams_queue])} qS={ids([st.stream_id for st in sv._streams_queue])} "
                f"fC={ids(sorted(c._streams_finished))} fS={ids(sorted(sv._streams_finished))}")

    def table_op(self, t, line, head):
        w = line.split()
        src, dst = _b(t.src.is_client), _b(t.dst.is_client)
        if w[0] == "sys.write":
            tl = f"tab.api {src} {t.sid} write {w[1]} {w[2]}"
        elif w[0] == "sys.reset":
            tl = f"tab.api {src} {t.sid} reset {w[1]}"
        elif w[0] == "sys.deliver":
            tl = f"tab.arrive {dst} {t.sid} frame {w[1]}"
        elif w[0] == "sys.deliverreset":
            tl = f"tab.arrive {dst} {t.sid} reset {w[1]}"
        elif w[0] in ("sys.ack", "sys.lose"):
            tl = f"tab.report {src} {t.sid} {w[0][4:]} {w[1]}"
        elif w[0] in ("sys.ackreset", "sys.losereset"):
            tl = f"tab.report {src} {t.sid} {w[0][4:]} 0"
        else:
            return                        # emit / emitreset / discards happen inside `tab.serve`
        self.tab_lines.append(tl)
        self.tab_expect.append(f"{head} | {self.table_state()}")

    def serve_begin(self, conn):
        ep = self.ep_of(conn)
        self.serve[ep.name] = {"ep": ep, "iter": [], "inputs": [], "sent": []}

    def serve_end(self, conn):
        ep = self.ep_of(conn)
        r = self.serve.pop(ep.name, None)
        if r is None:
            return
        after = [st.stream_id for st in conn._streams_queue]
        tail = after[len(after) - len(r["sent"]):] if r["sent"] else []
        if sorted(tail) != sorted(r["sent"]):
            self.problems.append(f"{ep.name}: served streams {r['sent']} are not the tail of the rebuilt queue {after}")
        inp = ",".join(f"{i}:{sp}:{mo}" for i, sp, mo in r["inputs"]) or "-"
        tl = ",".join(str(x) for x in tail) or "-"
        self.tab_lines.append(f"tab.serve {_b(ep.is_client)} {len(r['iter'])} {inp} {tl}")
        self.tab_expect.append(f"ok | {self.table_state()}")

    # --------------------------------------------------------------- install
    def __enter__(self):
        from aioquic.quic import connection as C
        from aioquic.quic import stream as S
        from aioquic.quic.packet_builder import QuicDeliveryState, QuicPacketBuilderStop
        from aioquic.quic.stream import StreamFinishedError

        tr = self
        self.ACKED = QuicDeliveryState.ACKED

        def patch(cls, name, make):
            orig = getattr(cls, name)
            self._saved.append((cls, name, orig))
            setattr(cls, name, make(orig))

        def mk_write_stream_frame(orig):
            def w(conn, builder, space, stream, max_offset):
                t = tr.trace_of_sender(conn, stream)
                sp = builder.remaining_flight_space
                tr._getframe = None
                rec = tr.serve.get(tr.ep_of(conn).name)
                if rec is not None:
                    rec["inputs"].append((stream.stream_id, sp, max_offset))
                try:
                    used = orig(conn, builder, space, stream, max_offset)
                    if rec is not None and used > 0:
                        rec["sent"].append(stream.stream_id)
                except QuicPacketBuilderStop:
                    fr = tr._getframe
                    if fr is not None:
                        t.op(f"sys.emit {sp} {max_offset}",
                             f"err QuicPacketBuilderStop taken off={fr.offset} data={_hx(fr.data)} fin={_b(fr.fin)}")
                        t.flags.add("frame-taken-then-builder-stop")
                    else:
                        t.op(f"sys.emit {sp} {max_offset}", "err QuicPacketBuilderStop")
                    raise
                fr = tr._getframe
                if fr is None:
                    t.op(f"sys.emit {sp} {max_offset}", f"ok none used={used}")
                    t.flags.add("emit-none")
                else:
                    t.emissions.append({"offset": fr.offset, "data": bytes(fr.data), "fin": fr.fin, "state": "out"})
                    tr.pending_emit[tr.ep_of(conn).name].append(("S", t, len(t.emissions) - 1))
                    t.op(f"sys.emit {sp} {max_offset}",
                         f"ok off={fr.offset} data={_hx(fr.data)} fin={_b(fr.fin)} used={used}")
                    if not fr.data:
                        t.flags.add("fin-only-frame")
                return used
            return w

        def mk_write_reset(orig):
            def w(conn, builder, stream):
                t = tr.trace_of_sender(conn, stream)
                tr._getreset = None
                orig(conn, builder, stream)     # start_frame raises before the sender is touched
                fr = tr._getreset
                t.resets.append({"final": fr.final_size, "state": "out"})
                tr.pending_emit[tr.ep_of(conn).name].append(("R", t, len(t.resets) - 1))
                t.op("sys.emitreset", f"ok final={fr.final_size}")
                t.flags.add("reset-frame")
            return w

        def mk_get_frame(orig):
            def w(sender, max_size, max_offset=None):
                fr = orig(sender, max_size, max_offset)
                if sender._stream_id is not None:
                    tr._getframe = fr
                return fr
            return w

        def mk_get_reset_frame(orig):
            def w(sender):
                fr = orig(sender)
                tr._getreset = fr
                return fr
            return w

        def mk_on_data_delivery(orig):
            def w(sender, delivery, start, stop, fin):
                t = tr.by_sender.get(id(sender))
                if t is None:
                    return orig(sender, delivery, start, stop, fin)
                idx = None
                for i, e in enumerate(t.emissions):
                    if e["state"] == "out" and e["offset"] == start and e["offset"] + len(e["data"]) == stop \
                            and e["fin"] == fin:
                        idx = i
                        break
                if idx is None:
                    tr.problems.append(f"{t.src.name}/{t.sid}: delivery report ({delivery.name},{start},{stop},{fin}) "
                                       f"names no outstanding emitted frame")
                    return orig(sender, delivery, start, stop, fin)
                acked = delivery == tr.ACKED
                t.emissions[idx]["state"] = "acked" if acked else "lost"
                t.flags.add("ack" if acked else "loss")
                line = f"sys.ack {idx}" if acked else f"sys.lose {idx}"
                try:
                    res = orig(sender, delivery, start, stop, fin)
                except Exception as e:  # noqa
                    t.op(line, f"err {type(e).__name__}")
                    raise
                t.op(line, "ok")
                return res
            return w

        def mk_on_reset_delivery(orig):
            def w(sender, delivery):
                t = tr.by_sender.get(id(sender))
                res = orig(sender, delivery)
                if t is not None:
                    acked = delivery == tr.ACKED
                    for e in t.resets:
                        if e["state"] == "out":
                            e["state"] = "acked" if acked else "lost"
                            break
                    else:
                        tr.problems.append(f"{t.src.name}/{t.sid}: RESET delivery report without outstanding RESET frame")
                    t.op("sys.ackreset" if acked else "sys.losereset", "ok")
                return res
            return w

        def mk_payload_received(orig):
            def w(conn, context, plain, *a, **kw):
                ep = tr.ep_of(conn)
                la = tr.last_auth.get(ep.name)
                q = collections.deque()
                if la is None or la[2] != bytes(plain):
                    tr.problems.append(f"{ep.name}: payload processed that is not the last authenticated one")
                else:
                    key = (ep.peer.name, la[0], la[1])
                    ent = tr.pkt.get(key)
                    if ent is None:
                        if any(f["name"] in ("STREAM", "RESET_STREAM") for f in _parse(plain)):
                            tr.problems.append(f"{ep.name}: processed packet {key} with stream frames never seen built")
                    else:
                        q.extend(ent)
                tr.cur[ep.name] = q
                return orig(conn, context, plain, *a, **kw)
            return w

        def mk_handle_stream_frame(orig):
            def w(conn, context, frame_type, buf):
                ep = tr.ep_of(conn)
                q = tr.cur.get(ep.name)
                ent = q.popleft() if q else None
                if ent is None or ent[0] != "S":
                    tr.problems.append(f"{ep.name}: _handle_stream_frame without a matching emitted STREAM frame")
                    return orig(conn, context, frame_type, buf)
                _, t, idx = ent
                n0 = len(conn._events)
                line = f"sys.deliver {idx}"
                try:
                    orig(conn, context, frame_type, buf)
                except StreamFinishedError:
                    t.op(line, "ok ignored")
                    t.flags.add("ignored-after-discard")
                    raise
                except C.QuicConnectionError as e:
                    t.op(line, f"err QuicConnectionError({int(e.error_code)})")
                    raise
                evs = list(conn._events)[n0:]
                if len(evs) > 1:
                    tr.problems.append(f"{ep.name}: one STREAM frame produced {len(evs)} events")
                if not evs:
                    t.op(line, "ok none")
                else:
                    ev = evs[0]
                    t.nbytes += len(ev.data)
                    if ev.end_stream:
                        t.ends += 1
                    t.op(line, f"ok data={_hx(ev.data)} end={_b(ev.end_stream)}")
                if t.emissions[idx].get("delivered"):
                    t.flags.add("frame-delivered-again")
                t.emissions[idx]["delivered"] = True
            return w

        def mk_handle_reset_stream_frame(orig):
            def w(conn, context, frame_type, buf):
                ep = tr.ep_of(conn)
                q = tr.cur.get(ep.name)
                ent = q.popleft() if q else None
                if ent is None or ent[0] != "R":
                    tr.problems.append(f"{ep.name}: _handle_reset_stream_frame without a matching emitted RESET frame")
                    return orig(conn, context, frame_type, buf)
                _, t, idx = ent
                line = f"sys.deliverreset {idx}"
                n0 = len(conn._events)
                try:
                    orig(conn, context, frame_type, buf)
                except StreamFinishedError:
                    t.op(line, "ok ignored")
                    raise
                except C.QuicConnectionError as e:
                    t.op(line, f"err QuicConnectionError({int(e.error_code)})")
                    raise
                if len(conn._events) > n0:
                    t.reset_events += 1
                t.op(line, "ok reset")
                t.flags.add("reset-delivered")
            return w

        from aioquic.quic import packet_builder as PB
        tr.cur_app_conn = None

        def mk_write_application(orig):
            def w(conn, builder, network_path, now):
                tr.cur_app_conn = conn
                try:
                    return orig(conn, builder, network_path, now)
                finally:
                    tr.cur_app_conn = None
                    tr.serve_end(conn)
            return w

        def mk_start_packet(orig):
            def w(builder, packet_type, crypto):
                conn = tr.cur_app_conn
                if conn is not None:
                    tr.serve_end(conn)
                orig(builder, packet_type, crypto)
                if conn is not None:
                    tr.serve_begin(conn)      # the stream loop of this while-iteration follows
            return w

        def mk_is_finished(orig):
            def fget(stream):
                conn = tr.cur_app_conn
                if conn is not None and stream.stream_id is not None:
                    rec = tr.serve.get(tr.ep_of(conn).name)
                    if rec is not None:
                        rec["iter"].append(stream.stream_id)
                return orig.fget(stream)
            return property(fget)

        patch(C.QuicConnection, "_write_application", mk_write_application)
        patch(PB.QuicPacketBuilder, "start_packet", mk_start_packet)
        patch(S.QuicStream, "is_finished", mk_is_finished)
        patch(C.QuicConnection, "_write_stream_frame", mk_write_stream_frame)
        patch(C.QuicConnection, "_write_reset_stream_frame", mk_write_reset)
        patch(C.QuicConnection, "_payload_received", mk_payload_received)
        patch(C.QuicConnection, "_handle_stream_frame", mk_handle_stream_frame)
        patch(C.QuicConnection, "_handle_reset_stream_frame", mk_handle_reset_stream_frame)
        patch(S.QuicStreamSender, "get_frame", mk_get_frame)
        patch(S.QuicStreamSender, "get_reset_frame", mk_get_reset_frame)
        patch(S.QuicStreamSender, "on_data_delivery", mk_on_data_delivery)
        patch(S.QuicStreamSender, "on_reset_delivery", mk_on_reset_delivery)
        return self

    def __exit__(self, *a):
        for cls, name, orig in reversed(self._saved):
            setattr(cls, name, orig)
        self._saved = []
        return False

    # --------------------------------------------------------------- helpers
    def ep_of(self, conn):
        for ep in self.sim.endpoints:
            if ep.conn is conn:
                return ep
        raise KeyError("unknown connection")

    def trace_of_sender(self, conn, stream):
        t = self.by_sender.get(id(stream.sender))
        if t is None:
            t = self.new_trace(self.ep_of(conn), stream.stream_id, stream.sender)
        return t

    def new_trace(self, ep, sid, sender):
        t = Trace(ep, sid, sender)
        t.tracer = self
        self.traces[(ep.name, sid)] = t
        self.by_sender[id(sender)] = t
        t.op(f"sys.new {sid} 0 0 0", "ok")
        return t

    # ---------------------------------------------------------- sim monitor
    def before_api(self, sim, ep, name, args, kw):
        self.sim = sim
        self.raised = None

    def on_raise(self, sim, ep, name, args, exc):
        self.raised = exc

    def after_api(self, sim, ep, name, args, kw, res):
        self.sim = sim
        if name in ("send_stream_data", "reset_stream"):
            sid = args[0]
            st = ep.conn._streams.get(sid)
            if st is None:
                t = self.traces.get((ep.name, sid))
                if t is None or sid not in ep.conn._streams_finished:
                    return
            else:
                t = self.by_sender.get(id(st.sender))
                if t is None:
                    old = self.traces.get((ep.name, sid))
                    if old is not None:
                        self.problems.append(f"{ep.name}/{sid}: the stream object was re-created by {name}")
                        return
                    t = self.new_trace(ep, sid, st.sender)
            if name == "send_stream_data":
                data = args[1]
                fin = kw.get("end_stream", args[2] if len(args) > 2 else False)
                line = f"sys.write {_hx(data)} {_b(fin)}"
            else:
                line = f"sys.reset {args[1]}"
                t.flags.add("reset")
            if self.raised is not None:
                t.op(line, f"err {type(self.raised).__name__}")
            else:
                t.op(line, "ok")
        elif name == "datagrams_to_send":
            # streams discarded by the stream loop of _write_application
            fin = ep.conn._streams_finished
            for t in self.traces.values():
                if t.dst is ep and not t.gone and t.sid in fin:
                    t.recv_obj()
                    t.gone = True
                    t.op("sys.discard", "ok")
                    t.flags.add("discard")
                if t.src is ep and not t.sgone and t.sid in fin:
                    t.sgone = True
                    t.op("sys.senddiscard", "ok")
                    t.flags.add("send-discard")

    def on_packet_built(self, sim, ep, epoch, pn, header, payload, size):
        self.sim = sim
        ents = self.pending_emit[ep.name]
        self.pending_emit[ep.name] = []
        wire = [f for f in _parse(payload) if f["name"] in ("STREAM", "RESET_STREAM")]
        ok = len(wire) == len(ents)
        if ok:
            for f, (kind, t, idx) in zip(wire, ents):
                if kind == "S":
                    e = t.emissions[idx]
                    ok = ok and f["name"] == "STREAM" and f["stream_id"] == t.sid and f["offset"] == e["offset"] \
                        and f["data"] == e["data"] and f["fin"] == e["fin"]
                else:
                    e = t.resets[idx]
                    ok = ok and f["name"] == "RESET_STREAM" and f["stream_id"] == t.sid and f["final_size"] == e["final"]
        if not ok:
            self.problems.append(
                f"{ep.name}: packet {epoch}/{pn} carries {[(f['name'], f.get('stream_id'), f.get('offset'), len(f.get('data', b'')), f.get('fin')) for f in wire]} "
                f"but the wrapped _write_* calls produced {[(k, t.sid, i) for k, t, i in ents]}")
        self.pkt[(ep.name, epoch, pn)] = ents

    def on_packet_authenticated(self, sim, ep, epoch, pn, header, payload):
        self.sim = sim
        self.last_auth[ep.name] = (epoch, pn, bytes(payload))

    def finish(self):
        """frames taken from a sender that never appeared in a packet"""
        for name, ents in self.pending_emit.items():
            if ents:
                self.problems.append(f"{name}: {len(ents)} frame(s) taken from the sender were never put in a packet")


def _parse(payload):
    try:
        return F.parse_frames(payload)
    except F.ParseError as e:
        return [{"name": "UNPARSEABLE", "error": str(e)}]
