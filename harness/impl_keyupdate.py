"""Key-update correspondence for the model AQ.KeyUpdate (driver prefix `ku.`).

Two levels, both on the real code:
  * `PairImpl`  – two real `CryptoPair`s (client/server 1-RTT secrets), the op
    lines `ku.request x` (= `update_key()`), `ku.send x a` (real
    `encrypt_packet`), `ku.deliver i` (real `decrypt_packet` on the bytes of
    packet i, CryptoError = rejected).  Model run with `ku.pnew` (no
    connection-level guard).
  * `KeyTracer` – a harness/sim.py monitor + wrappers on
    `CryptoPair.encrypt_packet` / `decrypt_packet` deriving, from two real
    QuicConnections under an adversarial network, the op sequence
    (`request_key_update()` calls, every 1-RTT packet built, every 1-RTT packet
    handed to `decrypt_packet`) and the canonical state
    (generations, `_update_key_requested`, key_phase, `_key_update_pn`,
    `_packet_number`, `largest_acked_packet`, `largest_received_packet`).
Key generations of the real objects are identified by their secret: generation
n is the n-th element of the HKDF "quic ku" chain of the initial secret.
"""
import os


def _b(x):
    return "1" if x else "0"


def _opt(x):
    return "none" if x is None else str(x)


class Chain:
    """secret -> generation index (lazy HKDF chain from a base secret)"""

    def __init__(self, cipher_suite, secret, version=1):
        from aioquic.quic.crypto import cipher_suite_hash
        self.alg = cipher_suite_hash(cipher_suite)
        self.label = b"quicv2 ku" if version == 0x6B3343CF else b"quic ku"     # RFC 9001 6.1 / RFC 9369 3.3.2
        self.secrets = [bytes(secret)]

    def gen(self, secret):
        from aioquic.quic.crypto import hkdf_expand_label
        if secret is None:
            return "x"                    # keys torn down (connection terminated)
        secret = bytes(secret)
        for _ in range(64):
            if secret in self.secrets:
                return self.secrets.index(secret)
            self.secrets.append(hkdf_expand_label(self.alg, self.secrets[-1], self.label, b"", self.alg.digest_size))
        raise ValueError("secret is not in the key-update chain")


class PairImpl:
    """line protocol on two real CryptoPairs"""

    def __init__(self):
        from aioquic.quic import crypto
        self.crypto = crypto
        self.new()

    def new(self):
        from aioquic.tls import CipherSuite
        cs = CipherSuite.AES_128_GCM_SHA256
        sa, sb = os.urandom(32), os.urandom(32)
        self.pair = {}
        for x, (snd, rcv) in ((True, (sa, sb)), (False, (sb, sa))):
            p = self.crypto.CryptoPair()
            p.send.setup(cipher_suite=cs, secret=snd, version=1)
            p.recv.setup(cipher_suite=cs, secret=rcv, version=1)
            self.pair[x] = p
        self.chain = {True: Chain(cs, sa), False: Chain(cs, sb)}   # chain of what x SENDS with
        self.wire = []
        self.pn = {True: 1, False: 1}

    def show_end(self, x):
        p = self.pair[x]
        return (f"s={self.chain[x].gen(p.send.secret)} r={self.chain[not x].gen(p.recv.secret)} "
                f"req={_b(p._update_key_requested)} ph={p.key_phase}")

    def show(self):
        return f"A[{self.show_end(True)}] B[{self.show_end(False)}] wire={len(self.wire)}"

    def step(self, line):
        t = line.split()
        if t[0] == "ku.pnew":
            self.new()
            return "ok | " + self.show()
        if t[0] == "ku.request":
            self.pair[t[1] == "1"].update_key()
            return "ok | " + self.show()
        if t[0] == "ku.send":
            x = t[1] == "1"
            p = self.pair[x]
            pn = self.pn[x]
            self.pn[x] += 1
            bit = p.key_phase                      # what the packet builder writes in the header
            header = bytes([0x40 | (bit << 2) | 1]) + b"\x83\x94\xc8\xf0\x3e\x51\x57\x08" + pn.to_bytes(2, "big")
            enc = p.encrypt_packet(header, b"\x01\x02\x03\x04", pn)
            gen = self.chain[x].gen(p.send.secret)
            self.wire.append((x, enc, len(header) - 2, pn))
            return f"sent gen={gen} bit={bit} | " + self.show()
        if t[0] == "ku.deliver":
            i = int(t[1])
            if i >= len(self.wire):
                return "skip | " + self.show()
            x, enc, off, pn = self.wire[i]
            p = self.pair[not x]
            r0 = p.recv.secret
            try:
                p.decrypt_packet(enc, off, pn)
            except self.crypto.CryptoError:
                return "rejected | " + self.show()
            return f"accepted upd={_b(p.recv.secret != r0)} | " + self.show()
        return "bad-op"


class KeyTracer:
    """connection-level derivation (use as context manager around the Sim run;
    call `start(sim)` once the handshake is confirmed on both sides)"""

    def __init__(self):
        self.lines = []
        self.expect = []
        self.problems = []
        self.sim = None
        self.on = False
        self.idx = {}           # encrypted packet bytes -> wire index
        self.stats = {"requests": 0, "refused": 0, "updates": 0, "rejected": 0}
        self.pending = []       # accepted deliveries whose state line is completed after receive_datagram
        self._saved = []

    def __enter__(self):
        from aioquic.quic import crypto as Q
        from aioquic import tls
        tr = self
        self.ONE_RTT = tls.Epoch.ONE_RTT

        def patch(cls, name, fn):
            orig = getattr(cls, name)
            self._saved.append((cls, name, orig))
            setattr(cls, name, fn(orig))

        def mk_enc(orig):
            def w(pair, plain_header, plain_payload, packet_number):
                ep = tr.owner(pair)
                out = orig(pair, plain_header, plain_payload, packet_number)
                if ep is not None:
                    tr.sent(ep, pair, bytes(out), plain_header, plain_payload, packet_number)
                return out
            return w

        def mk_dec(orig):
            def w(pair, packet, encrypted_offset, expected_packet_number):
                ep = tr.owner(pair)
                if ep is None:
                    return orig(pair, packet, encrypted_offset, expected_packet_number)
                i = tr.idx.get(bytes(packet))
                r0 = pair.recv.secret
                try:
                    res = orig(pair, packet, encrypted_offset, expected_packet_number)
                except Q.CryptoError:
                    tr.delivered(ep, i, None, False)
                    raise
                tr.delivered(ep, i, res[2], pair.recv.secret != r0)
                return res
            return w

        patch(Q.CryptoPair, "encrypt_packet", mk_enc)
        patch(Q.CryptoPair, "decrypt_packet", mk_dec)
        return self

    def __exit__(self, *a):
        for cls, name, orig in reversed(self._saved):
            setattr(cls, name, orig)
        self._saved = []
        return False

    # -------------------------------------------------------------------
    def owner(self, pair):
        if not self.on:
            return None
        for ep in self.sim.endpoints:
            if ep.conn._cryptos.get(self.ONE_RTT) is pair:
                return ep
        return None

    def start(self, sim):
        self.sim = sim
        c, s = sim.client.conn, sim.server.conn
        self.chain = {}
        for ep in sim.endpoints:
            pr = ep.conn._cryptos[self.ONE_RTT]
            self.chain[ep.name] = Chain(pr.send.cipher_suite, pr.send.secret, pr.send.version)
        self.on = True

        def lr(conn):
            v = conn._spaces[self.ONE_RTT].largest_received_packet
            return None if v < 0 else v
        self.lines.append(f"ku.new 0 0 {c._packet_number} {s._packet_number} "
                          f"{c._spaces[self.ONE_RTT].largest_acked_packet} {s._spaces[self.ONE_RTT].largest_acked_packet} "
                          f"{_opt(lr(c))} {_opt(lr(s))}")
        self.expect.append("ok | " + self.show())

    def show_end(self, ep, pn=None):
        conn = ep.conn
        pr = conn._cryptos[self.ONE_RTT]
        sp = conn._spaces[self.ONE_RTT]
        lr = sp.largest_received_packet
        return (f"s={self.chain[ep.name].gen(pr.send.secret)} r={self.chain[ep.peer.name].gen(pr.recv.secret)} "
                f"req={_b(pr._update_key_requested)} ph={pr.key_phase} kupn={_opt(getattr(conn, "_key_update_pn", None))} "
                f"pn={conn._packet_number if pn is None else pn} la={sp.largest_acked_packet} lr={_opt(None if lr < 0 else lr)}")

    def show(self, pn_override=None):
        po = pn_override or {}
        return (f"A[{self.show_end(self.sim.client, po.get('client'))}] "
                f"B[{self.show_end(self.sim.server, po.get('server'))}] wire={len(self.idx)}")

    def op(self, line, head, pn_override=None):
        self.lines.append(line)
        self.expect.append(f"{head} | {self.show(pn_override)}")

    # ----------------------------------------------------------- observations
    def after_api(self, sim, ep, name, args, kw, res):
        if self.on and name == "receive_datagram":
            for k, head in self.pending:
                self.expect[k] = f"{head} | {self.show()}"
            self.pending = []
        if self.on and name == "request_key_update":
            pr = ep.conn._cryptos[self.ONE_RTT]
            self.stats["requests"] += 1
            ok = pr._update_key_requested
            if not ok:
                self.stats["refused"] += 1
            self.op(f"ku.request {_b(ep.is_client)}", "ok" if ok else "refused")

    def sent(self, ep, pair, enc, header, payload, pn):
        from . import frames as F
        try:
            fr = F.parse_frames(payload)
        except F.ParseError:
            fr = []
        acks = [f for f in fr if f["name"] in ("ACK", "ACK_ECN")]
        ack = acks[0]["largest"] if acks else None
        self.idx[enc] = len(self.idx)
        gen = self.chain[ep.name].gen(pair.send.secret)
        bit = (header[0] >> 2) & 1
        # `_packet_number` of the connection is refreshed after the whole flight: project pn + 1
        self.op(f"ku.send {_b(ep.is_client)} {_b(ack is not None)}",
                f"sent gen={gen} bit={bit} pn={pn} ack={_opt(ack)}", {ep.name: pn + 1})

    def delivered(self, ep, i, pn, upd):
        if i is None:
            self.problems.append(f"{ep.name}: decrypt_packet on bytes that no traced encrypt_packet produced")
            return
        if pn is None:
            self.stats["rejected"] += 1
            self.op(f"ku.deliver {i}", "rejected")
            return
        if upd:
            self.stats["updates"] += 1
        # largest_received / largest_acked are updated by receive_datagram after
        # decrypt_packet returns: the expected line is completed in after_api
        self.lines.append(f"ku.deliver {i}")
        self.expect.append(None)
        self.pending.append((len(self.expect) - 1, f"accepted upd={_b(upd)}"))
