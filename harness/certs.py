"""Server certificate chains of different sizes, generated in memory (EC P-256):
`small` = one self-signed leaf (the whole server flight fits in one datagram),
`medium` = leaf + 1 intermediate, `long` = leaf + 5 intermediates with bulky names;
`repo` = the RSA chain of the repo's tests (harness/sim.py default)."""
import datetime

_cache = {}


def _name(cn, bulk=0):
    from cryptography import x509
    from cryptography.x509.oid import NameOID
    attrs = [x509.NameAttribute(NameOID.COMMON_NAME, cn)]
    if bulk:
        attrs.append(x509.NameAttribute(NameOID.ORGANIZATION_NAME, "o" * 60))
        attrs.append(x509.NameAttribute(NameOID.ORGANIZATIONAL_UNIT_NAME, "u" * min(bulk, 64)))
    return x509.Name(attrs)


def chain(kind):
    """returns (certificate, [chain...], private_key) or None for the repo default"""
    if kind == "repo":
        return None
    if kind in _cache:
        return _cache[kind]
    from cryptography import x509
    from cryptography.hazmat.primitives import hashes
    from cryptography.hazmat.primitives.asymmetric import ec
    n_inter = {"small": 0, "medium": 1, "long": 5}[kind]
    bulk = 64 if kind == "long" else 0
    now = datetime.datetime(2026, 1, 1)
    keys = [ec.generate_private_key(ec.SECP256R1()) for _ in range(n_inter + 1)]
    names = [_name("localhost")] + [_name(f"intermediate {i}", bulk) for i in range(n_inter)]
    certs = []
    for i in range(n_inter + 1):
        issuer_i = i + 1 if i + 1 <= n_inter else i          # the last one signs itself
        b = (x509.CertificateBuilder().subject_name(names[i]).issuer_name(names[issuer_i])
             .public_key(keys[i].public_key()).serial_number(1000 + i)
             .not_valid_before(now).not_valid_after(now + datetime.timedelta(days=3650)))
        if i == 0:
            b = b.add_extension(x509.SubjectAlternativeName([x509.DNSName("localhost")]), critical=False)
        certs.append(b.sign(keys[issuer_i], hashes.SHA256()))
    _cache[kind] = (certs[0], certs[1:], keys[0])
    return _cache[kind]


def install(sim, kind):
    """give the Sim's server this chain (before its first datagram: the TLS context is
    created from the configuration when the first Initial arrives)"""
    c = chain(kind)
    if c is None:
        return
    conf = sim.server.conn._configuration
    conf.certificate, conf.certificate_chain, conf.private_key = c
