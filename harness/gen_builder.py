"""Case generators for the builder line protocol (shared by checks/c13.py, c08b)."""
import itertools

FRAME_TYPES = [0x01, 0x02, 0x06, 0x08, 0x1c, 0x1a]   # PING ACK CRYPTO STREAM CLOSE PATH_CHALLENGE


def new_line(cl, mds, pc, hc, tok, pn, mf, mt):
    f = lambda x: "none" if x is None else str(x)
    return f"bld.new {int(cl)} {mds} {pc} {hc} {tok} {pn} {f(mf)} {f(mt)}"


def gen_random(r, n_ops, disciplined=True):
    """one random case.  `disciplined`: frame bodies sized like connection.py does
    (within the space the builder reported), otherwise arbitrary pushes."""
    mds = r.choice([1200, 1200, 1252, 1280, 1350, 1500])
    cl = r.random() < 0.5
    pc, hc = r.choice([(8, 8), (8, 8), (0, 8), (20, 20), (4, 0)])
    tok = r.choice([0, 0, 0, 16, 70])
    x = r.random()
    if x < 0.25:
        mf = None
    elif x < 0.5:
        mf = r.choice([0, 1, 27, 28, 29, 45, 60, 500, 1199, 1200, 1201, 2400, 2500, 5000, -10])
    else:
        mf = r.randrange(0, 4000)
    x = r.random()
    if x < 0.4:
        mt = None
    elif x < 0.6:
        mt = r.choice([0, 1, 27, 28, 29, 30, 45, 46, 47, 700, 1199, 1200, 1201, 2400, 3600, -5])
    else:
        mt = r.randrange(0, 4000)
    case = [new_line(cl, mds, pc, hc, tok, r.choice([0, 7, 65535]), mf, mt)]
    # a light-weight shadow of the space so that disciplined pushes can be sized
    open_pkt = False
    if disciplined and r.random() < 0.3:
        # a datagram that needs padding because of an Initial, with later packets coalesced
        # behind it, and budgets between 1200 and the buffer size
        if r.random() < 0.7:
            mf = r.choice([None, 1200, 1201, r.randrange(1200, mds + 1), mds - 1, mds, 2 * mds - r.randrange(0, 90)])
            mt = r.choice([None, None, 1200, r.randrange(1200, mds + 1), mds, 3600 - r.randrange(0, 100)])
            case = [new_line(cl, mds, pc, hc, tok, r.choice([0, 7]), mf, mt)]
        case += ["bld.start_packet I", f"bld.start_frame {r.choice([6, 6, 2, 1])} {r.choice([20, 64])}",
                 "bld.push @" + r.choice(["cap", "half", "1"])]
        if r.random() < 0.4:
            case += ["bld.start_packet H", "bld.start_frame 6 20", "bld.push @" + r.choice(["cap", "half"])]
        case += ["bld.start_packet " + r.choice(["O", "O", "Z"]), f"bld.start_frame {r.choice([8, 8, 2, 1, 26])} {r.choice([1, 10, 64])}",
                 "bld.push @" + r.choice(["0", "1", "cap", "half", "all"])]
        open_pkt = True
    for _ in range(n_ops):
        x = r.random()
        if not open_pkt or x < 0.22:
            case.append("bld.start_packet " + r.choice(["I", "I", "H", "Z", "O", "O"]))
            open_pkt = True
        elif x < 0.6:
            ft = r.choice(FRAME_TYPES)
            cap = r.choice([1, 1, 2, 9, 20, 64, 64, 300])
            case.append(f"bld.start_frame {ft} {cap}")
            # body: "@" marks a push sized from the impl's reported space at run time
            if disciplined:
                case.append("bld.push @" + r.choice(["0", "1", "cap", "cap", "half", "all", "all"]))
            else:
                case.append(f"bld.push {r.choice([0, 1, 5, 40, 400, 1100, 1300])}")
        elif x < 0.7:
            case.append("bld.flush")
            open_pkt = False
        else:
            case.append("bld.start_packet " + r.choice(["I", "H", "O"]))
    case.append("bld.flush")
    return case


def resolve(case, impl_factory, skip_after_stop=True):
    """run a case with symbolic pushes on the implementation, resolving `@x`
    from the space the implementation reported for the preceding start_frame;
    returns (concrete_case, impl_output)"""
    impl = impl_factory()
    out, conc = [], []
    last = None
    skipping = False
    for line in case:
        t = line.split()
        if skip_after_stop:
            # connection.py: QuicPacketBuilderStop propagates out of the _write_* call;
            # the next builder call is a start_packet (next space) or flush()
            if skipping and t[0] in ("bld.start_frame", "bld.push"):
                continue
            skipping = False
            # connection.py (with fixes/C08-ack-first.diff) never starts an ACK / CONNECTION_CLOSE
            # frame in a packet that already holds a congestion-controlled frame
            if t[0] == "bld.start_frame" and int(t[1]) in (0x02, 0x03, 0x1c, 0x1d):
                b = impl.b
                if b is not None and b._packet is not None and b._packet.in_flight:
                    skipping = True
                    continue
        if t[0] == "bld.push" and t[1].startswith("@"):
            n = 0
            if last is not None and last[0].startswith("ok"):
                kv = dict(x.split("=") for x in last[0].split(" | ")[0].split()[1:])
                ft, cap = last[1]
                rbs, rfs = int(kv["rbs"]), int(kv["rfs"])
                space = rbs if ft in (0x02, 0x03, 0x1c, 0x1d) and not last[2] else min(rbs, rfs)
                space -= 1        # the frame type byte is already written
                if ft == 0x02:
                    space -= 1    # _write_ack_frame keeps a byte for the PING
                sel = t[1][1:]
                n = {"0": 0, "1": 1, "cap": cap - 1, "half": max(space // 2, 0), "all": space}[sel]
                n = max(0, min(n, space))
                if ft in (0x02, 0x03, 0x1c, 0x1d):
                    n = max(n, min(3, max(space, 0)))   # real ACK / CLOSE frames have a body
            line = f"bld.push {n}"
        if skip_after_stop and t[0] == "bld.start_frame" and int(t[1]) in (0x02, 0x03, 0x1c, 0x1d) and int(t[2]) < 5:
            line = f"bld.start_frame {t[1]} 5"      # _write_ack_frame reserves 64, close frames >= 4 + reason
            t = line.split()
        o = impl.step(line)
        if t[0] == "bld.start_frame":
            inflight_before = False
            b = impl.b
            if b is not None and b._packet is not None and o.startswith("ok"):
                # was the packet already in flight before this frame?
                inflight_before = b._packet.in_flight and int(t[1]) in (0x02, 0x03, 0x1c, 0x1d)
            last = (o, (int(t[1]), int(t[2])), inflight_before)
        elif t[0] != "bld.push":
            last = None
        if "QuicPacketBuilderStop" in o:
            skipping = True
        out.append(o)
        conc.append(line)
    return conc, out


def gen_exhaustive():
    """small scope: every budget around the interesting thresholds x short op scripts"""
    scripts = [
        ["bld.start_packet I", "bld.start_frame 2 64", "bld.push @cap", "bld.flush"],
        ["bld.start_packet I", "bld.start_frame 6 20", "bld.push @all", "bld.flush"],
        ["bld.start_packet I", "bld.start_frame 2 64", "bld.push @1", "bld.start_packet H", "bld.start_frame 6 20",
         "bld.push @half", "bld.start_packet O", "bld.start_frame 1 1", "bld.flush"],
        ["bld.start_packet O", "bld.start_frame 1 1", "bld.flush"],
        ["bld.start_packet O", "bld.start_frame 26 9", "bld.push @cap", "bld.start_frame 2 64", "bld.push @all", "bld.flush"],
        ["bld.start_packet O", "bld.start_frame 2 64", "bld.push @cap", "bld.start_frame 26 9", "bld.push @cap", "bld.flush"],
        ["bld.start_packet I", "bld.start_frame 1 1", "bld.start_packet O", "bld.start_frame 2 64", "bld.push @cap", "bld.flush"],
        ["bld.start_packet I", "bld.start_frame 6 20", "bld.push @cap", "bld.start_packet Z", "bld.start_frame 8 10",
         "bld.push @all", "bld.start_packet Z", "bld.start_frame 8 10", "bld.push @all", "bld.flush"],
        ["bld.start_packet H", "bld.start_frame 6 20", "bld.push @all", "bld.start_packet H", "bld.start_frame 6 20",
         "bld.push @cap", "bld.start_packet O", "bld.start_frame 8 10", "bld.push @half", "bld.flush"],
        ["bld.start_packet I", "bld.start_frame 28 8", "bld.push @cap", "bld.start_packet H", "bld.start_frame 28 8",
         "bld.push @cap", "bld.start_packet O", "bld.start_frame 28 8", "bld.push @cap", "bld.flush"],
    ]
    budgets = [None, -1, 0, 1, 27, 28, 29, 30, 44, 45, 46, 47, 48, 49, 50, 64, 100, 127, 128, 129, 500, 700,
               1199, 1200, 1201, 1300, 2399, 2400, 2401]
    for cl in (False, True):
        for mf, mt in itertools.product(budgets, budgets):
            if mf is not None and mt is not None and mf not in (0, 28, 45, 500, 1200, 2400) and mt not in (0, 28, 45, 700, 1200, 2400):
                continue
            for sc in scripts:
                yield [new_line(cl, 1200, 8, 8, 0, 0, mf, mt)] + sc


def gen_coalesce():
    """small scope: a padding-requiring Initial with Handshake / 0-RTT / 1-RTT packets coalesced
    behind it x budgets around 1200 .. max_datagram_size (flight < buffer, total < buffer, both)
    x max_datagram_size 1200 / 1280 / 1350 / 1500 x client | server"""
    tails = [
        ["bld.start_packet O", "bld.start_frame 8 10", "bld.push @cap"],
        ["bld.start_packet O", "bld.start_frame 8 10", "bld.push @half"],
        ["bld.start_packet O", "bld.start_frame 8 10", "bld.push @all"],
        ["bld.start_packet O", "bld.start_frame 2 64", "bld.push @cap"],
        ["bld.start_packet O", "bld.start_frame 1 1"],
        ["bld.start_packet H", "bld.start_frame 6 20", "bld.push @cap", "bld.start_packet O", "bld.start_frame 8 10", "bld.push @cap"],
        ["bld.start_packet Z", "bld.start_frame 8 10", "bld.push @half", "bld.start_packet O"],
    ]
    heads = [
        ["bld.start_packet I", "bld.start_frame 6 20", "bld.push @cap"],
        ["bld.start_packet I", "bld.start_frame 6 20", "bld.push @half"],
        ["bld.start_packet I", "bld.start_frame 2 64", "bld.push @cap"],
    ]
    for mds in (1200, 1280, 1350, 1500):
        mid = (1200 + mds) // 2
        grid = sorted({None, 1199, 1200, 1201, mid, mds - 1, mds, mds + 1, 2 * mds - 40}, key=lambda v: -1 if v is None else v)
        for cl in (False, True):
            for mf in grid:
                for mt in grid:
                    for h in heads:
                        for t in tails:
                            yield [new_line(cl, mds, 8, 8, 0, 0, mf, mt)] + h + t + ["bld.flush"]


def gen_initial_tail():
    """small scope: datagrams whose padding for the Initial they carry is appended after the last
    packet (RFC 9000 14.1; no 1-RTT packet to pad inside): Initial-only (client first flight,
    Initial ACK+CRYPTO retransmission, ACK-only client Initial, server Initial) and Initial +
    Handshake, x flight budgets around 1200 .. max_datagram_size x max_datagram_size x role"""
    heads = [
        ["bld.start_packet I", "bld.start_frame 6 20", "bld.push @cap"],
        ["bld.start_packet I", "bld.start_frame 6 20", "bld.push @half"],
        ["bld.start_packet I", "bld.start_frame 6 20", "bld.push @all"],
        ["bld.start_packet I", "bld.start_frame 2 64", "bld.push @cap"],
        ["bld.start_packet I", "bld.start_frame 2 64", "bld.push @cap", "bld.start_frame 6 20", "bld.push @cap"],
        ["bld.start_packet I", "bld.start_frame 1 1"],
    ]
    tails = [
        [],
        ["bld.start_packet H", "bld.start_frame 6 20", "bld.push @cap"],
        ["bld.start_packet H", "bld.start_frame 6 20", "bld.push @half"],
        ["bld.start_packet H", "bld.start_frame 2 64", "bld.push @cap"],
        ["bld.start_packet H", "bld.start_frame 2 64", "bld.push @cap", "bld.start_frame 6 20", "bld.push @cap"],
        ["bld.start_packet H", "bld.start_frame 6 20", "bld.push @cap", "bld.start_packet O"],
        # the Initial datagram followed by a second datagram in the same flush
        ["bld.start_packet H", "bld.start_frame 6 20", "bld.push @all", "bld.start_packet H", "bld.start_frame 6 20", "bld.push @cap"],
    ]
    for mds in (1200, 1280, 1350, 1500):
        mid = (1200 + mds) // 2
        grid = sorted({None, 1199, 1200, 1201, mid, mds - 1, mds, mds + 1, 2 * mds - 40}, key=lambda v: -1 if v is None else v)
        for cl in (False, True):
            for mf in grid:
                for mt in grid:
                    for h in heads:
                        for t in tails:
                            yield [new_line(cl, mds, 8, 8, 0, 0, mf, mt)] + h + t + ["bld.flush"]
