"""Shared case runner: run op-line cases on the implementation adapter, apply an
oracle to the implementation's own trace, replay the same lines on the compiled
Lean model and diff.  Works in chunks so that large exhaustive scopes do not
hold millions of lines in memory."""
from . import core, lean


def run_cases(ctx, name, cases, impl_factory, oracle=None, nontrivial=None, chunk=20000,
              fresh_impl_per_case=True, max_reported=3):
    """cases: iterable of op-line lists.  oracle(case, out) -> None | problem str |
    (problem str, signature dict).  nontrivial(case, out) -> bool.
    Returns number of model/implementation mismatches."""
    total_mism = 0
    reported = 0
    batch = []
    impl = None if fresh_impl_per_case else impl_factory()

    def flush():
        nonlocal total_mism, reported, batch
        if not batch:
            return
        impl_lines = []
        all_lines = []
        for case in batch:
            im = impl_factory() if fresh_impl_per_case else impl
            out = [im.step(l) for l in case]
            impl_lines += out
            all_lines += case
            nt = nontrivial(case, out) if nontrivial else True
            ctx.count(tuple(case), nt)
            if oracle is not None:
                p = oracle(case, out)
                if p:
                    sig = {"oracle": name}
                    if isinstance(p, tuple):
                        p, extra = p
                        sig.update(extra)
                    # one witness per distinct signature is enough (the count is kept)
                    key = tuple(sorted(sig.items()))
                    seen = ctx.notes.setdefault("witness_counts", {})
                    seen[str(key)] = seen.get(str(key), 0) + 1
                    if seen[str(key)] <= 2:
                        ctx.witness(p, {"ops": case, "impl_output": out}, sig)
        model_lines = lean.run_driver(all_lines)
        mism = core.diff_streams(ctx, name, batch, impl_lines, model_lines)
        total_mism += len(mism)
        for m in mism:
            if reported >= max_reported:
                break
            if m[0] >= 0:
                ci, oi, il, ml = m
                ctx.disagreement(name, batch[ci][: oi + 1], ml, il, oi)
                reported += 1
        ctx.cov["traces_validated_against_impl"] += len(batch)
        batch = []

    for case in cases:
        batch.append(case)
        if len(batch) >= chunk:
            flush()
    flush()
    return total_mism


def replay_ops(path, impl_factory, oracles):
    """`./check Cxx --replay file`: re-execute the recorded op lines on the current
    tree and on the compiled model, re-evaluate the oracle named in the
    signature; exit code 1 while the problem still shows, 0 once it is gone."""
    import json
    rec = json.load(open(path))
    rp = rec.get("replay") or {}
    ops = rp.get("ops")
    if not ops and rec.get("broken"):
        for b in rec["broken"]:
            if b.get("ops"):
                ops = b["ops"]
                break
    if not ops:
        print("replay file holds no op sequence (proof breakage or a scenario-level witness): rerun the check")
        print(json.dumps(rec, indent=1, default=str)[:3000])
        return 1
    impl = impl_factory()
    out = [impl.step(l) for l in ops]
    try:
        model = lean.run_driver(ops)
    except Exception as e:  # noqa
        model = [f"<driver failed: {e}>"] * len(ops)
    bad = False
    for l, a, b in zip(ops, out, model):
        mark = "  " if a == b else "!!"
        bad |= a != b
        print(f"{mark} {l[:200]}\n     implementation: {a[:300]}\n     model:          {b[:300]}")
    name = (rec.get("signature") or {}).get("oracle")
    orc = oracles.get(name)
    if orc is not None:
        p = orc(ops, out)
        if p:
            print("oracle:", p[0] if isinstance(p, tuple) else p)
            bad = True
        else:
            print(f"oracle {name!r}: no complaint")
    print("REPRODUCED" if bad else "not reproduced on this tree")
    return 1 if bad else 0
