"""Property oracle on a builder trace (written from the C13 / C08 text, reads
only what flush() returned)."""
import re


def _parse_flush(o):
    m = re.match(r"ok d=\[([^\]]*)\] p=\[([^\]]*)\]", o)
    if not m:
        return None
    ds = [int(x) for x in m.group(1).split(",") if x]
    ps = []
    for x in m.group(2).split(","):
        if x:
            ty, pn, fl, sent = x.split(":")
            ps.append({"type": ty, "pn": int(pn), "in_flight": fl[0] == "1", "ack_eliciting": fl[1] == "1", "sent": int(sent)})
    return ds, ps


def assign(ds, ps):
    """packets to datagrams: packets are laid out back to back; a ONE_RTT
    packet ends its datagram"""
    res, i = [], 0
    for size in ds:
        used, inside = 0, []
        while i < len(ps) and used + ps[i]["sent"] <= size:
            p = ps[i]
            inside.append(p)
            used += p["sent"]
            i += 1
            if p["type"] == "O":
                break
        res.append((size, inside))
    return res, i == len(ps)


def wire_in_flight(size, inside):
    """in-flight bytes a datagram puts on the wire: nothing if it carries no in-flight packet,
    otherwise its whole length (padding appended after the last packet included: those bytes
    travel with in-flight packets and load the path like PADDING frames, which RFC 9002 section 2
    counts as in flight) minus its acknowledgement-only packets (exempt in the property)"""
    if not any(p["in_flight"] for p in inside):
        return 0
    return size - sum(p["sent"] for p in inside if not p["in_flight"])


def check(case, out, disciplined, wire=False):
    """returns a violation description or None.  `wire`: judge the flight budget on the bytes
    put on the wire (see wire_in_flight) instead of the sizes of the returned packets"""
    t = case[0].split()
    cl, mds = t[1] == "1", int(t[2])
    mf = None if t[7] == "none" else int(t[7])
    mt = None if t[8] == "none" else int(t[8])
    total = flight = 0
    for op, o in zip(case, out):
        if o.startswith("err ") and "QuicPacketBuilderStop" not in o and disciplined:
            return ("raise", f"{o} on {op}")
        if not op.startswith("bld.flush"):
            continue
        pf = _parse_flush(o)
        if pf is None:
            continue
        dl, ok = assign(*pf)
        if not ok:
            return ("layout", "packets do not fit the datagrams returned")
        for size, inside in dl:
            if size > mds:
                return ("size", f"datagram of {size} bytes > max_datagram_size {mds}")
            total += size
            need = any(p["type"] == "I" and (cl or p["ack_eliciting"]) for p in inside)
            if need and size < 1200:
                who = "client" if cl else "server"
                return ("padding", f"{who} datagram of {size} bytes contains an Initial that requires padding")
            flight += wire_in_flight(size, inside) if wire else sum(p["sent"] for p in inside if p["in_flight"])
        if mt is not None and total > max(mt, 0):
            return ("amplification", f"total {total} bytes > max_total_bytes {mt}")
        if disciplined and mf is not None and flight > max(mf, 0):
            what = "in-flight bytes on the wire (datagram bytes minus acknowledgement-only packets)" if wire else "in-flight packet bytes"
            return ("flight", f"{what} {flight} > max_flight_bytes {mf}")
    return None
