"""Virtual-time asyncio event loop + in-memory datagram network.

`VLoop` is a real `asyncio.SelectorEventLoop` whose clock is a number: when no
callback is ready the clock jumps to the earliest scheduled timer (after the
cancelled timer heads have been popped), so hours of idle timeout cost nothing
and every run is a deterministic function of the PRNG.  `call_soon` order is
FIFO as asyncio promises; the order among timers that are due at the same
(quantised) instant is unspecified in asyncio and is chosen by the PRNG here.

`Net` connects `FakeTransport`s: `sendto` enqueues into the network, which
drops / duplicates / delays (hence reorders) datagrams under PRNG control.
"""
import asyncio
import heapq
import math
import selectors

QUANTUM = 0.001


class Deadlock(Exception):
    """nothing ready, nothing scheduled, and the main future is not done"""


class Livelock(Exception):
    """the loop ran far more iterations than any scenario needs"""


class VLoop(asyncio.SelectorEventLoop):
    def __init__(self, rng, start=1000.0, quantum=QUANTUM, frozen=False):
        super().__init__(selectors.SelectSelector())
        self._vt = start
        self._rng = rng
        self._quantum = quantum
        self._frozen = frozen      # stub mode: the clock never advances, timers never fire
        self.jumps = 0
        self.iterations = 0
        self.max_iterations = 3_000_000
        self.tick = 0.0 if frozen or not quantum else 2e-5
        self.escaped = []          # exceptions that escaped a callback
        self.set_exception_handler(self._on_exception)

    def _on_exception(self, loop, context):
        exc = context.get("exception")
        msg = context.get("message", "")
        if "exception was never retrieved" in msg:
            return      # a shielded inner future nobody awaits any more: not a callback failure
        self.escaped.append((self._vt, msg, exc))

    def time(self):
        return self._vt

    def call_at(self, when, callback, *args, context=None):
        if self._quantum:
            q = math.ceil(when / self._quantum - 1e-9) * self._quantum
            when = max(when, q)
        return super().call_at(when, callback, *args, context=context)

    def _run_once(self):
        self.iterations += 1
        if self.iterations > self.max_iterations:
            raise Livelock(f"more than {self.max_iterations} loop iterations at virtual time {self._vt}")
        sched = self._scheduled
        while sched and sched[0]._cancelled:
            self._timer_cancelled_count -= 1
            h = heapq.heappop(sched)
            h._scheduled = False
        if not self._ready and not self._stopping:
            if not sched or self._frozen:
                raise Deadlock()
            when = sched[0]._when
            if when > self._vt:
                self._vt = when
                self.jumps += 1
        if not self._frozen:
            due = []
            while sched and sched[0]._when <= self._vt:
                h = heapq.heappop(sched)
                h._scheduled = False
                if h._cancelled:
                    self._timer_cancelled_count -= 1
                else:
                    due.append(h)
            if len(due) > 1:
                self._rng.shuffle(due)
            self._ready.extend(due)
        if self._ready and self.tick:
            self._vt += self.tick      # running callbacks takes time: a timer set in the past cannot spin forever
        super()._run_once()


class FakeTransport(asyncio.DatagramTransport):
    def __init__(self, net, addr):
        super().__init__()
        self.net = net
        self.addr = addr
        self.closed = False
        self.protocol = None
        self.sent = 0
        self.sent_after_close = 0

    def sendto(self, data, addr=None):
        if self.closed:
            self.sent_after_close += 1
            return
        self.sent += 1
        self.net.send(self, bytes(data), addr)

    def close(self):
        self.closed = True

    def is_closing(self):
        return self.closed

    def get_extra_info(self, name, default=None):
        if name == "sockname":
            return self.addr
        return default


class Net:
    """PRNG-controlled lossy network between FakeTransports"""

    def __init__(self, loop, rng, p_drop=0.1, p_dup=0.1, delays=(0.0, 0.001, 0.001, 0.003, 0.01, 0.04)):
        self.loop = loop
        self.rng = rng
        self.p_drop = p_drop
        self.p_dup = p_dup
        self.delays = delays
        self.endpoints = {}      # (ip, port) -> FakeTransport
        self.blackhole = set()   # addresses whose traffic (both ways) is dropped
        self.log = []
        self.n = 0
        self.taps = []           # callables (src_addr, dst_addr, data) observing every send
        self.policy = None

    @staticmethod
    def key(addr):
        return (addr[0], addr[1])

    def attach(self, addr, protocol):
        t = FakeTransport(self, addr)
        t.protocol = protocol
        self.endpoints[self.key(addr)] = t
        protocol.connection_made(t)
        return t

    def send(self, transport, data, addr):
        self.n += 1
        src = transport.addr
        for tap in self.taps:
            tap(src, addr, data)
        if self.key(src) in self.blackhole or self.key(addr) in self.blackhole:
            return
        if self.policy is not None:
            # scenario-controlled fate of this datagram: None = default, [] = drop, [d1, d2, ..] = one copy per delay
            fate = self.policy(src, addr, data, self.n)
            if fate is not None:
                for d in fate:
                    self.loop.call_at(self.loop.time() + d, self.deliver, src, addr, data)
                return
        if self.rng.random() < self.p_drop:
            return
        copies = 2 if self.rng.random() < self.p_dup else 1
        for _ in range(copies):
            d = self.rng.choice(self.delays)
            self.loop.call_at(self.loop.time() + d, self.deliver, src, addr, data)

    def inject(self, src, dst, data, delay=0.0):
        """adversary: a datagram that no endpoint sent"""
        self.loop.call_at(self.loop.time() + delay, self.deliver, src, dst, data)

    def deliver(self, src, dst, data):
        t = self.endpoints.get(self.key(dst))
        if t is None or t.closed:
            return
        t.protocol.datagram_received(data, src)
