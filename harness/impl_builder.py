"""Runs the builder line protocol (`bld.*`) against a real QuicPacketBuilder
with a real CryptoPair (Initial keys; every packet is really encrypted)."""


def _b(x):
    return "1" if x else "0"


_PT = None


class BuilderImpl:
    def __init__(self):
        from aioquic.quic import packet_builder, packet, crypto
        self.pb = packet_builder
        self.packet = packet
        self.crypto_mod = crypto
        self.b = None
        self.dead = False
        self.crypto = crypto.CryptoPair()
        self.crypto.setup_initial(bytes(8), is_client=True, version=packet.QuicProtocolVersion.VERSION_1)
        T = packet.QuicPacketType
        self.pt = {"I": T.INITIAL, "H": T.HANDSHAKE, "Z": T.ZERO_RTT, "O": T.ONE_RTT}
        self.tp = {v: k for k, v in self.pt.items()}

    def _pkt(self, p):
        return f"{self.tp[p.packet_type]}:{p.packet_number}:{_b(p.in_flight)}{_b(p.is_ack_eliciting)}{_b(p.is_crypto_packet)}:{p.sent_bytes}"

    def show(self):
        b = self.b
        if b._packet is None:
            pk = "none"
        else:
            p = b._packet
            pk = f"{self.tp[p.packet_type]}:{_b(p.in_flight)}{_b(p.is_ack_eliciting)}{_b(p.is_crypto_packet)}"
        return (f"tell={b._buffer.tell()} ps={b._packet_start} hs={b._header_size} bc={b._buffer_capacity} "
                f"fc={b._flight_capacity} dfb={b._datagram_flight_bytes} init={_b(b._datagram_init)} "
                f"np={_b(b._datagram_needs_padding)} fb={b._flight_bytes} tb={b._total_bytes} pn={b._packet_number} "
                f"pkt={pk} d=[{','.join(str(len(x)) for x in b._datagrams)}] p=[{','.join(self._pkt(p) for p in b._packets)}]")

    def step(self, line):
        t = line.split()
        op = t[0]
        if op == "bld.new":
            oi = lambda s: None if s == "none" else int(s)
            self.b = self.pb.QuicPacketBuilder(
                host_cid=bytes(int(t[4])), peer_cid=bytes(int(t[3])), version=self.packet.QuicProtocolVersion.VERSION_1,
                is_client=t[1] == "1", max_datagram_size=int(t[2]), packet_number=int(t[6]),
                peer_token=bytes(int(t[5])))
            self.b.max_flight_bytes = oi(t[7])
            self.b.max_total_bytes = oi(t[8])
            self.dead = False
            return "ok | " + self.show()
        if self.dead:
            return "dead"
        b = self.b
        pre = ""
        try:
            if op == "bld.start_packet":
                b.start_packet(self.pt[t[1]], self.crypto)
            elif op == "bld.start_frame":
                if b._packet is None:
                    return "bad-op"
                pre = f" rbs={b.remaining_buffer_space} rfs={b.remaining_flight_space}"
                b.start_frame(int(t[1]), capacity=int(t[2]))
            elif op == "bld.push":
                if b._packet is None:
                    return "bad-op"
                b._buffer.push_bytes(bytes(int(t[1])))
            elif op == "bld.flush":
                d, p = b.flush()
                pre = f" d=[{','.join(str(len(x)) for x in d)}] p=[{','.join(self._pkt(x) for x in p)}]"
            else:
                return "bad-op"
        except self.pb.QuicPacketBuilderStop:
            return "err QuicPacketBuilderStop | " + self.show()
        except Exception as e:  # noqa
            self.dead = True
            return f"err {type(e).__name__}"
        return f"ok{pre} | " + self.show()


# --------------------------------------------------------------------------
# Connection level: every builder call a real QuicConnection makes inside
# datagrams_to_send() becomes a `bld.*` line (frame bodies = position deltas).
def show_builder(b, tp):
    def pkt(p):
        return f"{tp[p.packet_type]}:{p.packet_number}:{_b(p.in_flight)}{_b(p.is_ack_eliciting)}{_b(p.is_crypto_packet)}:{p.sent_bytes}"
    if b._packet is None:
        pk = "none"
    else:
        p = b._packet
        pk = f"{tp[p.packet_type]}:{_b(p.in_flight)}{_b(p.is_ack_eliciting)}{_b(p.is_crypto_packet)}"
    return (f"tell={b._buffer.tell()} ps={b._packet_start} hs={b._header_size} bc={b._buffer_capacity} "
            f"fc={b._flight_capacity} dfb={b._datagram_flight_bytes} init={_b(b._datagram_init)} "
            f"np={_b(b._datagram_needs_padding)} fb={b._flight_bytes} tb={b._total_bytes} pn={b._packet_number} "
            f"pkt={pk} d=[{','.join(str(len(x)) for x in b._datagrams)}] p=[{','.join(pkt(p) for p in b._packets)}]")


class BuilderTap:
    """Sim monitor.  `cases` = list of (lines, expected) per builder instance;
    `budget_mismatch` = calls where the budgets handed to the builder differ from
    the modelled formulas (AQ.Amp.maxFlight / Path.maxTotal)."""

    def __init__(self):
        from aioquic.quic import packet_builder, packet
        self.pb = packet_builder
        T = packet.QuicPacketType
        self.tp = {T.INITIAL: "I", T.HANDSHAKE: "H", T.ZERO_RTT: "Z", T.ONE_RTT: "O"}
        self.cases = []
        self.budget_mismatch = []
        self.active = None         # snapshot of the running datagrams_to_send call
        self.budget_checked = 0
        self._install()

    def _install(self):
        cls = self.pb.QuicPacketBuilder
        tap = self
        self._orig = {k: getattr(cls, k) for k in ("__init__", "start_packet", "start_frame", "flush")}
        o = self._orig

        def init(b, *a, **kw):
            o["__init__"](b, *a, **kw)
            if tap.active is not None:
                b._tap = {"lines": [], "expect": [], "started": False, "pos": 0}
                tap.cases.append((b._tap["lines"], b._tap["expect"]))

        def pre(b):
            t = getattr(b, "_tap", None)
            if t is None:
                return None
            if not t["started"]:
                t["started"] = True
                f = lambda x: "none" if x is None else str(x)
                t["lines"].append(f"bld.new {_b(b._is_client)} {b._buffer.capacity} {len(b._peer_cid)} {len(b._host_cid)} "
                                  f"{len(b._peer_token)} {b._packet_number} {f(b.max_flight_bytes)} {f(b.max_total_bytes)}")
                t["expect"].append("ok | " + show_builder(b, tap.tp))
                tap._check_budget(b)
            n = b._buffer.tell() - t["pos"]
            if n > 0:
                t["lines"].append(f"bld.push {n}")
                t["expect"].append("ok | " + show_builder(b, tap.tp))
            return t

        def post(b, t, line, res):
            if t is None:
                return
            t["pos"] = b._buffer.tell()
            t["lines"].append(line)
            t["expect"].append(res)

        def start_packet(b, packet_type, crypto):
            t = pre(b)
            try:
                o["start_packet"](b, packet_type, crypto)
            except tap.pb.QuicPacketBuilderStop:
                post(b, t, f"bld.start_packet {tap.tp[packet_type]}", "err QuicPacketBuilderStop | " + show_builder(b, tap.tp))
                raise
            post(b, t, f"bld.start_packet {tap.tp[packet_type]}", "ok | " + show_builder(b, tap.tp))

        def start_frame(b, frame_type, capacity=1, handler=None, handler_args=[]):
            t = pre(b)
            extra = f" rbs={b.remaining_buffer_space} rfs={b.remaining_flight_space}"
            try:
                r = o["start_frame"](b, frame_type, capacity, handler, handler_args)
            except tap.pb.QuicPacketBuilderStop:
                post(b, t, f"bld.start_frame {int(frame_type)} {capacity}", "err QuicPacketBuilderStop | " + show_builder(b, tap.tp))
                raise
            post(b, t, f"bld.start_frame {int(frame_type)} {capacity}", f"ok{extra} | " + show_builder(b, tap.tp))
            return r

        def flush(b):
            t = pre(b)
            d, p = o["flush"](b)
            if t is not None:
                def pkt(x):
                    return f"{tap.tp[x.packet_type]}:{x.packet_number}:{_b(x.in_flight)}{_b(x.is_ack_eliciting)}{_b(x.is_crypto_packet)}:{x.sent_bytes}"
                post(b, t, "bld.flush", f"ok d=[{','.join(str(len(x)) for x in d)}] p=[{','.join(pkt(x) for x in p)}] | "
                     + show_builder(b, tap.tp))
            return d, p

        cls.__init__, cls.start_packet, cls.start_frame, cls.flush = init, start_packet, start_frame, flush

    def close(self):
        cls = self.pb.QuicPacketBuilder
        for k, v in self._orig.items():
            setattr(cls, k, v)

    # the budgets datagrams_to_send must hand to the builder
    def before_api(self, sim, ep, name, args, kw):
        if name == "datagrams_to_send":
            c = ep.conn
            p = c._network_paths[0] if c._network_paths else None
            self.active = {"cwnd": c._loss.congestion_window, "bif": c._loss.bytes_in_flight, "probe": c._probe_pending,
                           "closing": c._close_pending, "mds": c._max_datagram_size,
                           "path": None if p is None else (p.is_validated, p.bytes_received, p.bytes_sent)}

    def after_api(self, sim, ep, name, args, kw, res):
        if name == "datagrams_to_send":
            self.active = None

    def _check_budget(self, b):
        a = self.active
        if a is None or a["path"] is None:
            return
        self.budget_checked += 1
        room = a["cwnd"] - a["bif"]
        exp_flight = None if a["closing"] else (a["mds"] if a["probe"] and room < a["mds"] else room)
        v, rx, tx = a["path"]
        exp_total = None if v else rx * 3 - tx
        if (b.max_flight_bytes, b.max_total_bytes) != (exp_flight, exp_total):
            self.budget_mismatch.append({"got": (b.max_flight_bytes, b.max_total_bytes), "expected": (exp_flight, exp_total), **a})
