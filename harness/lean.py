"""Lean side: lake build (serialised), axiom audit, driver execution."""
import fcntl
import os
import re
import subprocess
import time

VERIF = os.path.dirname(os.path.dirname(os.path.abspath(__file__)))
LEAN = os.path.join(VERIF, "lean")
DRIVER = os.path.join(LEAN, ".lake", "build", "bin", "aqdriver")
ALLOWED_AXIOMS = {"propext", "Classical.choice", "Quot.sound"}
FORBIDDEN = re.compile(
    r"\bsorry\b|\badmit\b|^\s*axiom\s|native_decide|bv_decide|implemented_by|\bunsafe\s|maxHeartbeats\s+0\b"
)


class _Lock:
    def __enter__(self):
        os.makedirs(os.path.join(LEAN, ".lake"), exist_ok=True)
        self.f = open(os.path.join(LEAN, ".lake", "verif.lock"), "w")
        fcntl.flock(self.f, fcntl.LOCK_EX)
        return self

    def __exit__(self, *a):
        fcntl.flock(self.f, fcntl.LOCK_UN)
        self.f.close()


def lake_build(targets, timeout=1500):
    """build each target; returns (ok: bool, log: str, wall_s).  One lake call
    for all targets so independent modules build in parallel."""
    t0 = time.time()
    with _Lock():
        r = subprocess.run(
            ["lake", "build"] + list(targets), cwd=LEAN, capture_output=True, text=True,
            timeout=timeout,
        )
    return r.returncode == 0, (r.stdout + r.stderr), time.time() - t0


def lake_build_each(targets, timeout=1500):
    """build targets one at a time so that one failing leaf does not hide the
    others; returns dict target -> (ok, log)"""
    out = {}
    ok, log, _ = lake_build(targets, timeout)
    if ok:
        return {t: (True, "") for t in targets}
    if len(targets) == 1:          # nothing to separate: do not pay for the failing build twice
        return {targets[0]: (False, log[-6000:])}
    for t in targets:
        ok, log, _ = lake_build([t], timeout)
        out[t] = (ok, "" if ok else log[-6000:])
    return out


def strip_comments(text: str) -> str:
    # remove /- ... -/ (nested not handled beyond one level) and -- comments
    text = re.sub(r"/-.*?-/", lambda m: "\n" * m.group(0).count("\n"), text, flags=re.S)
    text = re.sub(r"--.*", "", text)
    return text


def grep_forbidden(paths):
    hits = []
    for p in paths:
        try:
            txt = strip_comments(open(p).read())
        except OSError:
            continue
        for i, line in enumerate(txt.split("\n"), 1):
            if FORBIDDEN.search(line):
                hits.append(f"{os.path.relpath(p, LEAN)}:{i}: {line.strip()[:120]}")
    return hits


def lean_sources():
    res = []
    for d, _, fs in os.walk(os.path.join(LEAN, "AQ")):
        for f in fs:
            if f.endswith(".lean"):
                res.append(os.path.join(d, f))
    return sorted(res)


def theorems_in(path):
    """fully-qualified names of `theorem`s declared in a Lean file (simple
    namespace tracking; comments stripped)."""
    txt = strip_comments(open(path).read())
    ns = []
    names = []
    for line in txt.split("\n"):
        m = re.match(r"\s*namespace\s+(\S+)", line)
        if m:
            ns.append(m.group(1))
            continue
        m = re.match(r"\s*end\s+(\S+)\s*$", line)
        if m and ns and ns[-1] == m.group(1):
            ns.pop()
            continue
        m = re.match(r"\s*(?:@\[[^\]]*\]\s*)*(?:private\s+|protected\s+)?theorem\s+([^\s:({\[]+)", line)
        if m:
            names.append(".".join(ns + [m.group(1)]))
    return names


def module_path(mod: str) -> str:
    return os.path.join(LEAN, *mod.split(".")) + ".lean"


def print_axioms(modules):
    """returns dict theorem -> set(axioms) | None (if lean did not report it),
    plus raw log"""
    names = []
    for m in modules:
        names += theorems_in(module_path(m))
    if not names:
        return {}, ""
    os.makedirs(os.path.join(LEAN, ".lake", "audit"), exist_ok=True)
    f = os.path.join(LEAN, ".lake", "audit", "audit_%d.lean" % os.getpid())
    with open(f, "w") as fh:
        for m in modules:
            fh.write(f"import {m}\n")
        for n in names:
            fh.write(f"#print axioms {n}\n")
    with _Lock():
        r = subprocess.run(["lake", "env", "lean", f], cwd=LEAN, capture_output=True, text=True)
    os.unlink(f)
    out = r.stdout + r.stderr
    res = {n: None for n in names}
    flat = re.sub(r"\s+", " ", out)
    for m in re.finditer(r"'([^']+)' depends on axioms: \[([^\]]*)\]", flat):
        res[m.group(1)] = {a.strip() for a in m.group(2).split(",") if a.strip()}
    for m in re.finditer(r"'([^']+)' does not depend on any axioms", flat):
        res[m.group(1)] = set()
    return res, out


def run_driver(lines, timeout=600):
    """pipe op lines to the compiled model driver, return its output lines"""
    data = "\n".join(lines) + "\n"
    # another check running in parallel may be relinking the driver (lake replaces the file): wait for it
    for attempt in range(120):
        try:
            r = subprocess.run([DRIVER], input=data, capture_output=True, text=True, timeout=timeout)
            break
        except (FileNotFoundError, PermissionError, OSError) as e:
            if attempt == 119:
                raise
            import time
            time.sleep(1)
            with _Lock():   # a build in progress holds the lock; returning from it means the link finished
                pass
    if r.returncode != 0:
        raise RuntimeError("aqdriver failed: " + r.stderr[-2000:])
    out = r.stdout.split("\n")
    if out and out[-1] == "":
        out.pop()
    return out
