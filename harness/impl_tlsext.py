"""`tlsx.*` line protocol on the real tls.py helpers: the bodies of the TLS
extensions tls.py understands, written / read with exactly the calls that
push_client_hello / pull_client_hello (and the ServerHello / NewSessionTicket /
EncryptedExtensions / CertificateRequest codecs) make for them."""
from functools import partial


def _hx(b):
    return bytes(b).hex() if b else "-"


def _unhex(s):
    return b"" if s == "-" else bytes.fromhex(s)


def _items(s):
    return [] if s == "-" else s.split(",")


def _hexe(s):
    return b"" if s == "e" else bytes.fromhex(s)


def _join(l):
    return ",".join(l) if l else "-"


class TlsExtImpl:
    def __init__(self):
        from aioquic import tls
        from aioquic.buffer import Buffer
        self.t = tls
        self.Buffer = Buffer

    def enc(self, shape, arg):
        t = self.t
        buf = self.Buffer(capacity=70000)
        if shape == "keyshares":
            ks = [(int(x.split(":")[0]), _unhex(x.split(":")[1])) for x in _items(arg)]
            t.push_list(buf, 2, partial(t.push_key_share, buf), ks)
        elif shape == "versions":
            t.push_list(buf, 1, buf.push_uint16, [int(x) for x in _items(arg)])
        elif shape == "u16s":
            t.push_list(buf, 2, buf.push_uint16, [int(x) for x in _items(arg)])
        elif shape == "pskmodes":
            t.push_list(buf, 1, buf.push_uint8, [int(x) for x in _items(arg)])
        elif shape == "servername":
            t.push_server_name(buf, _unhex(arg).decode("ascii"))
        elif shape == "alpn":
            t.push_list(buf, 2, partial(t.push_alpn_protocol, buf), [_hexe(x).decode("ascii") for x in _items(arg)])
        elif shape == "empty":
            pass
        elif shape == "psks":
            a, b = arg.split("|")
            ids = [(_unhex(x.split(":")[0]), int(x.split(":")[1])) for x in _items(a)]
            t.push_offered_psks(buf, t.OfferedPsks(identities=ids, binders=[_hexe(x) for x in _items(b)]))
        elif shape == "u16":
            buf.push_uint16(int(arg))
        elif shape == "keyshare":
            t.push_key_share(buf, (int(arg.split(":")[0]), _unhex(arg.split(":")[1])))
        elif shape == "u32":
            buf.push_uint32(int(arg))
        else:
            return "bad-op"
        return "ok " + _hx(buf.data)

    def dec(self, shape, data):
        t = self.t
        buf = self.Buffer(data=data)
        if shape == "keyshares":
            v = t.pull_list(buf, 2, partial(t.pull_key_share, buf))
            txt = _join([f"{g}:{_hx(k)}" for g, k in v])
        elif shape == "versions":
            txt = _join([str(x) for x in t.pull_list(buf, 1, buf.pull_uint16)])
        elif shape == "u16s":
            txt = _join([str(x) for x in t.pull_list(buf, 2, buf.pull_uint16)])
        elif shape == "pskmodes":
            txt = _join([str(x) for x in t.pull_list(buf, 1, buf.pull_uint8)])
        elif shape == "servername":
            txt = _hx(t.pull_server_name(buf).encode("ascii"))
        elif shape == "alpn":
            v = t.pull_list(buf, 2, partial(t.pull_alpn_protocol, buf))
            txt = _join([(x.encode("ascii").hex() or "e") for x in v])
        elif shape == "empty":
            txt = "-"
        elif shape == "psks":
            v = t.pull_offered_psks(buf)
            txt = _join([f"{_hx(i)}:{a}" for i, a in v.identities]) + "|" + _join([(b.hex() or "e") for b in v.binders])
        elif shape == "u16":
            txt = str(buf.pull_uint16())
        elif shape == "keyshare":
            g, k = t.pull_key_share(buf)
            txt = f"{g}:{_hx(k)}"
        elif shape == "u32":
            txt = str(buf.pull_uint32())
        else:
            return "bad-op"
        if not buf.eof():
            return "err extra"     # the enclosing pull_block(extension_length) raises on stray bytes
        return "ok " + txt

    def step(self, line):
        p = line.split()
        try:
            if p[0] == "tlsx.enc":
                return self.enc(p[1], p[2])
            if p[0] == "tlsx.dec":
                return self.dec(p[1], _unhex(p[2]))
            return "bad-op"
        except Exception:   # every parse failure is an Alert / BufferReadError: one class here
            return "err"
