"""`ack.*` line protocol on a real QuicConnection inside harness/sim.py.

The observed endpoint's private methods are wrapped (observation only): every
packet that authenticates becomes one `ack.rx` line, every `_write_handshake` /
`_write_application` call one `ack.txhs` / `ack.txapp` line whose arguments are
the inputs the real call saw (builder space, pacer answer, key validity, encoded
delay) and whose expected output is what the real call did (ACK frame values,
projected state of the three packet spaces).  The lines are then replayed on the
Lean model and compared."""
from . import frames as F
from .impl_recovery import fbits

SP = {"INITIAL": 0, "HANDSHAKE": 1, "ZERO_RTT": 2, "ONE_RTT": 2}


def _b(x):
    return "1" if x else "0"


def _of(x):
    return "none" if x is None else fbits(x)


class AckObserver:
    """a Sim monitor; `attach(sim, ep)` once the Sim exists"""

    def __init__(self):
        self.lines = []      # model op lines
        self.expect = []     # what the implementation did (canonical)
        self.pending = None
        self.acked = []
        self.ep = None
        self.acks_written = 0

    # ------------------------------------------------------------ projection
    def _spaces(self):
        from aioquic import tls
        c = self.ep.conn
        return [c._spaces.get(e) for e in (tls.Epoch.INITIAL, tls.Epoch.HANDSHAKE, tls.Epoch.ONE_RTT)]

    def show(self):
        out = []
        for s in self._spaces():
            if s is None:
                out.append("q=[];st=0;at=none;lr=-1;lrt=none;d=0")
                continue
            q = ",".join(f"{r.start}-{r.stop}" for r in s.ack_queue)
            out.append(f"q=[{q}];st={s.ack_queue_start};at={_of(s.ack_at)};lr={s.largest_received_packet};"
                       f"lrt={_of(s.largest_received_time)};d={_b(s.discarded)}")
        return " ".join(out)

    def _emit(self, line, res):
        self.lines.append(line)
        self.expect.append(f"ok{res} | {self.show()}")

    # -------------------------------------------------------------- wrapping
    def attach(self, sim, ep):
        from aioquic.quic.packet_builder import QuicPacketBuilderStop, QuicDeliveryState
        self.ep = ep
        self.sim = sim
        conn = ep.conn
        obs = self
        self.lines.append("ack.new " + fbits(conn._ack_delay))
        self.expect.append("ok | " + self.show())

        orig_payload = conn._payload_received

        def payload_received(*a, **kw):
            if obs.pending is not None:
                obs.pending["processed"] = True
            return orig_payload(*a, **kw)
        conn._payload_received = payload_received

        orig_deliv = conn._on_ack_delivery

        def on_ack_delivery(delivery, space, highest_acked):
            if delivery == QuicDeliveryState.ACKED and obs.pending is not None:
                sp = [i for i, x in enumerate(obs._spaces()) if x is space][0]
                obs.pending["acked"].append(f"a{sp}:{highest_acked}")
            return orig_deliv(delivery, space, highest_acked)
        conn._on_ack_delivery = on_ack_delivery

        orig_discard = conn._discard_epoch

        def discard_epoch(epoch):
            was = conn._spaces[epoch].discarded
            orig_discard(epoch)
            if not was:
                if obs.pending is not None:
                    # inside receive_datagram: an effect of the packet being processed
                    obs.pending["acked"].append(f"d{SP[epoch.name]}")
                else:
                    obs._emit(f"ack.discard {SP[epoch.name]}", "")
        conn._discard_epoch = discard_epoch

        orig_wack = conn._write_ack_frame

        def write_ack_frame(builder, space, now):
            rec = obs.cur
            rec["ack_attempt"] = True
            rec["max_size"] = builder.remaining_buffer_space - 2   # after the type byte, minus the PING byte
            pos = builder._buffer.tell()
            pn_before = builder.packet_number
            try:
                # the ACK-of-ACK PING is written by the same method; isolate the ACK frame bytes
                orig_ping = conn._write_ping_frame
                end = {}

                def ping(b, *a, **kw):
                    end["pos"] = b._buffer.tell()
                    return orig_ping(b, *a, **kw)
                conn._write_ping_frame = ping
                try:
                    orig_wack(builder=builder, space=space, now=now)
                finally:
                    conn._write_ping_frame = orig_ping
                    stop = end.get("pos", builder._buffer.tell())
                    if stop > pos:
                        raw = builder._buffer.data_slice(pos, stop)
                        vals, i = [], 1
                        while i < len(raw):
                            v, i = F.get_varint(raw, i)
                            vals.append(v)
                        rec["values"] = vals
                        rec["highest"] = space.largest_received_packet
            except QuicPacketBuilderStop:
                if "values" not in rec:
                    rec["ack_stop"] = True
                raise
        conn._write_ack_frame = write_ack_frame

        def wrap_tx(name, is_app):
            orig = getattr(conn, name)

            def tx(builder, *args):
                from aioquic import tls
                if is_app:
                    network_path, now = args
                    epoch = tls.Epoch.ONE_RTT
                    keys = conn._cryptos[tls.Epoch.ONE_RTT].send.is_valid() or conn._cryptos[tls.Epoch.ZERO_RTT].send.is_valid()
                else:
                    epoch, now = args
                    keys = conn._cryptos[epoch].send.is_valid()
                rec = obs.cur = {"start": None, "pacer": None}
                orig_sp = builder.start_packet

                def start_packet(pt, cr):
                    try:
                        orig_sp(pt, cr)
                    except QuicPacketBuilderStop:
                        if rec["start"] is None:
                            rec["start"] = False
                        raise
                    if rec["start"] is None:
                        rec["start"] = True
                builder.start_packet = start_packet
                pacer = conn._loss._pacer
                orig_nst = pacer.next_send_time

                def next_send_time(now):
                    r = orig_nst(now=now)
                    if rec["pacer"] is None and rec["start"] is None:
                        rec["pacer"] = r is not None
                    return r
                pacer.next_send_time = next_send_time
                hs_complete = conn._handshake_complete
                try:
                    return orig(builder, *args)
                finally:
                    del builder.start_packet
                    del pacer.next_send_time
                    obs._tx_done(rec, is_app, SP[epoch.name], now, keys, hs_complete)
            setattr(conn, name, tx)
        wrap_tx("_write_handshake", False)
        wrap_tx("_write_application", True)

    def _tx_done(self, rec, is_app, sp, now, keys, hs_complete):
        so = rec["start"] is not False
        af = not rec.get("ack_stop", False)
        vals = rec.get("values")
        de = vals[1] if vals else 0
        ms = rec.get("max_size")
        ms = "none" if ms is None else str(ms)
        if vals is not None:
            self.acks_written += 1
            res = f" ack v=[{','.join(map(str, vals))}] n={vals[2] + 1} h={rec['highest']}"
        elif not keys or (is_app and rec["start"] is None):
            res = " nothing"
        elif rec["start"] is False or rec.get("ack_stop"):
            res = " stopped"
        else:
            res = " noack"
        if is_app:
            line = (f"ack.txapp {sp} {fbits(now)} {_b(hs_complete)} {_b(keys)} {_b(bool(rec['pacer']))} "
                    f"{_b(so)} {_b(af)} {de} {ms}")
        else:
            line = f"ack.txhs {sp} {_b(keys)} {_b(so)} {_b(af)} {de} {ms}"
        self._emit(line, res)

    # ------------------------------------------------------- monitor methods
    def _finalise(self):
        p = self.pending
        if p is None:
            return
        self.pending = None
        conn = self.ep.conn
        closing = conn._close_pending or conn._state.name in ("CLOSING", "DRAINING", "TERMINATED")
        if not p.get("processed"):
            res = " duplicate"
        elif closing:
            res = " closed"
        else:
            res = " recorded"
        acked = ",".join(p["acked"]) or "-"
        self._emit(f"ack.rx {p['sp']} {p['pn']} {_b(p['ae'])} {fbits(p['now'])} {_b(not closing)} {acked}", res)

    def on_packet_authenticated(self, sim, ep, epoch, pn, hdr, payload):
        if ep is not self.ep:
            return
        self._finalise()
        fr = F.parse_frames(payload)
        ae = any(f["type"] not in F.NON_ACK_ELICITING for f in fr)
        self.pending = {"sp": SP[epoch], "pn": pn, "ae": ae, "now": sim.now, "acked": []}

    def after_api(self, sim, ep, name, args, kw, res):
        if ep is self.ep and name == "receive_datagram":
            self._finalise()
