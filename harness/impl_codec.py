"""Runs the codec line protocol (`codec.*`, `spec.*`) against the real aioquic
code: aioquic._buffer.Buffer, aioquic.buffer, aioquic.quic.packet and the header
writer of aioquic.quic.packet_builder.  Prints the same canonical lines as
lean/Driver/Codec.lean.

`spec.*` ops are answered by the *real* encoder so that the usual stream diff
compares it with the independent (RFC-written) encoder of AQ/Model/CodecSpec.lean.
"""
import ipaddress


def _b(x):
    return "1" if x else "0"


def _hx(b):
    return bytes(b).hex() if b else "-"


def _unhex(s):
    return b"" if s == "-" else bytes.fromhex(s)


def _opt(x):
    return "none" if x is None else str(x)


def _ranges(s):
    if s == "-":
        return []
    out = []
    for tok in s.split(","):
        a, b = tok.split(":")
        out.append(range(int(a), int(b)))
    return out


def _ints(s):
    return [] if s == "-" else [int(x) for x in s.split(",")]


class _FakeCrypto:
    """identity 'protection' so that the builder's plain header is visible"""
    aead_tag_size = 16

    def __init__(self, key_phase=0):
        self.key_phase = key_phase

    def encrypt_packet(self, plain_header, plain_payload, packet_number):
        return plain_header + plain_payload + bytes(16)


class CodecImpl:
    def __init__(self):
        from aioquic import buffer
        from aioquic.quic import packet, packet_builder, rangeset
        self.buffer = buffer
        self.packet = packet
        self.builder = packet_builder
        self.rangeset = rangeset
        self.T = packet.QuicPacketType
        self.buf = buffer.Buffer(capacity=0)

    # ------------------------------------------------------------ rendering
    def show(self):
        b = self.buf
        return f"pos={b.tell()} cap={b.capacity} data={_hx(b.data)}"

    def show_header(self, h):
        return (f"ver={_opt(h.version)} type={h.packet_type.name} len={h.packet_length} "
                f"dcid={_hx(h.destination_cid)} scid={_hx(h.source_cid)} token={_hx(h.token)} "
                f"tag={_hx(h.integrity_tag)} versions=[{','.join(str(v) for v in h.supported_versions)}]")

    def show_addr(self, a, cls):
        if a is None:
            return "none/0"
        return f"{_hx(cls(a[0]).packed)}/{a[1]}"

    def show_pval(self, kind, v):
        P = self.packet
        if kind is int:
            return str(v)
        if kind is bytes:
            return _hx(v)
        if kind is bool:
            return "1"
        if kind is P.QuicPreferredAddress:
            return (f"P/{self.show_addr(v.ipv4_address, ipaddress.IPv4Address)}/"
                    f"{self.show_addr(v.ipv6_address, ipaddress.IPv6Address)}/"
                    f"{_hx(v.connection_id)}/{_hx(v.stateless_reset_token)}")
        if kind is P.QuicVersionInformation:
            av = ",".join(str(x) for x in v.available_versions) if v.available_versions else "-"
            return f"V/{v.chosen_version}/{av}"
        raise AssertionError(kind)

    def show_tp(self, params):
        items = []
        for pid, (name, kind) in self.packet.PARAMS.items():
            v = getattr(params, name)
            if v is not None and v is not False:
                items.append(f"{pid:x}={self.show_pval(kind, v)}")
        return ";".join(items) if items else "-"

    def parse_addr(self, h, p, cls):
        if h == "none":
            return None
        return (str(cls(_unhex(h))), int(p))

    def parse_tp(self, s):
        P = self.packet
        params = P.QuicTransportParameters()
        if s == "-":
            return params
        for item in s.split(";"):
            k, v = item.split("=")
            name, kind = P.PARAMS[int(k, 16)]
            if kind is int:
                val = int(v)
            elif kind is bytes:
                val = _unhex(v)
            elif kind is bool:
                val = True
            elif kind is P.QuicPreferredAddress:
                _, h4, p4, h6, p6, cid, tok = v.split("/")
                val = P.QuicPreferredAddress(
                    ipv4_address=self.parse_addr(h4, p4, ipaddress.IPv4Address),
                    ipv6_address=self.parse_addr(h6, p6, ipaddress.IPv6Address),
                    connection_id=_unhex(cid), stateless_reset_token=_unhex(tok))
            else:
                _, c, av = v.split("/")
                val = P.QuicVersionInformation(chosen_version=int(c), available_versions=_ints(av))
            setattr(params, name, val)
        return params

    def make_rangeset(self, ranges):
        rs = self.rangeset.RangeSet()
        rs._RangeSet__ranges = list(ranges)   # arbitrary (possibly ill-formed) content
        return rs

    def build_header(self, version, ptype, peer, host, token, payload_len, pn, spin=False, key_phase=0):
        """drive the real QuicPacketBuilder with an identity crypto object and
        return the plain header it wrote"""
        B = self.builder
        b = B.QuicPacketBuilder(host_cid=host, peer_cid=peer, version=version, is_client=False,
                                max_datagram_size=2048, packet_number=pn, peer_token=token,
                                spin_bit=spin)
        b.start_packet(ptype, _FakeCrypto(key_phase))
        b._buffer.push_bytes(bytes(payload_len))
        header_size = b._header_size
        datagrams, _ = b.flush()
        return datagrams[0][:header_size], datagrams[0]

    # ------------------------------------------------------------------ ops
    def step(self, line):
        t = line.split()
        op = t[0]
        stateful = False
        try:
            P = self.packet
            Buffer = self.buffer.Buffer
            if op == "codec.new":
                n = int(t[1])
                self.buf = Buffer(capacity=n)
                self.buf.push_bytes(bytes(n))    # model: fresh memory reads as zeros
                self.buf.seek(0)
                return "ok | " + self.show()
            if op == "codec.data":
                self.buf = Buffer(data=_unhex(t[1]))
                return "ok | " + self.show()
            if op in ("codec.push_uint8", "codec.push_uint16", "codec.push_uint32",
                      "codec.push_uint64", "codec.push_uint_var"):
                stateful = True
                getattr(self.buf, op[6:])(int(t[1]))
                return "ok | " + self.show()
            if op == "codec.push_bytes":
                stateful = True
                self.buf.push_bytes(_unhex(t[1]))
                return "ok | " + self.show()
            if op in ("codec.pull_uint8", "codec.pull_uint16", "codec.pull_uint32",
                      "codec.pull_uint64", "codec.pull_uint_var"):
                stateful = True
                v = getattr(self.buf, op[6:])()
                return f"ok {v} | " + self.show()
            if op == "codec.pull_bytes":
                stateful = True
                v = self.buf.pull_bytes(int(t[1]))
                return f"ok {_hx(v)} | " + self.show()
            if op == "codec.seek":
                stateful = True
                self.buf.seek(int(t[1]))
                return "ok | " + self.show()
            if op == "codec.slice":
                stateful = True
                v = self.buf.data_slice(int(t[1]), int(t[2]))
                return f"ok {_hx(v)} | " + self.show()
            if op == "codec.tell":
                return f"ok {self.buf.tell()} | " + self.show()
            if op == "codec.eof":
                return f"ok {_b(self.buf.eof())} | " + self.show()
            if op == "codec.size_uint_var":
                return f"ok {self.buffer.size_uint_var(int(t[1]))}"
            if op == "codec.encode_uint_var":
                return "ok " + _hx(self.buffer.encode_uint_var(int(t[1])))
            if op == "codec.ack_pull":
                d = _unhex(t[1])
                b = Buffer(data=d)
                rs, delay = P.pull_ack_frame(b)
                rr = ",".join(f"{r.start}:{r.stop}" for r in rs)
                return f"ok rs=[{rr}] delay={delay} used={b.tell()}"
            if op == "codec.ack_push":
                b = Buffer(capacity=int(t[3]))
                b.push_bytes(bytes(int(t[3])))
                b.seek(0)
                n = P.push_ack_frame(b, self.make_rangeset(_ranges(t[1])), int(t[2]))
                return f"ok n={n} {_hx(b.data)}"
            if op == "codec.ack_pushm":
                b = Buffer(capacity=int(t[3]))
                b.push_bytes(bytes(int(t[3])))
                b.seek(0)
                n = P.push_ack_frame(b, self.make_rangeset(_ranges(t[1])), int(t[2]),
                                     None if t[4] == "none" else int(t[4]))
                return f"ok n={n} {_hx(b.data)}"
            if op == "codec.pn":
                return f"ok {P.decode_packet_number(int(t[1]), int(t[2]), int(t[3]))}"
            if op == "codec.header":
                d = _unhex(t[1])
                b = Buffer(data=d)
                h = P.pull_quic_header(b, None if t[2] == "none" else int(t[2]))
                return f"ok {self.show_header(h)} used={b.tell()}"
            if op == "codec.first_byte":
                return f"ok {P.encode_long_header_first_byte(int(t[1]), self.T[t[2]], int(t[3]))}"
            if op == "codec.retry":
                # t[7] (the tag the model is given) must be the tag the real code computes
                data = P.encode_quic_retry(int(t[1]), _unhex(t[2]), _unhex(t[3]), _unhex(t[4]),
                                           _unhex(t[5]), int(t[6]))
                return "ok " + _hx(data)
            if op == "codec.vn":
                rnd = int(t[1])
                real = P.os.urandom
                P.os.urandom = lambda n: bytes([rnd]) * n   # os.urandom(1)[0] is a parameter
                try:
                    data = P.encode_quic_version_negotiation(_unhex(t[2]), _unhex(t[3]), _ints(t[4]))
                finally:
                    P.os.urandom = real
                return "ok " + _hx(data)
            if op == "codec.build_long":
                hdr, _ = self.build_header(int(t[1]), self.T[t[2]], _unhex(t[3]), _unhex(t[4]),
                                           _unhex(t[5]), int(t[6]), int(t[7]))
                return "ok " + _hx(hdr)
            if op == "codec.build_short":
                hdr, _ = self.build_header(1, self.T.ONE_RTT, _unhex(t[3]), b"", b"", 8, int(t[4]),
                                           spin=bool(int(t[1])), key_phase=int(t[2]))
                return "ok " + _hx(hdr)
            if op == "codec.tp_pull":
                d = _unhex(t[1])
                b = Buffer(data=d)
                params = P.pull_quic_transport_parameters(b)
                return f"ok {self.show_tp(params)} used={b.tell()}"
            if op == "codec.tp_push":
                b = Buffer(capacity=int(t[2]))
                P.push_quic_transport_parameters(b, self.parse_tp(t[1]))
                return "ok " + _hx(b.data)
            if op == "codec.tp_roundtrip":
                b = Buffer(capacity=262144)
                P.push_quic_transport_parameters(b, self.parse_tp(t[1]))
                params = P.pull_quic_transport_parameters(Buffer(data=b.data))
                return "ok " + self.show_tp(params)
            # ---- the real encoder answering for the independent one
            if op == "spec.varint":
                return "ok " + _hx(self.buffer.encode_uint_var(int(t[1])))
            if op == "spec.ack":
                b = Buffer(capacity=65536)
                P.push_ack_frame(b, self.rangeset.RangeSet(_ranges(t[1])), int(t[2]))
                return "ok " + _hx(b.data)
            if op == "spec.first_byte":
                return f"ok {P.encode_long_header_first_byte(int(t[1]), self.T[t[2]], int(t[3]))}"
            if op == "spec.long_header":
                # length field value = payload + pn (2) + tag (16)
                hdr, _ = self.build_header(int(t[1]), self.T[t[2]], _unhex(t[3]), _unhex(t[4]),
                                           _unhex(t[5]), int(t[6]) - 18, int(t[7]))
                return "ok " + _hx(hdr)
            if op == "spec.short_header":
                hdr, _ = self.build_header(1, self.T.ONE_RTT, _unhex(t[3]), b"", b"", 8, int(t[4]),
                                           spin=bool(int(t[1])), key_phase=int(t[2]))
                return "ok " + _hx(hdr)
            if op == "spec.retry":
                data = P.encode_quic_retry(int(t[1]), _unhex(t[2]), _unhex(t[3]), _unhex(t[4]),
                                           _unhex(t[5]), int(t[6]))
                return "ok " + _hx(data)
            if op == "spec.vn":
                u = int(t[1])
                real = P.os.urandom
                P.os.urandom = lambda n: bytes([u]) * n
                try:
                    data = P.encode_quic_version_negotiation(_unhex(t[2]), _unhex(t[3]), _ints(t[4]))
                finally:
                    P.os.urandom = real
                return "ok " + _hx(data)
            if op == "spec.tp":
                b = Buffer(capacity=262144)
                P.push_quic_transport_parameters(b, self.parse_tp(t[1]))
                return "ok " + _hx(b.data)
            return "bad-op"
        except Exception as e:  # canonical error line
            name = type(e).__name__
            if stateful:
                return f"err {name} | " + self.show()
            return f"err {name}"
