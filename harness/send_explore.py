"""Send half of a stream (C10): history ghost + per-state oracle + exhaustive
small-scope exploration of the REAL QuicStreamSender.

The oracle is written from the property text, not from the code:
  * every emitted frame carries exactly the written bytes for its offsets,
    respects max_size / max_offset, FIN only at the written final offset;
  * at EVERY state before a reset, every written byte and the FIN is
    acknowledged, or in a frame in flight, or obtainable by draining get_frame
    on a deep COPY of the sender (so the history itself is not disturbed);
    what is obtainable is neither in flight nor acknowledged; and while
    something is obtainable buffer_is_empty is False;
  * after reset(): get_frame yields no frame and buffer_is_empty stays True;
  * is_finished  <=>  (all bytes + FIN acknowledged before any reset) or a
    RESET frame was acknowledged.
"""
import copy

BIG = 1000000


def byte_at(o):
    return (o * 7 + 1) % 256


def parse_kv(s):
    d = {}
    for tok in s.split():
        if "=" in tok:
            k, v = tok.split("=", 1)
            d[k] = v
    return d


def drain_copy(sender):
    """what a deep copy of the sender would still offer: (offsets, fin, n_frames, problem)"""
    c = copy.deepcopy(sender)
    cov, fin, n = set(), False, 0
    for _ in range(64):
        try:
            fr = c.get_frame(BIG)
        except Exception as e:  # noqa
            return cov, fin, n, f"get_frame raised {type(e).__name__} while draining"
        if fr is None:
            return cov, fin, n, None
        n += 1
        if cov & set(range(fr.offset, fr.offset + len(fr.data))):
            return cov, fin, n, f"offset offered twice while draining: {fr.offset}+{len(fr.data)}"
        cov |= set(range(fr.offset, fr.offset + len(fr.data)))
        fin |= bool(fr.fin)
    return cov, fin, n, "get_frame keeps returning frames (no progress)"


class SendGhost:
    """what the caller saw; updated from the op line and the adapter's output line"""

    def __init__(self):
        self.written = b""
        self.fin_written = False
        self.nwrites = 0
        self.reset = False
        self.outstanding = []      # (start, stop, fin), in emission order
        self.acked = set()
        self.fin_acked = False
        self.done = False          # all bytes + FIN acknowledged before any reset (latched)
        self.reset_out = 0
        self.reset_acked = False

    def copy(self):
        g = SendGhost.__new__(SendGhost)
        g.__dict__.update(self.__dict__)
        g.outstanding = list(self.outstanding)
        g.acked = set(self.acked)
        return g

    def key(self):
        return (len(self.written), self.fin_written, self.nwrites, self.reset, tuple(sorted(self.outstanding)),
                tuple(sorted(self.acked)), self.fin_acked, self.done, self.reset_out, self.reset_acked)

    # -- one op: returns a problem string or None ------------------------------
    def apply(self, line, out):
        t = line.split()
        head = out.partition(" | ")[0]
        op = t[0]
        if op == "send.new":
            return None
        if op == "send.write":
            if self.fin_written or self.reset:
                return None if head.startswith("err") else f"write accepted after FIN/reset: {out}"
            if head.startswith("err"):
                return f"write raised: {head}"
            data = b"" if t[1] == "-" else bytes.fromhex(t[1])
            self.written += data
            self.fin_written |= t[2] == "1"
            self.nwrites += 1
            return None
        if op == "send.get":
            if self.reset:
                return None if head.startswith("err") or head == "ok none" else f"frame offered after reset: {head}"
            if head.startswith("err"):
                return f"get_frame raised: {head}"
            if head == "ok none":
                return None
            kv = parse_kv(head)
            off = int(kv["off"])
            data = b"" if kv["data"] == "-" else bytes.fromhex(kv["data"])
            fin = kv["fin"] == "1"
            ms, mo = int(t[1]), t[2]
            if off + len(data) > len(self.written) or bytes(self.written[off:off + len(data)]) != data:
                return f"frame bytes differ from the written bytes: {head}"
            if len(data) > ms:
                return f"frame larger than max_size {ms}: {head}"
            if mo != "none" and data and off + len(data) > int(mo):
                return f"frame beyond max_offset {mo}: {head}"
            if fin and not (self.fin_written and off + len(data) == len(self.written)):
                return f"FIN on a frame that does not end the written data: {head}"
            if not data and not fin:
                return f"empty frame without FIN: {head}"
            self.outstanding.append((off, off + len(data), fin))
            return None
        if op == "send.delivery":
            fr = (int(t[2]), int(t[3]), t[4] == "1")
            if fr not in self.outstanding:
                return None            # not a well-formed history: no claim
            self.outstanding.remove(fr)
            if head.startswith("err"):
                return f"delivery report of a frame in flight raised: {head}"
            if t[1] == "1" and not self.reset:
                self.acked |= set(range(fr[0], fr[1]))
                self.fin_acked |= fr[2]
                if self.fin_written and self.fin_acked and len(self.acked) == len(self.written):
                    self.done = True
            return None
        if op == "send.reset":
            self.reset = True
            return None
        if op == "send.getreset":
            self.reset_out += 1
            return None
        if op == "send.resetdelivery":
            if self.reset_out:
                self.reset_out -= 1
                self.reset_acked |= t[1] == "1"
            return None
        return None

    # -- the state oracle ------------------------------------------------------
    def check(self, sender):
        if bool(sender.is_finished) != (self.done or self.reset_acked):
            return (f"is_finished={sender.is_finished} but (all data+FIN acknowledged)={self.done}, "
                    f"reset acknowledged={self.reset_acked}")
        if self.reset:
            if not sender.buffer_is_empty:
                return "buffer_is_empty is False after reset (data would be offered after a reset)"
            return None
        cov, fin, n, p = drain_copy(sender)
        if p:
            return p
        inflight = set()
        for a, b, _ in self.outstanding:
            inflight |= set(range(a, b))
        missing = set(range(len(self.written))) - self.acked - inflight - cov
        if missing:
            return (f"written bytes neither acknowledged, in flight nor offered by get_frame: "
                    f"offsets {sorted(missing)[:6]}")
        if self.fin_written and not (self.fin_acked or fin or any(f for _, _, f in self.outstanding)):
            return "FIN neither acknowledged, in flight nor offered by get_frame (never re-offered)"
        if cov - set(range(len(self.written))):
            return f"get_frame offers offsets that were never written: {sorted(cov)[:6]}"
        if cov & self.acked:
            return f"get_frame offers acknowledged offsets again: {sorted(cov & self.acked)[:6]}"
        if cov & inflight:
            return f"get_frame offers offsets that are in flight: {sorted(cov & inflight)[:6]}"
        if n and sender.buffer_is_empty:
            return "data or FIN is pending but buffer_is_empty is True (the caller would stop asking)"
        return None


def sender_key(s):
    return repr(sorted((k, repr(v)) for k, v in vars(s).items()))


def alphabet(g, max_bytes, max_writes, caps):
    ops = []
    if not g.fin_written and not g.reset and g.nwrites < max_writes:
        for n in range(max_bytes - len(g.written) + 1):
            for fin in (0, 1):
                if n or fin:
                    data = bytes(byte_at(len(g.written) + i) for i in range(n))
                    ops.append(f"send.write {data.hex() if data else '-'} {fin}")
    for ms, mo in caps:
        ops.append(f"send.get {ms} {mo}")
    for fr in sorted(set(g.outstanding)):
        for ack in (1, 0):
            ops.append(f"send.delivery {ack} {fr[0]} {fr[1]} {1 if fr[2] else 0}")
    if not g.reset:
        ops.append("send.reset 0")
    elif g.reset_out < 2:
        ops.append("send.getreset")
    if g.reset_out:
        ops += ["send.resetdelivery 1", "send.resetdelivery 0"]
    return ops


def explore(StreamImpl, depth, max_bytes=3, max_writes=2, max_states=None, max_problems=3):
    """breadth-first over all well-formed histories of at most `depth` ops
    (states merged when the sender's attributes and the ghost coincide).
    Returns (problems, leaf_cases, leaf_outs, stats); problems are
    (message, ops, impl_output) with the SHORTEST history first."""
    caps = [(ms, mo) for ms in (1, 2, BIG) for mo in ("none", 1, 2)]
    shell = StreamImpl()
    first = "send.new 1"
    out0 = shell.step(first)
    root = (shell.send, SendGhost(), [first], [out0])
    seen = {(sender_key(shell.send), root[1].key())}
    level = [root]
    problems, leaves = [], []
    stats = {"states": 1, "transitions": 0, "depth": 0, "frames": 0, "losses": 0}
    for d in range(depth):
        nxt = []
        for sender, g, lines, outs in level:
            grew = False
            for op in alphabet(g, max_bytes, max_writes, caps):
                shell.send = copy.deepcopy(sender)
                out = shell.step(op)
                stats["transitions"] += 1
                g2 = g.copy()
                p = g2.apply(op, out) or g2.check(shell.send)
                if p:
                    if len(problems) < max_problems and all(p != q[0] for q in problems):
                        problems.append((p, lines + [op], outs + [out]))
                    continue
                k = (sender_key(shell.send), g2.key())
                if k in seen:
                    continue
                seen.add(k)
                grew = True
                stats["frames"] += op.startswith("send.get") and " off=" in out
                stats["losses"] += op.startswith("send.delivery 0")
                nxt.append((shell.send, g2, lines + [op], outs + [out]))
            if not grew:
                leaves.append((lines, outs))
        stats["states"] = len(seen)
        stats["depth"] = d + 1
        level = nxt
        if problems or not level or (max_states and len(seen) > max_states):
            break
    leaves += [(l, o) for _, _, l, o in level]
    return problems, [l for l, _ in leaves], [o for _, o in leaves], stats


def check_trace(StreamImpl, ops):
    """re-run an op list on the real objects with the oracle at every state;
    returns (problem or None, outputs)"""
    impl = StreamImpl()
    g = SendGhost()
    outs = []
    for op in ops:
        out = impl.step(op)
        outs.append(out)
        if op.startswith("send.new"):
            g = SendGhost()
            continue
        p = g.apply(op, out) or g.check(impl.send)
        if p:
            return f"{p} (after op {len(outs) - 1}: {op!r})", outs
    return None, outs
