"""Runs the `c.*` line protocol on the real, freshly compiled C extension
(aioquic._buffer / aioquic._crypto).  Crypto ops report only the outcome class
and the output length (cipher bytes are OpenSSL's)."""


def pat(n):
    return bytes((i * 7 + 1) % 256 for i in range(n))


def _hx(b):
    return b.hex() if b else "-"


def _unhex(t):
    return b"" if t == "-" else bytes.fromhex(t)


def _show(v):
    if v is None:
        return "none"
    if v is True:
        return "1"
    if v is False:
        return "0"
    if isinstance(v, (bytes, bytearray)):
        return _hx(bytes(v))
    return str(v)


class CHelpersImpl:
    def __init__(self):
        from aioquic import _buffer, _crypto
        self.B = _buffer
        self.C = _crypto
        self.buf = None
        self.hp = None
        self.aead = None
        self.hp_args = None
        self.aead_args = None

    def bstate(self):
        return f"pos={self.buf.tell()} cap={self.buf.capacity}"

    def buf_call(self, fn):
        if self.buf is None:
            return "err NoBuffer"
        try:
            v = fn()
        except Exception as e:
            return f"err {type(e).__name__} | {self.bstate()}"
        return f"ok {_show(v)} | {self.bstate()}"

    def step(self, line):
        t = line.split()
        op = t[0]
        b = self.buf
        if op == "c.buf.new":
            kw = {}
            if t[1] != "none":
                kw["capacity"] = int(t[1])
            if t[2] != "none":
                kw["data"] = _unhex(t[2])
            try:
                self.buf = self.B.Buffer(**kw)
            except Exception as e:
                self.buf = None
                return f"err {type(e).__name__}"
            return f"ok | {self.bstate()}"
        if op == "c.buf.reinit":
            # __init__ again on the LIVE object (a rejected re-initialisation must leave it usable)
            if b is None:
                return "err NoBuffer"
            kw = {}
            if t[1] != "none":
                kw["capacity"] = "x" if t[1] == "bad" else int(t[1])
            if t[2] != "none":
                kw["data"] = _unhex(t[2])
            try:
                b.__init__(**kw)
            except Exception as e:
                return f"err {type(e).__name__} | {self.bstate()}"
            return f"ok | {self.bstate()}"
        if op.startswith("c.buf."):
            name = op[len("c.buf."):]
            if name in ("capacity", "data"):
                return self.buf_call(lambda: getattr(b, name))
            if name in ("eof", "tell", "pull_uint8", "pull_uint16", "pull_uint32", "pull_uint64", "pull_uint_var"):
                return self.buf_call(lambda: getattr(b, name)())
            if name in ("pull_bytes", "seek", "push_uint8", "push_uint16", "push_uint32", "push_uint64", "push_uint_var"):
                return self.buf_call(lambda: getattr(b, name)(int(t[1])))
            if name == "data_slice":
                return self.buf_call(lambda: b.data_slice(int(t[1]), int(t[2])))
            if name == "push_bytes":
                return self.buf_call(lambda: b.push_bytes(_unhex(t[1])))
            return "bad-op"

        try:
            if op == "c.hp.new":
                self.hp = None
                self.hp_args = (t[1].encode(), _unhex(t[2]))
                self.hp = self.C.HeaderProtection(*self.hp_args)
                return "ok"
            if op == "c.aead.new":
                self.aead = None
                self.aead_args = (t[1].encode(), _unhex(t[2]), _unhex(t[3]))
                self.aead = self.C.AEAD(*self.aead_args)
                return "ok"
            if op == "c.hp.reinit":
                if self.hp is None:
                    return "err NoObject"
                self.hp.__init__(t[1].encode(), _unhex(t[2]))
                self.hp_args = (t[1].encode(), _unhex(t[2]))
                return "ok"
            if op == "c.aead.reinit":
                if self.aead is None:
                    return "err NoObject"
                self.aead.__init__(t[1].encode(), _unhex(t[2]), _unhex(t[3]))
                self.aead_args = (t[1].encode(), _unhex(t[2]), _unhex(t[3]))
                return "ok"
            if op == "c.hp.remove":
                if self.hp is None:
                    return "err NoObject"
                n, o = int(t[1]), int(t[2])
                hdr, _pn = self.hp.remove(pat(n), o)
                d = len(hdr) - (o & 0xFFFFFFFF)   # the "I" format masks pn_offset to 32 bits
                return "ok hdr=pn_offset+1..4" if 1 <= d <= 4 else f"ok hdr={len(hdr)}"
            if op == "c.hp.apply":
                if self.hp is None:
                    return "err NoObject"
                h, f, n = int(t[1]), int(t[2]), int(t[3])
                hdr = bytearray(pat(h))
                if h:
                    hdr[0] = f
                return f"ok len={len(self.hp.apply(bytes(hdr), pat(n)))}"
            if op == "c.aead.encrypt":
                if self.aead is None:
                    return "err NoObject"
                return f"ok len={len(self.aead.encrypt(pat(int(t[1])), pat(int(t[2])), int(t[3])))}"
            if op == "c.aead.decrypt":
                if self.aead is None:
                    return "err NoObject"
                total, a, pn = int(t[1]), int(t[2]), int(t[3])
                if 16 <= total <= 1500:
                    # a genuine ciphertext of that total length, so that authentication succeeds and the
                    # outcome reflects the length handling (the model's OpenSSL calls succeed)
                    data = self.aead.encrypt(pat(total - 16), pat(a), pn)
                else:
                    data = pat(total)
                return f"ok len={len(self.aead.decrypt(data, pat(a), pn))}"
        except Exception as e:
            return f"err {type(e).__name__}"
        return "bad-op"

    def corrupted(self):
        """'leaves the helper usable': after any call sequence the object must behave like a fresh
        one built from the same arguments (detects overflows that stay inside the object, which
        AddressSanitizer cannot see).  Returns a description or None."""
        try:
            if self.aead is not None:
                fresh = self.C.AEAD(*self.aead_args)
                if self.aead.encrypt(pat(20), b"", 1) != fresh.encrypt(pat(20), b"", 1):
                    return "AEAD object state differs from a fresh object (key/iv overwritten)"
            if self.hp is not None:
                fresh = self.C.HeaderProtection(*self.hp_args)
                h = b"\xc3" + pat(8)
                if self.hp.apply(h, pat(24)) != fresh.apply(h, pat(24)):
                    return "HeaderProtection object state differs from a fresh object"
        except Exception as e:
            return f"probe raised {type(e).__name__}: {e}"
        return None
