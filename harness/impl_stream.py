"""Runs the stream line protocol against the real aioquic objects."""


def _b(x):
    return "1" if x else "0"


def _hx(b):
    return b.hex() if b else "-"


def _rg(rs):
    return "[" + ",".join(f"{r.start}-{r.stop}" for r in rs) + "]"


def _opt(x):
    return "none" if x is None else str(x)


class StreamImpl:
    def __init__(self):
        from aioquic.quic import stream, rangeset, packet, packet_builder
        self.m = stream
        self.rangeset = rangeset
        self.packet = packet
        self.D = packet_builder.QuicDeliveryState
        self.recv = stream.QuicStreamReceiver(stream_id=0, readable=True)
        self.send = stream.QuicStreamSender(stream_id=0, writable=True)
        self.rs = rangeset.RangeSet()

    def show_recv(self):
        r = self.recv
        return (f"hi={r.highest_offset} fin={_b(r.is_finished)} start={r._buffer_start} "
                f"fs={_opt(r._final_size)} rg={_rg(list(r._ranges))} buflen={len(r._buffer)}")

    def show_send(self):
        s = self.send
        return (f"empty={_b(s.buffer_is_empty)} hi={s.highest_offset} fin={_b(s.is_finished)} "
                f"rp={_b(s.reset_pending)} next={s.next_offset} start={s._buffer_start} stop={s._buffer_stop} "
                f"bfin={_opt(s._buffer_fin)} pend={_rg(list(s._pending))} peof={_b(s._pending_eof)} "
                f"acked={_rg(list(s._acked))} afin={_b(s._acked_fin)}")

    def step(self, line):
        t = line.split()
        op = t[0]
        try:
            if op == "recv.new":
                self.recv = self.m.QuicStreamReceiver(stream_id=0, readable=True)
                return "ok " + self.show_recv()
            if op == "recv.frame":
                data = b"" if t[2] == "-" else bytes.fromhex(t[2])
                fr = self.packet.QuicStreamFrame(offset=int(t[1]), data=data, fin=t[3] == "1")
                ev = self.recv.handle_frame(fr)
                evs = "none" if ev is None else f"data={_hx(ev.data)} end={_b(ev.end_stream)}"
                return f"ok {evs} | " + self.show_recv()
            if op == "recv.reset":
                self.recv.handle_reset(final_size=int(t[1]))
                return "ok reset | " + self.show_recv()
            if op == "send.new":
                self.send = self.m.QuicStreamSender(stream_id=0, writable=t[1] == "1")
                return "ok " + self.show_send()
            if op == "send.write":
                data = b"" if t[1] == "-" else bytes.fromhex(t[1])
                self.send.write(data, end_stream=t[2] == "1")
                return "ok | " + self.show_send()
            if op == "send.get":
                mo = None if t[2] == "none" else int(t[2])
                fr = self.send.get_frame(int(t[1]), mo)
                frs = "none" if fr is None else f"off={fr.offset} data={_hx(fr.data)} fin={_b(fr.fin)}"
                return f"ok {frs} | " + self.show_send()
            if op == "send.delivery":
                d = self.D.ACKED if t[1] == "1" else self.D.LOST
                self.send.on_data_delivery(d, int(t[2]), int(t[3]), t[4] == "1")
                return "ok | " + self.show_send()
            if op == "send.reset":
                self.send.reset(int(t[1]))
                return "ok | " + self.show_send()
            if op == "send.getreset":
                fr = self.send.get_reset_frame()
                return f"ok final={fr.final_size} | " + self.show_send()
            if op == "send.resetdelivery":
                d = self.D.ACKED if t[1] == "1" else self.D.LOST
                self.send.on_reset_delivery(d)
                return "ok | " + self.show_send()
            if op == "rs.new":
                self.rs = self.rangeset.RangeSet()
                return "ok []"
            if op == "rs.add":
                self.rs.add(int(t[1]), int(t[2]))
                return "ok " + _rg(list(self.rs))
            if op == "rs.sub":
                self.rs.subtract(int(t[1]), int(t[2]))
                return "ok " + _rg(list(self.rs))
            if op == "rs.shift":
                r = self.rs.shift()
                return f"ok {r.start}-{r.stop} " + _rg(list(self.rs))
            if op == "rs.bounds":
                r = self.rs.bounds()
                return f"ok {r.start}-{r.stop}"
            if op == "rs.contains":
                return "ok " + _b(int(t[1]) in self.rs)
            return "bad-op"
        except Exception as e:  # canonical error line: class + projected state
            name = type(e).__name__
            if op.startswith("recv."):
                return f"err {name} | " + self.show_recv()
            if op.startswith("send."):
                return f"err {name} | " + self.show_send()
            return f"err {name}"
