"""Runs the `cid.` line protocol on real QuicConnection objects.

Two adapters:

* CidUnit — handler level: a real QuicConnection object (no handshake); the op
  lines call the real `_handle_new_connection_id_frame`,
  `_handle_retire_connection_id_frame`, `change_connection_id`,
  `_replenish_connection_ids`, `_on_new_connection_id_delivery` with real
  Buffer / QuicReceiveContext arguments (cheap: exhaustive enumeration).

* CidSim — connection level: a REAL connection after a real handshake
  (harness/sim.py) driven from the wire by the key-holding peer
  (harness/inject.py).  The victim's private methods are wrapped *for
  observation only*; every call of a modelled function becomes one op line with
  the projected state right after it, so the model is replayed on exactly what
  the implementation did (from `__init__` on, handshake included).  An oracle
  written from the property text (CidOracle) watches only the wire taps, the
  injected packets and the events.
"""
import os

UNKNOWN_CID = bytes.fromhex("ee" * 8)


def _b(x):
    return "1" if x else "0"


def _l(xs):
    return "[" + ",".join(str(x) for x in xs) + "]"


def project(conn, issued, infl=None):
    """canonical projected state of a real connection; `issued` maps every
    connection ID this endpoint ever put into _host_cids to its sequence number"""
    for h in conn._host_cids:
        issued.setdefault(bytes(h.cid), h.sequence_number)
    ps = conn._peer_cid.sequence_number
    hc = issued.get(bytes(conn.host_cid))
    s = (f"peer={0 if ps is None else ps} avail={_l(c.sequence_number for c in conn._peer_cid_available)} "
         f"seen={_l(sorted(conn._peer_cid_sequence_numbers))} rpt={conn._peer_retire_prior_to} "
         f"rq={_l(conn._retire_connection_ids)} "
         f"hcids=[{','.join(f'{h.sequence_number}:{_b(h.was_sent)}' for h in conn._host_cids)}] "
         f"hseq={conn._host_cid_seq} hcid={'none' if hc is None else hc}")
    if infl is not None:
        s += f" infl={_l(sorted(infl))}"
    return s


def peer_cid_bytes(seq, n):
    """connection ID the key-holding peer issues for sequence number `seq`"""
    return (bytes([0xA0 + seq % 64]) + bytes([seq % 251] * 19))[:n] if n <= 20 else bytes([0xA0 + seq % 64]) * n


def exc_name(e):
    if type(e).__name__ == "QuicConnectionError":
        return f"QuicConnectionError({e.error_code})"
    return type(e).__name__


# ------------------------------------------------------------------ handler level
class CidUnit:
    _mods = None

    def __init__(self):
        self.conn = None
        self.issued = {}
        if CidUnit._mods is None:
            from aioquic import tls
            from aioquic.buffer import Buffer
            from aioquic.quic.configuration import QuicConfiguration
            from aioquic.quic.connection import QuicConnection, QuicReceiveContext
            from aioquic.quic.packet_builder import QuicDeliveryState
            from . import frames as F
            CidUnit._mods = (tls, Buffer, QuicConfiguration, QuicConnection, QuicReceiveContext, QuicDeliveryState, F)

    def _ctx(self, host_cid):
        tls, _, _, _, QuicReceiveContext, _, _ = CidUnit._mods
        return QuicReceiveContext(epoch=tls.Epoch.ONE_RTT, host_cid=host_cid, network_path=None,
                                  quic_logger_frames=None, time=0.0, version=None)

    def show(self):
        return project(self.conn, self.issued)

    def _via(self, tok):
        if tok == "none":
            return UNKNOWN_CID
        for cid, seq in self.issued.items():
            if seq == int(tok):
                return cid
        return UNKNOWN_CID

    def step(self, line):
        _, Buffer, QuicConfiguration, QuicConnection, _, QuicDeliveryState, F = CidUnit._mods
        t = line.split()
        op = t[0]
        try:
            if op == "cid.new":
                is_client = t[1] == "1"
                kw = {} if is_client else {"original_destination_connection_id": bytes(8)}
                conf = QuicConfiguration(is_client=is_client)
                if not is_client:
                    from .sim import TESTS
                    conf.load_cert_chain(os.path.join(TESTS, "ssl_cert.pem"), os.path.join(TESTS, "ssl_key.pem"))
                self.conn = QuicConnection(configuration=conf, **kw)
                # what _parse_transport_parameters / the first received packet do
                self.conn._remote_active_connection_id_limit = int(t[2])
                self.conn._peer_cid.sequence_number = 0
                self.issued = {}
                return "ok | " + self.show()
            c = self.conn
            if op == "cid.ncid":
                seq, rpt, n = int(t[1]), int(t[2]), int(t[3])
                body = F.enc_new_connection_id(seq, rpt, peer_cid_bytes(seq, n))[1:]
                c._handle_new_connection_id_frame(self._ctx(c.host_cid), 0x18, Buffer(data=body))
            elif op == "cid.retire":
                project(c, self.issued)
                body = F.enc_retire_connection_id(int(t[1]))[1:]
                c._handle_retire_connection_id_frame(self._ctx(self._via(t[2])), 0x19, Buffer(data=body))
            elif op == "cid.change":
                c.change_connection_id()
            elif op == "cid.replenish":
                c._replenish_connection_ids()
            elif op == "cid.ndel":
                st = QuicDeliveryState.ACKED if t[2] == "1" else QuicDeliveryState.LOST
                for h in c._host_cids:
                    if h.sequence_number == int(t[1]):
                        c._on_new_connection_id_delivery(st, h)
            else:
                return "bad-op"
            return "ok | " + self.show()
        except Exception as e:  # noqa
            return f"err {exc_name(e)} | " + self.show()


# --------------------------------------------------------------- connection level
class CidOracle:
    """The property, from its text, on what crosses the wire.  Sees: packets the
    victim built (tap), packets the peer injected and whether they
    authenticated (tap), which of the victim's packets the peer acknowledged,
    events.  Never looks at the victim's attributes (except the two limits the
    endpoints advertised, given at construction)."""

    def __init__(self, local_limit, remote_limit, peer_cid0, host_cid0):
        self.local_limit = local_limit          # what the victim advertised
        self.remote_limit = remote_limit        # what the peer advertised
        self.peer_issued = {0: peer_cid0}       # seq -> cid the peer issued to the victim
        self.victim_issued = {0: host_cid0}     # seq -> cid the victim issued (NEW_CONNECTION_ID on the wire)
        self.max_rpt = 0                        # committed
        self.accepted = {0}                     # seqs issued in frames the victim processed (committed)
        self.batch = []                         # injected packets since the victim last sent
        self.retired_by_peer = set()            # committed RETIRE_CONNECTION_ID seqs the victim processed
        self.retire_injected = set()            # any RETIRE the peer ever sent
        self.used = []                          # sequence of dcid seqs on the wire
        self.retire_frames = {}                 # seq -> [pn] of victim packets carrying RETIRE seq
        self.ncid_frames = {}                   # seq -> [pn]
        self.acked = set()
        self.closed = None                      # error code of the CONNECTION_CLOSE seen
        self.findings = []                      # (rule, text)
        self.events_issued = set()
        self.events_retired = set()
        self.handshake_done = False

    def fail(self, rule, text):
        if not any(r == rule for r, _ in self.findings):
            self.findings.append((rule, text))

    # -- peer side
    def injected(self, pn, dcid, frames, authenticated):
        if self.closed is not None:
            return
        seq = next((s for s, c in self.victim_issued.items() if c == dcid), None)
        if seq is not None and seq not in self.retire_injected and not authenticated:
            self.fail("accept-until-retired",
                      f"packet {pn} addressed to issued connection ID #{seq} (never retired by the peer) was not accepted")
        self.batch.append((frames, authenticated))
        for f in frames:
            if f["name"] == "RETIRE_CONNECTION_ID":
                self.retire_injected.add(f["seq"])

    def _commit(self):
        for frames, auth in self.batch:
            if not auth:
                continue
            for f in frames:
                if f["name"] == "NEW_CONNECTION_ID":
                    self.max_rpt = max(self.max_rpt, f["retire_prior_to"])
                    self.accepted.add(f["seq"])
                    self.peer_issued.setdefault(f["seq"], f["cid"])
                elif f["name"] == "RETIRE_CONNECTION_ID":
                    self.retired_by_peer.add(f["seq"])
        self.batch = []

    # -- victim side
    def built(self, pn, header, frames):
        names = [f["name"] for f in frames]
        if "TRANSPORT_CLOSE" in names or "APPLICATION_CLOSE" in names:
            for f in frames:
                if f["name"] in ("TRANSPORT_CLOSE", "APPLICATION_CLOSE"):
                    self.closed = f["error_code"]
            self.batch = []
            return
        if self.closed is not None:
            return
        self._commit()
        pnlen = (header[0] & 3) + 1
        seq = None
        for s, cid in self.peer_issued.items():
            if len(header) == 1 + len(cid) + pnlen and header[1:1 + len(cid)] == cid:
                seq = s
        if seq is None:
            self.fail("dest-unknown", f"packet {pn} is addressed to {header[1:-pnlen].hex()}, not an ID the peer issued")
        else:
            if seq < self.max_rpt:
                self.fail("dest-ge-rpt", f"packet {pn} is addressed to connection ID #{seq} after the peer asked to "
                                         f"retire everything below #{self.max_rpt}")
            if not self.used or self.used[-1] != seq:
                self.used.append(seq)
        for f in frames:
            if f["name"] == "RETIRE_CONNECTION_ID":
                self.retire_frames.setdefault(f["seq"], []).append(pn)
            elif f["name"] == "NEW_CONNECTION_ID":
                self.victim_issued.setdefault(f["seq"], f["cid"])
                self.ncid_frames.setdefault(f["seq"], []).append(pn)
                if f["cid"] not in self.events_issued:
                    pass  # the event is drained after the API call: checked at the end
        active = len(self.victim_issued) - len(self.retired_by_peer & set(self.victim_issued))
        if active > self.remote_limit:
            self.fail("issued-le-peer-limit", f"{active} issued and unretired connection IDs after packet {pn}, "
                                              f"peer allows {self.remote_limit}")

    def flushed(self, uncongested=True):
        """the victim just had the opportunity to send everything it wanted
        (unless the congestion window is in the way)"""
        if self.closed is not None:
            return
        self._commit()
        if not uncongested:
            return
        held = len(self.accepted) - len(set(self.retire_frames) & self.accepted)
        if held > self.local_limit:
            self.fail("stock-le-limit", f"{held} peer-issued connection IDs neither retired nor refused "
                                        f"(advertised limit {self.local_limit})")

    def event(self, ev):
        n = type(ev).__name__
        if n == "ConnectionTerminated" and self.closed is None:
            self.closed = ev.error_code       # ended without a CONNECTION_CLOSE on the wire (idle timeout)
        if n == "ConnectionIdIssued":
            self.events_issued.add(bytes(ev.connection_id))
        elif n == "ConnectionIdRetired":
            self.events_retired.add(bytes(ev.connection_id))
        elif n == "HandshakeCompleted":
            self.handshake_done = True

    def final(self, raised):
        """after a fair phase (everything flushed and acknowledged)"""
        for api, e in raised:
            self.fail("no-exception", f"{type(e).__name__}({e}) escaped {api}")
        if self.closed is not None:
            return self.findings
        self._commit()
        self.flushed()
        abandoned = {s for s in self.accepted if s < self.max_rpt} | set(self.used[:-1])
        if self.used and self.used[-1] in abandoned and self.used[-1] >= self.max_rpt:
            abandoned.discard(self.used[-1])   # came back to it is impossible; defensive
        for s in sorted(abandoned):
            if not any(pn in self.acked for pn in self.retire_frames.get(s, [])):
                why = "never announced" if s not in self.retire_frames else "announcement lost and not repeated"
                kind = "reordered" if s not in self.used else "used"
                self.fail(f"retire-announced-{kind}", f"peer-issued connection ID #{s} was abandoned but its retirement was {why}")
        active = set(self.victim_issued) - self.retired_by_peer
        want = min(8, self.remote_limit)
        if self.handshake_done and len(active) != want:
            self.fail("replaced", f"{len(active)} active issued connection IDs after the peer retired "
                                  f"{sorted(self.retired_by_peer)}, expected {want}")
        for s in sorted(active - {0}):
            if not any(pn in self.acked for pn in self.ncid_frames.get(s, [])):
                self.fail("replaced-announced", f"issued connection ID #{s} never reached the peer")
        for s, cid in self.victim_issued.items():
            if s != 0 and cid not in self.events_issued:
                self.fail("event-issued", f"no ConnectionIdIssued event for issued connection ID #{s}")
            if s in self.retired_by_peer and cid not in self.events_retired:
                self.fail("event-retired", f"no ConnectionIdRetired event for connection ID #{s} the peer retired")
        for cid in self.events_retired:
            s = next((k for k, v in self.victim_issued.items() if v == cid), None)
            # (an ID that never appeared on the wire is none of the peer's business: ignored)
            if s is not None and s not in self.retire_injected:
                self.fail("event-retired-spurious", f"ConnectionIdRetired for an ID the peer did not retire ({cid.hex()})")
        return self.findings


class CidSim:
    """script commands (strings):
        pkt <via> <frame>…   inject one 1-RTT packet addressed to the victim's issued ID number
                             sorted(known)[via % n] (`x`: an ID never issued); frames
                             n:<seq>:<rpt>:<len>  r:<seq>  p
        change               victim.change_connection_id()
        flush                victim.datagrams_to_send()
        ack all | ack <mask> acknowledge outstanding victim packets (mask over sorted packet numbers)
        lose                 make the victim declare every outstanding packet lost
        timer                fire the victim's next timer
        fill <n>             victim.send_stream_data(new stream, n bytes) (exhausts the congestion window)
    """

    def __init__(self, seed, victim="client", remote_limit=8, full_peer=False, quirks=(0, 0)):
        from . import sim as S
        self.S = S
        self.ops = []
        self.outs = []
        self.issued = {}
        self.depth = 0
        self.in_receive = False
        self.iter = None
        self.sim = S.Sim(seed, monitors=[self])
        self.V = getattr(self.sim, victim)
        self.P = self.V.peer
        self.remote_limit = remote_limit
        self.P.conn._local_active_connection_id_limit = remote_limit   # what the peer advertises
        if not full_peer:
            self.P.conn._replenish_connection_ids = lambda: None         # the peer issues nothing by itself
        self.vbuilt = {}        # pn -> frames of 1-RTT packets the victim built
        self.auth = set()       # pns of peer packets the victim authenticated
        self.oracle = None
        self.congested = False
        self._pending_built = []
        self._observe()
        self._log(f"cid.new {_b(victim == 'client')} {remote_limit} {quirks[0]} {quirks[1]}", "ok")
        ok = self.sim.handshake()
        self.dead = None
        if not ok:
            # a genuine peer refused to complete the handshake with the victim: a verdict, not a harness error
            why = [f"{ep.name}: {type(ev).__name__}({getattr(ev, 'error_code', '')}, {getattr(ev, 'reason_phrase', '')})"
                   for ep in self.sim.endpoints for _, ev in ep.events if type(ev).__name__ == "ConnectionTerminated"]
            self.dead = "handshake with a genuine peer did not complete: " + "; ".join(why)
            self.oracle = CidOracle(8, remote_limit, b"", b"")
            return
        self.sim.fair_phase(max_steps=40, done=lambda: not self.sim.pending)
        c = self.V.conn
        assert c._remote_active_connection_id_limit == remote_limit
        self.oracle = CidOracle(c._local_active_connection_id_limit, remote_limit,
                                bytes(self.P.conn._host_cids[0].cid), bytes(c._host_cids[0].cid))
        for (pn, header, frames) in self._pending_built:
            self.oracle.built(pn, header, frames)
        for _, ev in self.V.events:
            self.oracle.event(ev)
        if full_peer:
            # what the genuine peer issued during the handshake
            for h in self.P.conn._host_cids:
                if h.sequence_number:
                    self.oracle.peer_issued[h.sequence_number] = bytes(h.cid)
                    self.oracle.accepted.add(h.sequence_number)
        self.probe()

    # ------------------------------------------------------------ observation
    def _log(self, op, status, infl=False):
        self.ops.append(op)
        c = self.V.conn
        self.outs.append(f"{status} | " + project(c, self.issued, self._inflight() if infl else None))

    def _inflight(self):
        from aioquic import tls
        res = []
        sp = self.V.conn._spaces.get(tls.Epoch.ONE_RTT)
        if sp is None:
            return res
        for p in sp.sent_packets.values():
            for h, args in p.delivery_handlers:
                if h is self.w_rdel:
                    res.append(args[0])
        return res

    def probe(self):
        self._log("cid.state", "ok", infl=True)

    def _observe(self):
        from . import frames as F
        c = self.V.conn
        me = self
        handlers = c._QuicConnection__frame_handlers

        def seq_of(cid):
            project(c, me.issued)
            return me.issued.get(bytes(cid))

        def frame_wrapper(orig, kind):
            def w(context, frame_type, buf):
                pos = buf.tell()
                raw = buf.data_slice(pos, buf.capacity)
                try:
                    if kind == "ncid":
                        seq, i = F.get_varint(raw, 0)
                        rpt, i = F.get_varint(raw, i)
                        op = f"cid.ncid {seq} {rpt} {raw[i]}"
                        if i + 1 + raw[i] + 16 > len(raw):
                            op = None
                    else:
                        seq, i = F.get_varint(raw, 0)
                        v = seq_of(context.host_cid)
                        op = f"cid.retire {seq} {'none' if v is None else v}"
                except (F.ParseError, IndexError):
                    op = None
                me.depth += 1
                try:
                    orig(context, frame_type, buf)
                except Exception as e:  # noqa
                    me.depth -= 1
                    if op:
                        me._log(op, "err " + exc_name(e))
                    raise
                me.depth -= 1
                if op:
                    me._log(op, "ok")
            return w

        h, ep = handlers[0x18]
        handlers[0x18] = (frame_wrapper(h, "ncid"), ep)
        h, ep = handlers[0x19]
        handlers[0x19] = (frame_wrapper(h, "retire"), ep)

        orig_change = c.change_connection_id

        def w_change():
            orig_change()
            if me.in_receive:
                v = me.issued.get(bytes(c.host_cid))
                me._log(f"cid.switch {'none' if v is None else v}", "ok")
            else:
                me._log("cid.change", "ok")
        c.change_connection_id = w_change

        orig_repl = c._replenish_connection_ids

        def w_repl():
            assert c._remote_active_connection_id_limit == me.remote_limit, "remote limit changed"
            orig_repl()
            cids = [bytes(x.cid) for x in c._host_cids]
            assert len(set(cids)) == len(cids), "issued connection IDs collide"
            if me.depth == 0:
                me._log("cid.replenish", "ok")
        c._replenish_connection_ids = w_repl

        orig_recv = c.receive_datagram

        def w_recv(*a, **kw):
            me.in_receive = True
            try:
                return orig_recv(*a, **kw)
            finally:
                me.in_receive = False
        c.receive_datagram = w_recv

        # --- the two sections of _write_application, one op per packet iteration
        orig_wn = c._write_new_connection_id_frame
        orig_wr = c._write_retire_connection_id_frame

        def w_wn(builder, connection_id):
            orig_wn(builder=builder, connection_id=connection_id)
            if me.iter is not None:
                me.iter["written"] += 1

        def w_wr(builder, sequence_number):
            orig_wr(builder=builder, sequence_number=sequence_number)
            if me.iter is not None:
                me.iter["written"] += 1
        c._write_new_connection_id_frame = w_wn
        c._write_retire_connection_id_frame = w_wr

        def begin_iter():
            if c._handshake_complete:
                pend = sum(1 for x in c._host_cids if not x.was_sent) + len(c._retire_connection_ids)
                me.iter = {"pending": pend, "written": 0}

        def end_iter(stopped):
            it = me.iter
            me.iter = None
            if it is None:
                return
            if it["pending"] or it["written"]:
                me._log(f"cid.write {it['written'] if stopped else 99}", "ok")

        orig_wa = c._write_application

        def w_wa(builder, network_path, now):
            orig_sp = builder.start_packet

            def sp(ptype, crypto):
                end_iter(False)
                orig_sp(ptype, crypto)
                begin_iter()
            builder.start_packet = sp
            try:
                r = orig_wa(builder, network_path, now)
            except BaseException:
                end_iter(True)
                raise
            finally:
                del builder.start_packet
            end_iter(False)
            return r
        c._write_application = w_wa

        orig_rdel = c._on_retire_connection_id_delivery
        orig_ndel = c._on_new_connection_id_delivery
        from aioquic.quic.packet_builder import QuicDeliveryState

        def w_rdel(delivery, sequence_number):
            orig_rdel(delivery, sequence_number)
            me._log(f"cid.rdel {sequence_number} {_b(delivery == QuicDeliveryState.ACKED)}", "ok")

        def w_ndel(delivery, connection_id):
            orig_ndel(delivery, connection_id)
            me._log(f"cid.ndel {connection_id.sequence_number} {_b(delivery == QuicDeliveryState.ACKED)}", "ok")
        self.w_rdel = w_rdel
        c._on_retire_connection_id_delivery = w_rdel
        c._on_new_connection_id_delivery = w_ndel

    # ------------------------------------------------------------- monitor taps
    def on_packet_built(self, sim, ep, epoch, pn, header, payload, n):
        if ep is not self.V or epoch != "ONE_RTT" or header[0] & 0x80:
            return
        frames = self.S.parse_payload(payload)
        self.vbuilt[pn] = frames
        if self.oracle is None:
            self._pending_built.append((pn, header, frames))
        else:
            self.oracle.built(pn, header, frames)

    def on_packet_authenticated(self, sim, ep, epoch, pn, header, payload):
        if ep is self.V and epoch == "ONE_RTT":
            self.auth.add(pn)

    def on_event(self, sim, ep, ev):
        if ep is self.V and self.oracle is not None:
            self.oracle.event(ev)

    # ----------------------------------------------------------------- commands
    def _known(self):
        return sorted(self.oracle.victim_issued)

    def _inject(self, payload, dcid):
        from . import inject
        from . import frames as F
        pn = self.P.conn._packet_number
        data = inject.build(self.sim, self.P, payload, dcid=dcid)
        self.sim.api(self.V, "receive_datagram", data, self.P.addr, now=self.sim.now)
        self.oracle.injected(pn, dcid, F.parse_frames(payload), pn in self.auth)

    def flush(self):
        self.sim.now += 0.01           # let the pacer's bucket refill
        self.sim.transmit(self.V)
        self.sim.pending.clear()       # the peer's acknowledgements are made by the harness
        self.oracle.flushed(uncongested=not self.congested)

    def outstanding(self):
        from aioquic import tls
        sp = self.V.conn._spaces[tls.Epoch.ONE_RTT]
        return sorted(sp.sent_packets.keys())

    def ack(self, pns):
        from . import frames as F
        if not pns:
            return
        rs = []
        for p in sorted(pns):
            if rs and rs[-1][1] == p - 1:
                rs[-1] = (rs[-1][0], p)
            else:
                rs.append((p, p))
        self.oracle.acked |= set(pns)
        # address it to the ID the victim believes the peer uses, if the peer has not retired it
        c = self.V.conn
        active = [bytes(h.cid) for h in c._host_cids]
        dcid = bytes(c.host_cid) if bytes(c.host_cid) in active else active[0]
        self._inject(F.enc_ack(rs), dcid)

    def lose(self):
        out = self.outstanding()
        if not out:
            return
        self.sim.api(self.V, "send_ping", 0)
        self.flush()
        if self.V.conn._state.name != "CONNECTED":
            return
        new = [p for p in self.outstanding() if p not in out]
        if not new:
            return
        self.ack([new[-1]])
        for _ in range(4):
            if not any(p < new[-1] for p in self.outstanding()):
                break
            self.sim.now += 1.0
            self.sim.fire_timer(self.V)
            self.sim.pending.clear()

    def command(self, cmd):
        from . import frames as F
        t = cmd.split()
        if self.V.terminated or self.V.conn._state.name != "CONNECTED":
            return     # closing: the connection handles nothing any more (and has dropped its packet spaces)
        if t[0] == "pkt":
            known = self._known()
            dcid = UNKNOWN_CID if t[1] == "x" else self.oracle.victim_issued[known[int(t[1]) % len(known)]]
            payload = b""
            for f in t[2:]:
                a = f.split(":")
                if a[0] == "n":
                    payload += F.enc_new_connection_id(int(a[1]), int(a[2]), peer_cid_bytes(int(a[1]), int(a[3])))
                elif a[0] == "r":
                    payload += F.enc_retire_connection_id(int(a[1]))
                else:
                    payload += b"\x01"
            self._inject(payload, dcid)
        elif t[0] == "change":
            self.sim.api(self.V, "change_connection_id")
        elif t[0] == "flush":
            self.flush()
        elif t[0] == "ack":
            out = self.outstanding()
            if t[1] != "all":
                m = int(t[1])
                out = [p for i, p in enumerate(out) if m >> i & 1]
            self.ack(out)
        elif t[0] == "lose":
            self.lose()
        elif t[0] == "fill":
            # application data that exhausts the congestion window: later CID frames meet QuicPacketBuilderStop
            self.congested = True
            sid = self.V.conn.get_next_available_stream_id()
            self.sim.api(self.V, "send_stream_data", sid, b"x" * int(t[1]))
            for _ in range(6):          # the pacer lets a few packets out per call
                self.flush()
        elif t[0] == "timer":
            tm = self.sim.check_timer(self.V)
            if tm is not None and tm - self.sim.now < 5.0:      # loss / PTO / ack timers, not the idle timeout
                self.sim.fire_timer(self.V)
                self.sim.pending.clear()
        else:
            raise ValueError(cmd)
        if self.V.conn._state.name == "CONNECTED":
            self.probe()

    def finish(self):
        """fair phase, then the oracle's verdicts"""
        for _ in range(80):
            if self.V.terminated or self.V.conn._state.name != "CONNECTED":
                break
            n = len(self.vbuilt)
            self.flush()
            out = self.outstanding()
            if not out and len(self.vbuilt) == n:
                break
            self.ack(out)
        if self.V.conn._state.name == "CONNECTED":
            self.probe()
        f = self.oracle.final(self.V.raised)
        self.sim.close_taps()
        return f

    def run(self, script):
        if self.dead:
            self.sim.close_taps()
            return [("handshake", self.dead)] + [("no-exception", f"{type(e).__name__}({e}) escaped {api}")
                                                 for api, e in self.V.raised]
        for cmd in script:
            self.command(cmd)
        return self.finish()


def run_script(seed, victim, remote_limit, full_peer, script, quirks=(0, 0)):
    cache_private_key()
    cs = CidSim(seed, victim, remote_limit, full_peer, quirks)
    findings = cs.run(script)
    return {"ops": cs.ops, "outs": cs.outs, "findings": findings,
            "closed": cs.oracle.closed, "raised": [type(e).__name__ for _, e in cs.V.raised]}


_key_cache = {}


def cache_private_key():
    """harness-side memoisation of PEM private-key parsing (125 ms per call
    here, same key every time); no effect on the connection's behaviour"""
    from aioquic.quic import configuration as C
    if getattr(C.load_pem_private_key, "_cid_cached", False):
        return
    orig = C.load_pem_private_key

    def cached(data, password=None):
        k = (bytes(data), password)
        if k not in _key_cache:
            _key_cache[k] = orig(data, password=password)
        return _key_cache[k]
    cached._cid_cached = True
    C.load_pem_private_key = cached
