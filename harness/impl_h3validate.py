"""Runs the `h3v.` line protocol against the real aioquic HTTP/3 code.

Function-level ops call the validators of aioquic.h3.connection directly.
Stream-level ops drive a real H3Connection over a fake QUIC connection (as
tests/test_h3.py does) with real QPACK-encoded HEADERS / PUSH_PROMISE frames,
so `_receive_stream_data` -> `_receive_request_or_push_data` ->
`_handle_request_or_push_frame` run unmodified; the printed events are the
H3 events returned by `handle_event` and the error is the code handed to
`QuicConnection.close`."""

KINDS = ("req", "resp", "trl", "push")


def _hx(b):
    return b.hex() if b else "-"


def _opt(x):
    return "none" if x is None else str(x)


def _pint(value, nbits, flags):
    """QPACK prefixed integer (RFC 9204 4.1.1)"""
    lim = (1 << nbits) - 1
    if value < lim:
        return bytes([flags | value])
    out = bytearray([flags | lim])
    value -= lim
    while value >= 128:
        out.append(value % 128 + 128)
        value //= 128
    out.append(value)
    return bytes(out)


def parse_headers(tok):
    """`-` = empty list; else comma separated `<namehex>:<valuehex>` (either may be empty)"""
    if tok == "-":
        return []
    hs = []
    for item in tok.split(","):
        n, v = item.split(":")
        hs.append((bytes.fromhex(n), bytes.fromhex(v)))
    return hs


def fmt_headers(hs):
    if not hs:
        return "-"
    return ",".join(f"{bytes(n).hex()}:{bytes(v).hex()}" for n, v in hs)


class _Cfg:
    def __init__(self, is_client):
        self.is_client = is_client


class FakeQuic:
    """the part of QuicConnection H3Connection touches"""

    def __init__(self, is_client):
        self.configuration = _Cfg(is_client)
        self.closed = None
        self._quic_logger = None
        self._remote_max_datagram_frame_size = None
        self._next_bidi = 0 if is_client else 1
        self._next_uni = 2 if is_client else 3
        self.sent = []

    def close(self, error_code, reason_phrase=""):
        if self.closed is None:
            self.closed = (int(error_code), reason_phrase)

    def get_next_available_stream_id(self, is_unidirectional=False):
        if is_unidirectional:
            s = self._next_uni
            self._next_uni += 4
        else:
            s = self._next_bidi
            self._next_bidi += 4
        return s

    def send_stream_data(self, stream_id, data, end_stream=False):
        self.sent.append((stream_id, data, end_stream))


class H3ValidateImpl:
    def __init__(self):
        import pylsqpack
        from aioquic.buffer import encode_uint_var
        from aioquic.h3 import connection as h3c
        from aioquic.h3 import events as h3e
        from aioquic.quic.events import StreamDataReceived
        self.h3c = h3c
        self.h3e = h3e
        self.SDR = StreamDataReceived
        self.uvar = encode_uint_var
        self.qpack = pylsqpack
        self.conn = None

    # ------------------------------------------------------------ stream side
    def new(self, is_client, is_push):
        self.quic = FakeQuic(is_client)
        self.conn = self.h3c.H3Connection(self.quic)
        self.enc = self.qpack.Encoder()
        self.is_push = is_push
        if is_push:
            # peer-initiated unidirectional stream of type PUSH, push id 0
            self.sid = 3 if is_client else 2
            evs = self.conn.handle_event(self.SDR(
                data=self.uvar(self.h3c.StreamType.PUSH) + self.uvar(0),
                end_stream=False, stream_id=self.sid))
            assert evs == [] and self.quic.closed is None
        else:
            self.sid = 0
        # peer QPACK encoder stream: stream type 2, "set dynamic table capacity 4096";
        # inserts are queued until `h3v.unblock`
        self.enc_sid = (7 if is_client else 6)
        evs = self.conn.handle_event(self.SDR(data=b"\x02" + _pint(4096, 5, 0x20), end_stream=False, stream_id=self.enc_sid))
        assert evs == [] and self.quic.closed is None
        self.inserts = 0
        self.queued = b""

    def blocking_block(self, hs):
        """a QPACK header block for `hs` (hand-encoded, no Huffman) whose first field
        references a dynamic-table entry inserted by encoder-stream bytes that are
        only queued: decoding blocks until they are delivered"""
        name, value = hs[0]
        self.queued += _pint(len(name), 5, 0x40) + name + _pint(len(value), 7, 0x00) + value
        self.inserts += 1
        ric = self.inserts
        block = _pint(ric % 256 + 1, 8, 0) + b"\x00" + b"\x80"      # base = ric, newest entry
        for n, v in hs[1:]:
            block += _pint(len(n), 3, 0x20) + n + _pint(len(v), 7, 0x00) + v
        return block

    def blocked(self):
        st = self.stream()
        return st is not None and st.blocked

    def stream(self):
        return self.conn._stream.get(self.sid)

    def rem(self):
        st = self.stream()
        if st is None or st.frame_size is None or st.frame_type != self.h3c.FrameType.DATA:
            return 0
        return st.frame_size

    def show(self):
        if self.conn._is_done:
            return "done=1"
        st = self.stream()
        if st is None:
            return "hs=0 ecl=none cl=0 rem=0 re=0 blk=0 buf=0 done=0"
        return (f"hs={st.headers_recv_state.value} ecl={_opt(st.expected_content_length)} "
                f"cl={st.content_length} rem={self.rem()} re={1 if st.receiving_ended else 0} "
                f"blk={1 if st.blocked else 0} buf={1 if (st.blocked and st.buffer) else 0} done=0")

    def encode_headers(self, hs):
        e, frame = self.enc.encode(self.sid, hs)
        assert e == b""      # no dynamic table: nothing on the encoder stream
        return frame

    def feed(self, data, fin, sid=None):
        closed_before = self.quic.closed
        evs = self.conn.handle_event(self.SDR(data=data, end_stream=fin, stream_id=self.sid if sid is None else sid))
        if self.quic.closed is not None and closed_before is None:
            assert evs == []
            return f"err H3Error({self.quic.closed[0]}) | " + self.show()
        out = []
        for ev in evs:
            if isinstance(ev, self.h3e.HeadersReceived):
                out.append(f"H({fmt_headers(ev.headers)},end={1 if ev.stream_ended else 0})")
            elif isinstance(ev, self.h3e.DataReceived):
                out.append(f"D(n={len(ev.data)},end={1 if ev.stream_ended else 0})")
            elif isinstance(ev, self.h3e.PushPromiseReceived):
                out.append(f"P({fmt_headers(ev.headers)})")
            else:
                out.append(type(ev).__name__)
        return "ok " + (";".join(out) if out else "-") + " | " + self.show()

    def frame(self, ftype, payload):
        return self.h3c.encode_frame(ftype, payload)

    # ------------------------------------------------------------------ step
    def step(self, line):
        t = line.split()
        op = t[0]
        h3c = self.h3c
        try:
            if op == "h3v.name":
                h3c.validate_header_name(b"" if t[1] == "-" else bytes.fromhex(t[1]))
                return "ok"
            if op == "h3v.value":
                h3c.validate_header_value(b"k", b"" if t[1] == "-" else bytes.fromhex(t[1]))
                return "ok"
            if op == "h3v.int":
                return "ok " + str(int(b"" if t[1] == "-" else bytes.fromhex(t[1])))
            if op == "h3v.headers":
                hs = parse_headers(t[2])
                if t[1] == "req":
                    st = h3c.H3Stream(0)
                    h3c.validate_request_headers(hs, st)
                    return "ok cl=" + _opt(st.expected_content_length)
                if t[1] == "resp":
                    st = h3c.H3Stream(0)
                    h3c.validate_response_headers(hs, st)
                    return "ok cl=" + _opt(st.expected_content_length)
                if t[1] == "trl":
                    h3c.validate_trailers(hs)
                    return "ok cl=none"
                if t[1] == "push":
                    h3c.validate_push_promise_headers(hs)
                    return "ok cl=none"
                return "bad-op"
            if op == "h3v.new":
                self.new(t[1] == "1", t[2] == "1")
                return "ok | " + self.show()
            if self.conn is None:
                return "bad-op"
            if self.conn._is_done and op in ("h3v.hdr", "h3v.pp", "h3v.hdrdata", "h3v.data", "h3v.frag", "h3v.fin", "h3v.other",
                                               "h3v.hdrb", "h3v.ppb", "h3v.unblock"):
                # nothing is looked at any more: handle_event returns [] at once
                return self.feed(b"\x00", op == "h3v.fin" or t[-1] == "1")
            if op in ("h3v.hdrb", "h3v.ppb"):
                hs = parse_headers(t[1])
                fin = t[2] == "1"
                if self.blocked() or self.rem() != 0 or not hs or any(len(n) == 0 for n, _ in hs):
                    return "bad-op"
                block = self.blocking_block(hs)
                if op == "h3v.hdrb":
                    data = self.frame(h3c.FrameType.HEADERS, block)
                else:
                    data = self.frame(h3c.FrameType.PUSH_PROMISE, self.uvar(0) + block)
                return self.feed(data, fin)
            if op == "h3v.unblock":
                if not self.blocked():
                    return "bad-op"
                data, self.queued = self.queued, b""
                return self.feed(data, False, sid=self.enc_sid)
            if self.blocked() and (op == "h3v.frag" or (op == "h3v.data" and t[1] != t[2])):
                return "bad-op"      # only complete frames are buffered behind a blocked frame
            if op in ("h3v.hdr", "h3v.pp"):
                hs = parse_headers(t[1])
                fin = t[2] == "1"
                if self.rem() != 0 or not hs or any(len(n) == 0 for n, _ in hs):
                    return "bad-op"
                if op == "h3v.hdr":
                    data = self.frame(h3c.FrameType.HEADERS, self.encode_headers(hs))
                else:
                    data = self.frame(h3c.FrameType.PUSH_PROMISE, self.uvar(0) + self.encode_headers(hs))
                return self.feed(data, fin)
            if op == "h3v.hdrdata":
                hs = parse_headers(t[1])
                n = int(t[2])
                fin = t[3] == "1"
                if self.rem() != 0 or not hs or any(len(k) == 0 for k, _ in hs):
                    return "bad-op"
                data = (self.frame(h3c.FrameType.HEADERS, self.encode_headers(hs))
                        + self.frame(h3c.FrameType.DATA, bytes(n)))
                return self.feed(data, fin)
            if op == "h3v.data":
                total, present, fin = int(t[1]), int(t[2]), t[3] == "1"
                if self.rem() != 0 or present > total:
                    return "bad-op"
                data = self.frame(h3c.FrameType.DATA, bytes(total))
                data = data[: len(data) - (total - present)]
                return self.feed(data, fin)
            if op == "h3v.frag":
                n, fin = int(t[1]), t[2] == "1"
                if self.rem() == 0 or n > self.rem():
                    return "bad-op"
                return self.feed(bytes(n), fin)
            if op == "h3v.fin":
                return self.feed(b"", True)
            if op == "h3v.other":
                ft, fin = int(t[1]), t[2] == "1"
                if self.rem() != 0 or ft in (0x0, 0x1, 0x5, 0x41):
                    return "bad-op"
                return self.feed(self.frame(ft, b""), fin)
            return "bad-op"
        except h3c.ProtocolError as e:
            return f"err H3Error({int(e.error_code)})"
        except Exception as e:
            return f"err {type(e).__name__}"
