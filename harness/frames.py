"""Independent QUIC frame parser/encoder written from RFC 9000 §12.4/§19 and
RFC 9221 (not from aioquic).  Used by the wire tap and the injector."""


class ParseError(Exception):
    pass


def get_varint(b, i):
    if i >= len(b):
        raise ParseError("varint")
    p = b[i] >> 6
    n = 1 << p
    if i + n > len(b):
        raise ParseError("varint")
    v = b[i] & 0x3F
    for k in range(1, n):
        v = (v << 8) | b[i + k]
    return v, i + n


def put_varint(v, minlen=0):
    if v < 0 or v >= 1 << 62:
        raise ValueError(v)
    if v < 64 and minlen <= 1:
        return bytes([v])
    if v < 16384 and minlen <= 2:
        return (v | 0x4000).to_bytes(2, "big")
    if v < 1 << 30 and minlen <= 4:
        return (v | 0x80000000).to_bytes(4, "big")
    return (v | 0xC000000000000000).to_bytes(8, "big")


NAMES = {
    0x00: "PADDING", 0x01: "PING", 0x02: "ACK", 0x03: "ACK_ECN", 0x04: "RESET_STREAM",
    0x05: "STOP_SENDING", 0x06: "CRYPTO", 0x07: "NEW_TOKEN", 0x10: "MAX_DATA",
    0x11: "MAX_STREAM_DATA", 0x12: "MAX_STREAMS_BIDI", 0x13: "MAX_STREAMS_UNI",
    0x14: "DATA_BLOCKED", 0x15: "STREAM_DATA_BLOCKED", 0x16: "STREAMS_BLOCKED_BIDI",
    0x17: "STREAMS_BLOCKED_UNI", 0x18: "NEW_CONNECTION_ID", 0x19: "RETIRE_CONNECTION_ID",
    0x1A: "PATH_CHALLENGE", 0x1B: "PATH_RESPONSE", 0x1C: "TRANSPORT_CLOSE",
    0x1D: "APPLICATION_CLOSE", 0x1E: "HANDSHAKE_DONE", 0x30: "DATAGRAM", 0x31: "DATAGRAM_LEN",
}
NON_ACK_ELICITING = {0x00, 0x02, 0x03, 0x1C, 0x1D}


def parse_frames(b):
    """returns list of dict(type=…, name=…, fields…); raises ParseError"""
    out = []
    i = 0
    n = len(b)
    while i < n:
        t, i = get_varint(b, i)
        f = {"type": t}
        if t == 0x00:
            j = i
            while j < n and b[j] == 0:
                j += 1
            f["length"] = j - i + 1
            i = j
        elif t == 0x01 or t == 0x1E:
            pass
        elif t in (0x02, 0x03):
            largest, i = get_varint(b, i)
            delay, i = get_varint(b, i)
            count, i = get_varint(b, i)
            first, i = get_varint(b, i)
            ranges = []
            hi = largest
            lo = largest - first
            if lo < 0:
                raise ParseError("ack range")
            ranges.append((lo, hi))
            for _ in range(count):
                gap, i = get_varint(b, i)
                ln, i = get_varint(b, i)
                hi = lo - gap - 2
                lo = hi - ln
                if lo < 0:
                    raise ParseError("ack range")
                ranges.append((lo, hi))
            if t == 0x03:
                for _ in range(3):
                    _, i = get_varint(b, i)
            f.update(largest=largest, delay=delay, ranges=ranges)  # inclusive (lo, hi), descending
        elif t == 0x04:
            f["stream_id"], i = get_varint(b, i)
            f["error_code"], i = get_varint(b, i)
            f["final_size"], i = get_varint(b, i)
        elif t == 0x05:
            f["stream_id"], i = get_varint(b, i)
            f["error_code"], i = get_varint(b, i)
        elif t == 0x06:
            f["offset"], i = get_varint(b, i)
            ln, i = get_varint(b, i)
            if i + ln > n:
                raise ParseError("crypto")
            f["data"] = bytes(b[i:i + ln])
            i += ln
        elif t == 0x07:
            ln, i = get_varint(b, i)
            if i + ln > n:
                raise ParseError("token")
            f["token"] = bytes(b[i:i + ln])
            i += ln
        elif 0x08 <= t <= 0x0F:
            f["stream_id"], i = get_varint(b, i)
            off = 0
            if t & 4:
                off, i = get_varint(b, i)
            if t & 2:
                ln, i = get_varint(b, i)
            else:
                ln = n - i
            if i + ln > n:
                raise ParseError("stream")
            f.update(offset=off, data=bytes(b[i:i + ln]), fin=bool(t & 1))
            i += ln
        elif t in (0x10, 0x12, 0x13, 0x14, 0x16, 0x17):
            f["value"], i = get_varint(b, i)
        elif t in (0x11, 0x15):
            f["stream_id"], i = get_varint(b, i)
            f["value"], i = get_varint(b, i)
        elif t == 0x18:
            f["seq"], i = get_varint(b, i)
            f["retire_prior_to"], i = get_varint(b, i)
            if i >= n:
                raise ParseError("ncid")
            ln = b[i]
            i += 1
            if i + ln + 16 > n:
                raise ParseError("ncid")
            f["cid"] = bytes(b[i:i + ln])
            i += ln
            f["token"] = bytes(b[i:i + 16])
            i += 16
        elif t == 0x19:
            f["seq"], i = get_varint(b, i)
        elif t in (0x1A, 0x1B):
            if i + 8 > n:
                raise ParseError("path")
            f["data"] = bytes(b[i:i + 8])
            i += 8
        elif t in (0x1C, 0x1D):
            f["error_code"], i = get_varint(b, i)
            if t == 0x1C:
                f["frame_type"], i = get_varint(b, i)
            ln, i = get_varint(b, i)
            if i + ln > n:
                raise ParseError("close")
            f["reason"] = bytes(b[i:i + ln])
            i += ln
        elif t in (0x30, 0x31):
            if t == 0x31:
                ln, i = get_varint(b, i)
            else:
                ln = n - i
            if i + ln > n:
                raise ParseError("datagram")
            f["data"] = bytes(b[i:i + ln])
            i += ln
        else:
            raise ParseError("unknown frame type %x" % t)
        f["name"] = "STREAM" if 0x08 <= t <= 0x0F else NAMES.get(t, hex(t))
        out.append(f)
    return out


# ---------------------------------------------------------------- encoders
def enc_stream(stream_id, offset, data, fin=False, with_len=True):
    t = 0x08 | (4 if offset else 0) | (2 if with_len else 0) | (1 if fin else 0)
    b = bytes([t]) + put_varint(stream_id)
    if offset:
        b += put_varint(offset)
    if with_len:
        b += put_varint(len(data))
    return b + data


def enc_reset_stream(stream_id, error_code, final_size):
    return b"\x04" + put_varint(stream_id) + put_varint(error_code) + put_varint(final_size)


def enc_stop_sending(stream_id, error_code):
    return b"\x05" + put_varint(stream_id) + put_varint(error_code)


def enc_crypto(offset, data):
    return b"\x06" + put_varint(offset) + put_varint(len(data)) + data


def enc_max_data(v):
    return b"\x10" + put_varint(v)


def enc_max_stream_data(stream_id, v):
    return b"\x11" + put_varint(stream_id) + put_varint(v)


def enc_max_streams(v, uni=False):
    return (b"\x13" if uni else b"\x12") + put_varint(v)


def enc_new_connection_id(seq, rpt, cid, token=bytes(16)):
    return b"\x18" + put_varint(seq) + put_varint(rpt) + bytes([len(cid)]) + cid + token


def enc_retire_connection_id(seq):
    return b"\x19" + put_varint(seq)


def enc_path_challenge(data):
    return b"\x1a" + data


def enc_path_response(data):
    return b"\x1b" + data


def enc_ack(ranges, delay=0):
    """ranges: list of inclusive (lo, hi), any order, disjoint non-adjacent"""
    rs = sorted(ranges, reverse=True)
    b = b"\x02" + put_varint(rs[0][1]) + put_varint(delay) + put_varint(len(rs) - 1) + put_varint(rs[0][1] - rs[0][0])
    prev_lo = rs[0][0]
    for lo, hi in rs[1:]:
        b += put_varint(prev_lo - hi - 2) + put_varint(hi - lo)
        prev_lo = lo
    return b


def enc_close(error_code, frame_type=0, reason=b"", app=False):
    if app:
        return b"\x1d" + put_varint(error_code) + put_varint(len(reason)) + reason
    return b"\x1c" + put_varint(error_code) + put_varint(frame_type) + put_varint(len(reason)) + reason
