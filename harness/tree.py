"""Scratch copy of /repo's *working tree* with freshly compiled C extensions.

The installed package is an editable install pointing at /repo/src, whose .so
files are git-ignored and stale when the C sources change.  Every check
therefore imports aioquic from a scratch copy built here."""
import atexit
import os
import shutil
import subprocess
import sys
import sysconfig
import tempfile

REPO = os.environ.get("VERIF_REPO", "/repo")
_built = None


class TreeBuildError(Exception):
    pass


def build(asan: bool = False) -> str:
    """returns a directory to put first on sys.path"""
    root = tempfile.mkdtemp(prefix="aqtree-")
    atexit.register(shutil.rmtree, root, True)
    dst = os.path.join(root, "aioquic")
    shutil.copytree(
        os.path.join(REPO, "src", "aioquic"), dst,
        ignore=shutil.ignore_patterns("*.so", "__pycache__"),
    )
    inc = sysconfig.get_paths()["include"]
    for name, libs in (("_buffer", []), ("_crypto", ["-lcrypto"])):
        if asan:
            cc = ["clang", "-fsanitize=address,undefined", "-fno-omit-frame-pointer", "-g"]
        else:
            cc = ["gcc", "-O1"]
        cmd = cc + [
            "-shared", "-fPIC", "-std=c99", "-DPy_LIMITED_API=0x030A0000",
            "-I", inc, os.path.join(dst, name + ".c"),
            "-o", os.path.join(dst, name + ".abi3.so"),
        ] + libs
        r = subprocess.run(cmd, capture_output=True, text=True)
        if r.returncode != 0:
            raise TreeBuildError(f"{name}: {r.stderr[-2000:]}")
    return root


def activate() -> str:
    """build once and make `import aioquic` resolve to the scratch tree"""
    global _built
    if _built is None:
        _built = build()
        sys.path.insert(0, _built)
        for m in [m for m in sys.modules if m == "aioquic" or m.startswith("aioquic.")]:
            del sys.modules[m]
        import aioquic  # noqa
        assert aioquic.__file__.startswith(_built), aioquic.__file__
    return _built


def src(rel: str) -> str:
    """path of a source file in the working tree under test"""
    return os.path.join(REPO, "src", "aioquic", rel)
