"""`prot.*` op lines on the real aioquic objects (_crypto C helpers,
CryptoContext, get_retry_integrity_tag).  The objects are LIVE: one
HeaderProtection per (cipher, key), one CryptoContext per key set, kept for the
life of the adapter exactly as a connection keeps them, so that state carried
inside the C objects between calls (buffers, mask, cipher contexts) is part of
what is compared against the stateless model.  Arguments after `|` are the
independent primitive's answers for the Lean model and are ignored here."""


def hx(b):
    return bytes(b).hex() if len(b) else "-"


def unhx(s):
    return b"" if s == "-" else bytes.fromhex(s)


class ProtImpl:
    def __init__(self):
        from aioquic import _crypto
        from aioquic.quic import crypto as qc
        from aioquic.quic import packet as qp
        from aioquic.buffer import Buffer
        from aioquic.tls import CipherSuite
        self.c = _crypto
        self.qc = qc
        self.qp = qp
        self.Buffer = Buffer
        self.CipherSuite = CipherSuite
        self.live = {}

    def step(self, line):
        t = line.split()
        if "|" in t:
            t = t[: t.index("|")]
        try:
            return self._step(t)
        except self.qc.KeyUnavailableError:
            return "err KeyUnavailableError"
        except self.c.CryptoError:
            return "err CryptoError"
        except Exception as e:  # noqa
            return "err " + type(e).__name__

    def _hp(self, name, key):
        k = ("hp", name, key)
        if k not in self.live:
            self.live[k] = self.c.HeaderProtection(name.encode(), key)
        return self.live[k]

    def _ctx(self, suite, key, iv, hp, key_phase=0):
        k = ("ctx", suite, key, iv, hp, key_phase)
        if k not in self.live:
            self.live[k] = self._new_ctx(suite, key, iv, hp, key_phase)
        return self.live[k]

    def _new_ctx(self, suite, key, iv, hp, key_phase=0):
        hp_name, aead_name = self.qc.CIPHER_SUITES[self.CipherSuite(int(suite))]
        ctx = self.qc.CryptoContext(key_phase=key_phase)
        ctx.aead = self.c.AEAD(aead_name, key, iv)
        ctx.hp = self.c.HeaderProtection(hp_name, hp)
        ctx.cipher_suite = self.CipherSuite(int(suite))
        return ctx

    def _step(self, t):
        op = t[0]
        if op == "prot.apply":
            hp = self._hp(t[1], unhx(t[2]))
            return "ok " + hx(hp.apply(unhx(t[3]), unhx(t[4])))
        if op == "prot.remove":
            hp = self._hp(t[1], unhx(t[2]))
            h, n = hp.remove(unhx(t[3]), int(t[4]))
            return f"ok {hx(h)} {n}"
        if op == "prot.encrypt":
            ctx = self._ctx(t[1], unhx(t[2]), unhx(t[3]), unhx(t[4]))
            return "ok " + hx(ctx.encrypt_packet(unhx(t[5]), unhx(t[6]), int(t[7])))
        if op == "prot.decrypt":
            k = ("dec", t[1], t[2], t[3], t[4])
            if k not in self.live:
                ctx = self.qc.CryptoContext(key_phase=int(t[4]))
                ctx.setup(cipher_suite=self.CipherSuite(int(t[1])), secret=unhx(t[3]), version=int(t[2]))
                self.live[k] = ctx
            ctx = self.live[k]
            h, p, pn, upd = ctx.decrypt_packet(unhx(t[5]), int(t[6]), int(t[7]))
            return f"ok hdr={hx(h)} payload={hx(p)} pn={pn} upd={1 if upd else 0}"
        if op == "prot.decrypt.nokey":
            self.qc.CryptoContext().decrypt_packet(unhx(t[1]), int(t[2]), int(t[3]))
            return "ok"
        if op == "prot.retry":
            data = unhx(t[3])
            buf = self.Buffer(data=data)
            header = self.qp.pull_quic_header(buf, host_cid_length=8)
            assert header.packet_type == self.qp.QuicPacketType.RETRY
            tag = self.qp.get_retry_integrity_tag(
                buf.data_slice(0, buf.tell() - self.qp.RETRY_INTEGRITY_TAG_SIZE), unhx(t[2]),
                version=header.version)
            return "ok " + ("1" if header.integrity_tag == tag else "0")
        return "bad-op"
