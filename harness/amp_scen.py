"""Scenarios and wire-level oracles for C13 (and the flight clause of C08) on
real connections.  The oracle reads only: datagrams delivered to / sent by an
endpoint (length, address), packets built / authenticated (frames), and the
congestion window / bytes in flight the endpoint reports before a send call."""
import os

from . import frames as F, sim as S

JUNK_ADDR = ("6.6.6.6", 666)
CLIENT_ADDR3 = ("1.2.3.77", 7777)     # a third client-side address: never challenged unless the server chooses to


class Store:
    def __init__(self):
        self.t = {}

    def add(self, ticket):
        self.t[ticket.ticket] = ticket

    def pop(self, label):
        return self.t.pop(label, None)


class AmpOracle:
    def __init__(self):
        self.recv = {}          # (ep, addr) -> bytes received from addr
        self.sent = {}          # (ep, addr) -> bytes sent to addr
        self.valid = set()      # (ep, addr) validated
        self.challenge = {}     # (ep, data) -> addr the PATH_CHALLENGE was sent to
        self.cur_from = {}      # ep -> source address of the datagram being processed
        self.built = {}         # ep -> packets built in the current send call
        self.call = {}          # ep -> snapshot at datagrams_to_send entry
        self.problems = []
        self.n = {"datagrams": 0, "unvalidated_sends": 0, "padded": 0, "flight_calls": 0, "limited_calls": 0,
                  "rebinds_checked": 0}

    def _bad(self, kind, text):
        if sum(1 for k, _ in self.problems if k == kind) < 2:      # two per kind: no kind crowds out another
            self.problems.append((kind, text))

    # ------------------------------------------------------------ receiving
    def on_datagram_delivered(self, sim, ep, d, addr):
        k = (ep.name, addr)
        self.recv[k] = self.recv.get(k, 0) + len(d["data"])
        self.cur_from[ep.name] = addr

    def on_packet_authenticated(self, sim, ep, epoch, pn, hdr, payload):
        addr = self.cur_from.get(ep.name)
        if epoch == "HANDSHAKE" and addr is not None:
            self.valid.add((ep.name, addr))      # RFC 9000 8.1: a Handshake packet from the address validates it
        for f in S.parse_payload(payload):
            if f.get("name") == "PATH_RESPONSE":
                to = self.challenge.get((ep.name, f["data"]))
                if to is not None:
                    self.valid.add((ep.name, to))

    # -------------------------------------------------------------- sending
    def before_api(self, sim, ep, name, args, kw):
        pend = getattr(self, "check_ledger_after_send", None)
        if pend is not None:
            self.check_ledger_after_send = None
            self.check_ledger(sim, pend)
        if name == "connect":
            self.valid.add((ep.name, args[0]))   # the client chose this address
        if name == "datagrams_to_send":
            c = ep.conn
            self.built[ep.name] = []
            self.call[ep.name] = {"cwnd": c._loss.congestion_window, "bif": c._loss.bytes_in_flight,
                                  "probe": c._probe_pending, "closing": c._close_pending,
                                  "mds": c._max_datagram_size}

    def on_packet_built(self, sim, ep, epoch, pn, hdr, payload, outlen):
        fr = S.parse_payload(payload)
        self.built.setdefault(ep.name, []).append({
            "epoch": epoch, "pn": pn, "len": outlen,
            "ack_eliciting": any(f.get("type") not in F.NON_ACK_ELICITING for f in fr),
            "in_flight": any(f.get("name") not in ("ACK", "ACK_ECN", "TRANSPORT_CLOSE", "APPLICATION_CLOSE") for f in fr),
            "challenges": [f["data"] for f in fr if f.get("name") == "PATH_CHALLENGE"]})

    def on_datagram_sent(self, sim, ep, d):
        n = len(d["data"])
        to = d["to"]
        self.n["datagrams"] += 1
        snap = self.call.get(ep.name, {})
        if n > snap.get("mds", 1 << 30):
            self._bad("size", f"{ep.name} sends a datagram of {n} bytes, max_datagram_size is {snap['mds']}")
        # packets inside this datagram
        inside, used = [], 0
        q = self.built.get(ep.name, [])
        while q and used + q[0]["len"] <= n:
            p = q.pop(0)
            inside.append(p)
            used += p["len"]
            if p["epoch"] == "ONE_RTT":
                break
        d["packets"] = inside
        for p in inside:
            for ch in p["challenges"]:
                self.challenge[(ep.name, ch)] = to
        need = any(p["epoch"] == "INITIAL" and (ep.is_client or p["ack_eliciting"]) for p in inside)
        if need:
            self.n["padded"] += 1
            if n < 1200:
                who = "client" if ep.is_client else "server"
                what = "an Initial packet" if ep.is_client else "an ack-eliciting Initial packet"
                self._bad("padding", f"{who} datagram of {n} bytes contains {what} "
                                     f"({[(p['epoch'], p['len']) for p in inside]})")
        k = (ep.name, to)
        self.sent[k] = self.sent.get(k, 0) + n
        if k not in self.valid:
            self.n["unvalidated_sends"] += 1
            if to != S.CLIENT_ADDR:
                self.n["rebinds_checked"] += 1
            self.check_ledger_after_send = ep
            if self.sent[k] > 3 * self.recv.get(k, 0):
                self._bad("amplification", f"{ep.name} has sent {self.sent[k]} bytes to unvalidated {to}, "
                                           f"received {self.recv.get(k, 0)} from it"
                                           + (" (CONNECTION_CLOSE)" if snap.get("closing") else ""))

    def check_ledger(self, sim, ep):
        """the endpoint's anti-amplification ledger against the datagrams actually exchanged with each
        address: while a path is unvalidated it must not be charged less than was handed out for it,
        nor credited more than arrived from it (the safe directions may differ: bytes received in a
        terminal state or on a path object that was dropped are not credited)"""
        for p in ep.conn._network_paths:
            k = (ep.name, p.addr)
            if p.is_validated and k not in self.valid:
                # the endpoint lifted the 3x limit for an address that never proved it receives our
                # packets: no Handshake packet authenticated from it, no PATH_RESPONSE echoed a
                # challenge sent to it (RFC 9000 8.1 / 8.2)
                self._bad("unjustified-validation",
                          f"{ep.name} treats {p.addr} as validated ({p.bytes_sent} bytes sent, {self.recv.get(k, 0)} received) "
                          f"but nothing on the wire validates it")
            if k in self.valid or p.is_validated:
                continue
            self.n["ledger_checks"] = self.n.get("ledger_checks", 0) + 1
            sent, recv = self.sent.get(k, 0), self.recv.get(k, 0)
            if p.bytes_sent < sent:
                self._bad("ledger", f"{ep.name} charged {p.bytes_sent} bytes to unvalidated {p.addr} but handed out "
                                    f"{sent} bytes for it ({recv} received from it, limit {3 * recv})")
            if p.bytes_received > recv:
                self._bad("ledger", f"{ep.name} credits {p.bytes_received} bytes from unvalidated {p.addr} but only "
                                    f"{recv} arrived from it")

    def after_api(self, sim, ep, name, args, kw, res):
        if name == "receive_datagram":
            self.check_ledger(sim, ep)
        if name != "datagrams_to_send" or ep.name not in self.call:
            return
        snap = self.call.pop(ep.name)
        if snap["closing"] or not res:
            return
        # on_datagram_sent runs after this hook: the packets of this call are all still queued
        pk = list(self.built.get(ep.name, []))
        flight = sum(p["len"] for p in pk if p["in_flight"])
        room = max(snap["cwnd"] - snap["bif"], 0)
        allowed = max(room, snap["mds"]) if snap["probe"] else room
        self.n["flight_calls"] += 1
        if flight and room < sum(len(x) for x, _ in res) + 1200:
            self.n["limited_calls"] += 1
        if flight > allowed:
            self._bad("flight", f"{ep.name} put {flight} in-flight bytes on the wire in one datagrams_to_send call; "
                                f"cwnd {snap['cwnd']} - in flight {snap['bif']} = {snap['cwnd'] - snap['bif']}, probe pending {snap['probe']}")


def junk(sim, ep, addr, n):
    """a datagram that is not a valid packet of this connection (counts as received bytes)"""
    d = {"id": -2, "src": None, "dst": ep, "data": bytes([0x40]) + bytes(n - 1), "to": ep.addr, "from": addr, "t": sim.now}
    sim.deliver(d)


def spoofed_initial(sim, r):
    """an Initial packet with a fresh number, built with the client's (public) Initial keys,
    arriving at the server from JUNK_ADDR in a 1200-byte datagram"""
    from . import inject
    c = sim.client.conn
    pn = c._packet_number + r.choice([0, 3])
    data = inject.build(sim, sim.client, b"\x01", epoch="INITIAL", pn=pn, pad_to=1200)
    if data is None:
        return
    if pn >= c._packet_number:
        c._packet_number = pn + 1
    d = {"id": -3, "src": None, "dst": sim.server, "data": data, "to": sim.server.addr, "from": JUNK_ADDR, "t": sim.now}
    sim.deliver(d)


def make_sim(seed, orc, zero_rtt=False, client_mds=1200, server_mds=1200, extra=(), chain="repo"):
    mons = [orc] + list(extra)
    co = {"max_datagram_size": client_mds}
    so = {"max_datagram_size": server_mds}
    if chain != "repo":
        import ssl
        co["verify_mode"] = ssl.CERT_NONE        # generated chains are not rooted in the test CA
    if not zero_rtt:
        sim = S.Sim(seed, monitors=mons, client_options=co, server_options=so)
        if chain != "repo":
            from . import certs
            certs.install(sim, chain)
        return sim
    store, tick = Store(), []
    s0 = S.Sim(f"{seed}/ticket", client_kwargs={"session_ticket_handler": tick.append},
               server_kwargs={"session_ticket_handler": store.add})
    s0.handshake()
    s0.fair_phase(max_steps=50, done=lambda: bool(tick))
    s0.close_taps()
    co["session_ticket"] = tick[0]
    return S.Sim(seed, monitors=mons, client_options=co, server_options=so,
                 server_kwargs={"session_ticket_fetcher": store.pop})


def run_scenario(seed, mode, steps=150, extra=()):
    orc = AmpOracle()
    import random
    r0 = random.Random(f"{seed}/cfg")
    cm, sm = r0.choice([(1200, 1200), (1200, 1200), (1350, 1200), (1200, 1500), (1452, 1452)])
    zero = mode == "zero_rtt"
    chain = "repo" if zero else r0.choice(["repo", "repo", "small", "medium", "long"])
    sim = make_sim(seed, orc, zero_rtt=zero, client_mds=cm, server_mds=sm, extra=extra, chain=chain)
    sim.log.append(f"cert chain {chain}")
    r = sim.r
    sim.api(sim.client, "connect", S.SERVER_ADDR, now=sim.now)
    if zero:
        sim.api(sim.client, "send_stream_data", 0, bytes(r.choice([3000, 20000, 60000])))
    sim.transmit(sim.client)
    if mode == "migration":
        sim.fair_phase(max_steps=200, done=lambda: sim.client.conn._handshake_confirmed
                       and sim.server.conn._handshake_confirmed and not sim.pending)
        sim.api(sim.server, "send_stream_data", 1, bytes(r.choice([2000, 30000])))
        sim.transmit(sim.server)
    for i in range(steps):
        x = r.random()
        if mode == "migration" and x < 0.10 and any(d["dst"] is sim.server for d in sim.pending):
            # a genuine client datagram (possibly carrying a PATH_RESPONSE) reaches the server from a
            # third address: neither the handshake address nor the one the server challenged
            i = [k for k, d in enumerate(sim.pending) if d["dst"] is sim.server][0]
            d = sim.pending.pop(i)
            sim.now += 0.001
            sim.deliver(d, r.choice([CLIENT_ADDR3, CLIENT_ADDR3, JUNK_ADDR]))
        elif x < 0.06:
            junk(sim, sim.server, r.choice([S.CLIENT_ADDR, sim.client.addr, JUNK_ADDR]), r.choice([1, 33, 100, 250, 700, 1200]))
        elif x < 0.075 and not sim.client.terminated:
            # a spoofed-source Initial: correctly protected (Initial keys are public), sent from a third address
            spoofed_initial(sim, r)
        elif x < 0.10:
            who = r.choice(sim.endpoints)
            if not who.terminated:
                sim.api(who, "send_ping", r.randrange(1000))       # application PING: no probe allowance
                sim.transmit(who)
        elif x < 0.12 and mode != "handshake-clean":
            who = r.choice(sim.endpoints)
            if not who.terminated:
                sim.api(who, "close", error_code=r.choice([0, 7]), reason_phrase="bye")
                sim.transmit(who)
        elif x < 0.19 and (sim.client.conn._handshake_complete or zero):
            who = r.choice(sim.endpoints)
            if not who.terminated and who.conn._handshake_complete or (zero and who is sim.client):
                sim.api(who, "send_stream_data", 0 if who is sim.client else 1, bytes(r.choice([10, 3000, 30000])))
                sim.transmit(who)
        else:
            if not sim.adversarial_step(p_drop=0.2, p_dup=0.1, p_reorder=0.3, p_timer=0.25,
                                        p_rebind=0.15 if mode == "migration" else (0.03 if mode == "handshake" else 0.0)):
                break
    return sim, orc


# ------------------------------------------------------------ directed schedules
def settle(sim, steps):
    """in-order lossless delivery; timers fire when asked (an endpoint whose timer
    stays in the past is served once per instant, see ack_scen.advance)"""
    from .ack_scen import advance
    for _ in range(steps):
        if sim.pending:
            d = sim.pending.pop(0)
            sim.now += 0.001
            sim.deliver(d)
        elif all(ep.terminated for ep in sim.endpoints):
            break
        else:
            advance(sim, 0.05)
        if sim.client.conn._handshake_confirmed and sim.server.conn._handshake_confirmed and not sim.pending:
            break


def directed(seed, kind, extra=()):
    """schedules aimed at the budget corners: the peer goes silent after its first
    flight, odd-sized junk tops up the budget, the application closes"""
    import random
    orc = AmpOracle()
    r = random.Random(f"{seed}/{kind}")
    if kind == "client_0rtt_pto":
        sim = make_sim(seed, orc, zero_rtt=True, extra=extra)
        sim.api(sim.client, "connect", S.SERVER_ADDR, now=sim.now)
        sim.api(sim.client, "send_stream_data", 0, bytes(r.choice([20000, 40000])))
        sim.transmit(sim.client)
        if r.random() < 0.7:
            sim.fire_timer(sim.client)                    # PTO before the answer arrives
        settle(sim, r.choice([30, 300]))
        return sim, orc
    if kind == "cert_sizes":
        # server certificate chains of different sizes x a client that is never heard from again
        # (silent / spoofed source / only its first Initial, possibly duplicated), over many PTOs
        from . import certs
        from .ack_scen import advance
        sim = make_sim(seed, orc, extra=extra)
        chain = r.choice(["small", "small", "medium", "long", "repo"])
        certs.install(sim, chain)
        sim.connect()
        first = sim.pending.pop(0)
        sim.pending.clear()
        src = r.choice([None, None, JUNK_ADDR, CLIENT_ADDR3])        # None = the client's own address
        sim.now += 0.001
        sim.deliver(first, src)
        sim.pending.clear()                                           # the server's flight is never answered
        for _ in range(r.choice([6, 10])):
            x = r.random()
            if x < 0.2:
                sim.deliver(first, src)                               # the same Initial again (retransmission / replay)
                sim.pending.clear()
            elif x < 0.3:
                junk(sim, sim.server, src or S.CLIENT_ADDR, r.choice([20, 100, 400]))
                sim.pending.clear()
            advance(sim, r.choice([0.3, 1.0, 3.0]))                   # PTOs of the server fire when asked
            sim.pending.clear()
        orc.check_ledger(sim, sim.server)
        sim.log.append(f"cert chain {chain}, source {src}")
        return sim, orc
    if kind == "handshake_addresses":
        # the client's address changes DURING the handshake: each of its datagrams arrives from A or B,
        # individual datagrams of either side are lost, the certificate flight may span several
        # datagrams; once the server can, it sends a large response
        from .ack_scen import advance
        chain = r.choice(["long", "long", "medium", "small", "repo"])
        sim = make_sim(seed, orc, extra=extra, chain=chain)
        sim.log.append(f"cert chain {chain}")
        sim.connect()
        addrs = [S.CLIENT_ADDR, S.CLIENT_ADDR2]
        p_loss = r.choice([0.15, 0.3, 0.45])
        p_flip = r.choice([0.15, 0.3, 0.5])
        cur = 0
        responded = False
        for _ in range(r.choice([60, 120])):
            if all(ep.terminated for ep in sim.endpoints):
                break
            if not responded and sim.server.conn._handshake_complete:
                sim.api(sim.server, "send_stream_data", 1, bytes(r.choice([20000, 60000])))
                sim.transmit(sim.server)
                responded = True
            if not sim.pending:
                if responded and r.random() < 0.5 and not sim.client.terminated:
                    sim.api(sim.client, "send_ping", 1)           # keeps client datagrams (and addresses) coming
                    sim.transmit(sim.client)
                else:
                    advance(sim, r.choice([0.05, 0.3, 1.0]))
                continue
            d = sim.pending.pop(0)
            sim.now += 0.001
            if r.random() < p_loss:
                sim.log.append(f"lose #{d['id']}")
                continue
            if d["dst"] is sim.server:
                if r.random() < p_flip:
                    cur = 1 - cur                       # the client's datagrams now leave from the other address
                sim.log.append(f"deliver #{d['id']} from {addrs[cur]}")
                sim.deliver(d, addrs[cur])
            else:
                sim.deliver(d)
        return sim, orc
    if kind == "three_addresses":
        # the client moves to address B, the server challenges B with a large stream queued; the
        # client's answers (PATH_RESPONSE included) then arrive from a third address C
        sim = make_sim(seed, orc, extra=extra)
        sim.handshake()
        sim.api(sim.server, "send_stream_data", 1, bytes(r.choice([30000, 100000])))
        if r.random() < 0.5:
            sim.transmit(sim.server)
        sim.client.addr = S.CLIENT_ADDR2
        sim.api(sim.client, "send_ping", 7)
        sim.transmit(sim.client)
        third = r.choice([CLIENT_ADDR3, CLIENT_ADDR3, JUNK_ADDR])
        switch_after = r.choice([1, 1, 2])      # client datagrams still delivered from B before C shows up
        n_from_client = 0
        for _ in range(r.choice([25, 60])):
            if not sim.pending:
                from .ack_scen import advance
                advance(sim, 0.03)
                if not sim.pending:
                    break
                continue
            d = sim.pending.pop(0)
            sim.now += 0.001
            if d["dst"] is sim.server:
                n_from_client += 1
                sim.deliver(d, S.CLIENT_ADDR2 if n_from_client <= switch_after else third)
            elif r.random() < 0.9:
                sim.deliver(d)
        return sim, orc
    if kind == "ping_full_window":
        # the window is full of stream data; the application asks for PINGs: they must wait
        sim = make_sim(seed, orc, extra=extra)
        sim.handshake()
        who = r.choice(sim.endpoints)
        sim.api(who, "send_stream_data", 0 if who is sim.client else 1, bytes(r.choice([60000, 200000])))
        sim.transmit(who)
        for _ in range(r.choice([1, 3])):
            if r.random() < 0.5 and sim.pending:
                sim.deliver(sim.pending.pop(0))
            sim.api(who, "send_ping", r.randrange(1000))
            sim.transmit(who)
        settle(sim, 40)
        return sim, orc
    sim = make_sim(seed, orc, extra=extra)
    sim.connect()
    d = sim.pending.pop(0)
    sim.now += 0.001
    sim.deliver(d)                                        # the server sees the ClientHello
    sim.pending.clear()                                   # ... and the client never hears back
    for _ in range(r.choice([1, 2, 3])):
        if r.random() < 0.6:
            sim.fire_timer(sim.server)
            sim.pending.clear()
        if r.random() < 0.8:
            junk(sim, sim.server, S.CLIENT_ADDR, r.choice([1, 20, 100, 250, 399, 1199]))
            sim.pending.clear()
    if kind == "server_close":
        sim.api(sim.server, "close", error_code=r.choice([0, 0x100]), reason_phrase="shutting down")
        sim.transmit(sim.server)
    else:
        sim.fire_timer(sim.server)
    return sim, orc
