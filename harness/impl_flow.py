"""Runs the `flow.` line protocol on a REAL QuicConnection.

`FlowObserver(conn)` wraps (inside the harness, on this one connection object)
every function of connection.py that AQ.Model.FlowSend / FlowRecv model:
the public API, the frame handlers, `_parse_transport_parameters`,
`_unblock_streams`, the per-stream iterations of the `_write_application` loop,
`_write_connection_limits`, `_write_stream_limits` and the delivery callbacks.
Each call becomes one op line (with the inputs the model treats as
nondeterminism, e.g. the `remaining_flight_space` `_write_stream_frame` saw and
whether `builder.start_frame` raised) plus the canonical output line rendered
from the connection's own attributes.  The op lines are then replayed on the
compiled Lean model and the two outputs diffed.  Observation only: no source
file is modified, wrapped functions are called with unchanged arguments.
"""
from . import frames as F

_CERT_CACHE = {}


def fast_certs():
    """cache the parsed test certificate / key (RSA key loading costs ~90 ms)"""
    from aioquic.quic.configuration import QuicConfiguration
    if getattr(QuicConfiguration, "_flow_cached", False):
        return
    orig = QuicConfiguration.load_cert_chain

    def load_cert_chain(self, certfile, keyfile=None, password=None):
        key = (str(certfile), str(keyfile))
        if key not in _CERT_CACHE:
            orig(self, certfile, keyfile, password)
            _CERT_CACHE[key] = (self.certificate, self.certificate_chain, self.private_key)
        self.certificate, self.certificate_chain, self.private_key = _CERT_CACHE[key]

    QuicConfiguration.load_cert_chain = load_cert_chain
    QuicConfiguration._flow_cached = True


def _b(x):
    return "1" if x else "0"


def _opt(x):
    return "none" if x is None else str(x)


def _ids(xs):
    return "[" + ",".join(str(x) for x in xs) + "]"


def parse_tp(data):
    """independent reader of the six flow-control transport parameters"""
    vals = {}
    i = 0
    while i < len(data):
        pid, i = F.get_varint(data, i)
        ln, i = F.get_varint(data, i)
        if 4 <= pid <= 9:
            vals[pid], _ = F.get_varint(data, i)
        i += ln
    return [vals.get(k) for k in range(4, 10)]


class TapList(list):
    """`_streams_queue` with an observable first iteration (the serve loop of
    `_write_application`; the second iteration is the list comprehension of its
    `finally` clause, after which a new list is assigned)."""

    def __init__(self, v, obs):
        super().__init__(v)
        self._obs = obs
        self._iters = 0

    def __iter__(self):
        self._iters += 1
        if self._iters != 1 or not self._obs.in_write_application:
            return list.__iter__(self)
        return self._gen()

    def _gen(self):
        for st in list.__iter__(self):
            self._obs.serve_begin(st)
            yield st
        self._obs.serve_end()


class FlowObserver:
    def __init__(self, conn, quirks="000", name=""):
        self.conn = conn
        self.name = name
        self.lines = []
        self.outs = []
        self.depth = 0
        self.in_write_application = False
        self.serve = None
        self.objs = []            # every stream object ever seen (strong refs)
        self.known = set()
        self.wire = []            # frames written, in order: (kind, ...)
        self.errors = []          # QuicConnectionError codes raised by handlers
        # hypothesis of the C06 theorems (GWFRun): a delivery report names a frame that was
        # emitted for that stream object and not yet reported; violations are recorded here
        self.hyp_violations = []
        self.reports_checked = 0
        c = conn
        self._emit_line(
            f"flow.new {_b(c._is_client)} {c._local_max_data.value} {c._local_max_stream_data_bidi_local} "
            f"{c._local_max_stream_data_bidi_remote} {c._local_max_stream_data_uni} "
            f"{c._local_max_streams_bidi.value} {c._local_max_streams_uni.value} {quirks}", "ok " + self.show())
        self._install()

    # ------------------------------------------------------------ rendering
    def show_stream(self, s):
        sd, rv = s.sender, s.receiver
        return (f"{s.stream_id}:b{_b(s.is_blocked)}:l{s.max_stream_data_local}/{s.max_stream_data_local_sent}"
                f":r{s.max_stream_data_remote}:sh{sd.highest_offset}:se{_b(sd.buffer_is_empty)}:sf{_b(sd.is_finished)}"
                f":rp{_b(sd.reset_pending)}:nx{sd.next_offset}:rh{rv.highest_offset}:rf{_b(rv.is_finished)}"
                f":fs{_opt(rv._final_size)}:rb{len(rv._buffer)}:rs{rv._buffer_start}:sp{_b(rv.stop_pending)}")

    def show(self):
        c = self.conn
        lim = lambda l: f"{l.value}/{l.sent}/{l.used}"  # noqa
        gone = [s for s in self.objs if c._streams.get(s.stream_id) is not s]
        gs = sum(s.sender.highest_offset for s in gone)
        gr = sum(s.receiver.highest_offset for s in gone)
        head = (f"rmd={c._remote_max_data} used={c._remote_max_data_used} "
                f"rsd={c._remote_max_stream_data_bidi_local}/{c._remote_max_stream_data_bidi_remote}/{c._remote_max_stream_data_uni} "
                f"rms={c._remote_max_streams_bidi}/{c._remote_max_streams_uni} lmd={lim(c._local_max_data)} "
                f"lsd={c._local_max_stream_data_bidi_local}/{c._local_max_stream_data_bidi_remote}/{c._local_max_stream_data_uni} "
                f"lmsb={lim(c._local_max_streams_bidi)} lmsu={lim(c._local_max_streams_uni)} "
                f"bb={_ids(s.stream_id for s in c._streams_blocked_bidi)} bu={_ids(s.stream_id for s in c._streams_blocked_uni)} "
                f"fin={_ids(sorted(c._streams_finished))} gs={gs} gr={gr} |")
        return head + "".join(" " + self.show_stream(s) for s in c._streams.values())

    def _emit_line(self, op, out):
        self.lines.append(op)
        self.outs.append(out)

    def emit(self, op, head, frames=(), used=0):
        self.scan()
        self._emit_line(op, f"{head} fr=[{','.join(frames)}] used={used} | {self.show()}")

    # ------------------------------------------------- stream object tracking
    def scan(self):
        for s in self.conn._streams.values():
            if id(s) not in self.known:
                self.known.add(id(s))
                self.objs.append(s)
                self._wrap_stream(s)

    def live(self, s):
        return self.conn._streams.get(s.stream_id) is s

    def _wrap_stream(self, s):
        obs = self
        from aioquic.quic.packet_builder import QuicDeliveryState
        sd, rv = s.sender, s.receiver
        o_get, o_getreset, o_data, o_reset, o_stop = (
            sd.get_frame, sd.get_reset_frame, sd.on_data_delivery, sd.on_reset_delivery, rv.on_stop_sending_delivery)

        emitted = []          # (start, stop, fin) of frames handed out, not yet reported
        reset_out = [0]

        def get_frame(max_size, max_offset=None):
            fr = o_get(max_size, max_offset)
            if fr is not None:
                emitted.append((fr.offset, fr.offset + len(fr.data), bool(fr.fin)))
            if obs.serve is not None:
                obs.serve["getargs"] = (max_size, max_offset)
                obs.serve["frame"] = None if fr is None else (fr.offset, len(fr.data), fr.fin)
            return fr

        def get_reset_frame():
            fr = o_getreset()
            reset_out[0] += 1
            if obs.serve is not None:
                obs.serve["resetframe"] = fr.final_size
            return fr

        def on_data_delivery(delivery, start, stop, fin):
            err = None
            obs.reports_checked += 1
            if (start, stop, bool(fin)) in emitted:
                emitted.remove((start, stop, bool(fin)))
            else:
                obs.hyp_violations.append(f"stream {s.stream_id}: report for ({start},{stop},{fin}) which is not an outstanding frame")
            try:
                o_data(delivery, start, stop, fin)
            except Exception as e:  # noqa
                err = e
            if obs.live(s):
                obs.emit(f"flow.ddeliv {s.stream_id} {_b(delivery == QuicDeliveryState.ACKED)} {start} {stop} {_b(fin)}",
                         "ok" if err is None else "err " + type(err).__name__)
            if err is not None:
                raise err

        def on_reset_delivery(delivery):
            obs.reports_checked += 1
            if reset_out[0] > 0:
                reset_out[0] -= 1
            else:
                obs.hyp_violations.append(f"stream {s.stream_id}: RESET_STREAM report without an outstanding RESET_STREAM frame")
            o_reset(delivery)
            if obs.live(s):
                obs.emit(f"flow.rdeliv {s.stream_id} {_b(delivery == QuicDeliveryState.ACKED)}", "ok")

        def on_stop_sending_delivery(delivery):
            o_stop(delivery)
            if obs.live(s):
                obs.emit(f"flow.sdeliv {s.stream_id} {_b(delivery == QuicDeliveryState.ACKED)}", "ok")

        sd.get_frame = get_frame
        sd.get_reset_frame = get_reset_frame
        sd.on_data_delivery = on_data_delivery
        sd.on_reset_delivery = on_reset_delivery
        rv.on_stop_sending_delivery = on_stop_sending_delivery

    # ------------------------------------------------------------ installing
    def _install(self):
        from aioquic.quic.connection import QuicConnectionError
        from aioquic.quic.packet_builder import QuicDeliveryState, QuicPacketBuilderStop
        from aioquic.quic.stream import StreamFinishedError
        conn, obs = self.conn, self
        self.Stop = QuicPacketBuilderStop

        def errname(e):
            if isinstance(e, QuicConnectionError):
                return f"err QuicConnectionError({int(e.error_code)})"
            return "err " + type(e).__name__

        # --- instrumented _streams_queue
        cls = conn.__class__
        q = conn.__dict__.pop("_streams_queue")

        def getter(self_):
            return self_.__dict__["_flow_sq"]

        def setter(self_, v):
            obs.serve_end()
            self_.__dict__["_flow_sq"] = TapList(v, obs)

        conn.__class__ = type("Tap" + cls.__name__, (cls,), {"_streams_queue": property(getter, setter)})
        conn._streams_queue = q

        # --- public API
        def api(name, fmt):
            orig = getattr(conn, name)

            def wrapper(*a, **kw):
                obs.depth += 1
                err = None
                try:
                    return orig(*a, **kw)
                except Exception as e:  # noqa
                    err = e
                    raise
                finally:
                    obs.depth -= 1
                    obs.emit(fmt(*a, **kw), "ok" if err is None else errname(err))
            setattr(conn, name, wrapper)

        api("send_stream_data", lambda stream_id, data, end_stream=False: f"flow.send {stream_id} {len(data)} {_b(end_stream)}")
        api("reset_stream", lambda stream_id, error_code: f"flow.reset {stream_id} {error_code}")
        api("stop_stream", lambda stream_id, error_code: f"flow.stop {stream_id}")

        # --- frame handlers
        handlers = conn._QuicConnection__frame_handlers

        def peek(buf):
            return bytes(buf.data_slice(buf.tell(), buf.capacity))

        def rd(data, n):
            vals, i = [], 0
            for _ in range(n):
                v, i = F.get_varint(data, i)
                vals.append(v)
            return vals, i

        def op_of(frame_type, data):
            """op line for a frame whose body (after the type) is `data`; None = cannot parse"""
            try:
                if frame_type == 0x04:
                    (sid, _code, fs), _ = rd(data, 3)
                    return f"flow.rxreset {sid} {fs}"
                if frame_type == 0x05:
                    (sid, _code), _ = rd(data, 2)
                    return f"flow.rxstop {sid}"
                if 0x08 <= frame_type <= 0x0F:
                    sid, i = F.get_varint(data, 0)
                    off = 0
                    if frame_type & 4:
                        off, i = F.get_varint(data, i)
                    if frame_type & 2:
                        ln, i = F.get_varint(data, i)
                    else:
                        ln = len(data) - i
                    if off + ln <= F_UINT_VAR_MAX and i + ln > len(data):
                        return None      # truncated frame: BufferReadError, outside the model
                    return f"flow.rxstream {sid} {off} {ln} {frame_type & 1}"
                if frame_type == 0x10:
                    (v,), _ = rd(data, 1)
                    return f"flow.rxmaxdata {v}"
                if frame_type == 0x11:
                    (sid, v), _ = rd(data, 2)
                    return f"flow.rxmsd {sid} {v}"
                if frame_type in (0x12, 0x13):
                    (v,), _ = rd(data, 1)
                    return f"flow.rxmaxstreams {frame_type - 0x12} {v}"
                if frame_type == 0x15:
                    (sid, _lim), _ = rd(data, 2)
                    return f"flow.rxsdb {sid}"
            except F.ParseError:
                return None
            return None

        F_UINT_VAR_MAX = (1 << 62) - 1

        def wrap_handler(ft):
            orig, epochs = handlers[ft]

            def wrapper(context, frame_type, buf):
                op = op_of(frame_type, peek(buf))
                obs.depth += 1
                err = None
                try:
                    return orig(context, frame_type, buf)
                except Exception as e:  # noqa
                    err = e
                    raise
                finally:
                    obs.depth -= 1
                    if op is not None:
                        if isinstance(err, StreamFinishedError):
                            head = "ok ignored"
                        elif err is None:
                            head = "ok"
                        else:
                            head = errname(err)
                            if isinstance(err, QuicConnectionError):
                                obs.errors.append((op, int(err.error_code)))
                        obs.emit(op, head)
            handlers[ft] = (wrapper, epochs)

        for ft in [0x04, 0x05, 0x10, 0x11, 0x12, 0x13, 0x15] + list(range(0x08, 0x10)):
            wrap_handler(ft)

        # --- transport parameters
        o_tp = conn._parse_transport_parameters

        def parse_transport_parameters(data, from_session_ticket=False):
            # `checked`: handshake parameters of a server that accepted this client's early data
            # (computed here, independently of the code under test)
            checked = bool(conn._is_client and not from_session_ticket and conn.tls.early_data_accepted)
            try:
                o_tp(data, from_session_ticket=from_session_ticket)
            except QuicConnectionError as e:
                if int(e.error_code) == 0xA:      # the flow-control part refused the parameters
                    vals = parse_tp(bytes(data))
                    obs.errors.append(("flow.tp", 0xA))
                    obs.emit("flow.tp " + " ".join(_opt(v) for v in vals) + f" {_b(checked)}", errname(e))
                raise                             # other errors are raised before the flow-control part
            vals = parse_tp(bytes(data))
            obs.emit("flow.tp " + " ".join(_opt(v) for v in vals) + f" {_b(checked)}", "ok")
        conn._parse_transport_parameters = parse_transport_parameters

        # --- _unblock_streams (top level calls only: handshake completion)
        o_unblock = conn._unblock_streams

        def unblock_streams(is_unidirectional):
            o_unblock(is_unidirectional)
            if obs.depth == 0:
                obs.emit(f"flow.unblock {_b(is_unidirectional)}", "ok")
        conn._unblock_streams = unblock_streams

        # --- write side
        o_wa = conn._write_application

        def write_application(builder, network_path, now):
            obs.scan()
            obs.in_write_application = True
            try:
                return o_wa(builder, network_path, now)
            finally:
                obs.serve_end()
                obs.in_write_application = False
        conn._write_application = write_application

        def tap_builder(builder, log):
            """record the outcome of every start_frame during one modelled call"""
            o_sf = builder.start_frame

            def start_frame(frame_type, capacity=1, handler=None, handler_args=[]):
                try:
                    r = o_sf(frame_type, capacity, handler, handler_args)
                except QuicPacketBuilderStop:
                    log.append((int(frame_type), False))
                    raise
                log.append((int(frame_type), True))
                return r
            builder.start_frame = start_frame
            return o_sf

        o_wcl = conn._write_connection_limits

        def write_connection_limits(builder, space):
            log = []
            before = [(l.value, l.sent) for l in (conn._local_max_data, conn._local_max_streams_bidi, conn._local_max_streams_uni)]
            o_sf = tap_builder(builder, log)
            err = None
            try:
                o_wcl(builder=builder, space=space)
            except QuicPacketBuilderStop as e:
                err = e
                raise
            finally:
                builder.start_frame = o_sf
                rooms = {0x10: True, 0x12: True, 0x13: True}
                frames = []
                lims = {0x10: conn._local_max_data, 0x12: conn._local_max_streams_bidi, 0x13: conn._local_max_streams_uni}
                for ft, ok in log:
                    rooms[ft] = ok
                    if ok:
                        v = lims[ft].sent
                        frames.append(f"MD:{v}" if ft == 0x10 else f"MS:{ft - 0x12}:{v}")
                        obs.wire.append(("limit", ft, v))
                obs.emit(f"flow.wconn {_b(rooms[0x10])} {_b(rooms[0x12])} {_b(rooms[0x13])}",
                         "ok" if err is None else "err QuicPacketBuilderStop", frames)
        conn._write_connection_limits = write_connection_limits

        o_wsl = conn._write_stream_limits

        def write_stream_limits(builder, space, stream):
            log = []
            o_sf = tap_builder(builder, log)
            err = None
            try:
                o_wsl(builder=builder, space=space, stream=stream)
            except QuicPacketBuilderStop as e:
                err = e
                raise
            finally:
                builder.start_frame = o_sf
                room = True
                frames = []
                for ft, ok in log:
                    room = ok
                    if ok:
                        frames.append(f"MSD:{stream.stream_id}:{stream.max_stream_data_local_sent}")
                        obs.wire.append(("msd", stream.stream_id, stream.max_stream_data_local_sent))
                obs.emit(f"flow.wstream {stream.stream_id} {_b(room)}",
                         "ok" if err is None else "err QuicPacketBuilderStop", frames)
        conn._write_stream_limits = write_stream_limits

        def wrap_write(name, key):
            orig = getattr(conn, name)

            def wrapper(*a, **kw):
                builder = kw.get("builder", a[0] if a else None)
                sv = obs.serve
                if sv is not None:
                    sv[key] = {"fs": builder.remaining_flight_space, "raised": None}
                    if "max_offset" in kw:
                        sv[key]["max_offset"] = kw["max_offset"]
                try:
                    r = orig(*a, **kw)
                    if sv is not None:
                        sv[key]["ret"] = r
                    return r
                except Exception as e:  # noqa
                    if sv is not None:
                        sv[key]["raised"] = e
                    raise
            setattr(conn, name, wrapper)

        wrap_write("_write_stop_sending_frame", "stop")
        wrap_write("_write_reset_stream_frame", "reset")
        wrap_write("_write_stream_frame", "stream")

        o_cld = conn._on_connection_limit_delivery

        def on_connection_limit_delivery(delivery, limit):
            o_cld(delivery, limit)
            kind = {0x10: "data", 0x12: "bidi", 0x13: "uni"}[int(limit.frame_type)]
            obs.emit(f"flow.cdeliv {kind} {_b(delivery == QuicDeliveryState.ACKED)}", "ok")
        conn._on_connection_limit_delivery = on_connection_limit_delivery

        o_msd = conn._on_max_stream_data_delivery

        def on_max_stream_data_delivery(delivery, stream):
            o_msd(delivery, stream)
            if obs.live(stream):
                obs.emit(f"flow.mdeliv {stream.stream_id} {_b(delivery == QuicDeliveryState.ACKED)}", "ok")
        conn._on_max_stream_data_delivery = on_max_stream_data_delivery

    # --------------------------------------------------------- the serve loop
    def serve_begin(self, st):
        self.serve_end()
        self.serve = {"st": st}

    def serve_end(self):
        sv = self.serve
        if sv is None:
            return
        self.serve = None
        st = sv["st"]
        sid = st.stream_id
        frames = []
        err = None
        stop_room = reset_room = True
        fs = 0
        used = 0
        if "stop" in sv:
            if sv["stop"]["raised"] is None:
                frames.append(f"P:{sid}")
                self.wire.append(("stop", sid))
            else:
                stop_room = False
                err = sv["stop"]["raised"]
        if "reset" in sv:
            if sv["reset"]["raised"] is None:
                frames.append(f"R:{sid}:{sv.get('resetframe')}")
                self.wire.append(("reset", sid, sv.get("resetframe")))
            else:
                reset_room = False
                err = sv["reset"]["raised"]
        if "stream" in sv:
            fs = sv["stream"]["fs"]
            if sv["stream"]["raised"] is not None:
                err = sv["stream"]["raised"]
            else:
                used = sv["stream"].get("ret", 0)
            fr = sv.get("frame")
            if fr is not None and sv["stream"]["raised"] is None:
                frames.append(f"S:{sid}:{fr[0]}:{fr[1]}:{_b(fr[2])}")
                self.wire.append(("stream", sid, fr[0], fr[1], fr[2], sv["stream"].get("max_offset")))
        if err is None:
            head = "ok"
            if not self.live(st) and sid in self.conn._streams_finished:
                head = "ok discarded"
        elif isinstance(err, self.Stop):
            head = "err QuicPacketBuilderStop"
        else:
            head = "err " + type(err).__name__
        self.emit(f"flow.serve {sid} {_b(stop_room)} {_b(reset_room)} {fs}", head, frames, used)


# ======================================================================
# scenario support: a real endpoint E driven by a key-holding puppet peer
# ======================================================================
class PacketLog:
    """sim monitor: plaintext frames of every packet built / authenticated"""

    def __init__(self):
        self.built = {}      # endpoint name -> list of (epoch, pn, frames)
        self.auth = {}       # endpoint name -> list of (epoch, pn, frames)
        self.listeners = []

    def on_packet_built(self, s, ep, epoch, pn, hdr, payload, n):
        from . import sim
        fr = sim.parse_payload(payload)
        self.built.setdefault(ep.name, []).append((epoch, pn, fr))
        for l in self.listeners:
            l.on_built(ep.name, epoch, pn, fr)

    def on_packet_authenticated(self, s, ep, epoch, pn, hdr, payload):
        from . import sim
        fr = sim.parse_payload(payload)
        self.auth.setdefault(ep.name, []).append((epoch, pn, fr))
        for l in self.listeners:
            l.on_auth(ep.name, epoch, pn, fr)


def limits_of(conn):
    """what `conn` advertises in its transport parameters (read before the handshake)"""
    return {
        "max_data": conn._local_max_data.value,
        "bidi_local": conn._local_max_stream_data_bidi_local,
        "bidi_remote": conn._local_max_stream_data_bidi_remote,
        "uni": conn._local_max_stream_data_uni,
        "streams_bidi": conn._local_max_streams_bidi.value,
        "streams_uni": conn._local_max_streams_uni.value,
    }


def set_stream_count_limits(conn, bidi=None, uni=None):
    """configure the initial MAX_STREAMS this endpoint advertises (the public
    configuration has no knob for it; the attributes are read when the
    transport parameters are serialised)"""
    if bidi is not None:
        conn._local_max_streams_bidi.value = conn._local_max_streams_bidi.sent = bidi
    if uni is not None:
        conn._local_max_streams_uni.value = conn._local_max_streams_uni.sent = uni


class SendOracle:
    """C06 on the wire, written from the property text: what endpoint `name`
    emits (decrypted frames of the packets it built) against the limits it had
    RECEIVED so far (transport parameters of the peer + MAX_* frames in packets
    that authenticated)."""

    def __init__(self, name, is_client, peer_tp):
        self.name = name
        self.is_client = is_client
        self.tp = dict(peer_tp)
        self.max_data = peer_tp["max_data"]
        self.max_streams = {False: peer_tp["streams_bidi"], True: peer_tp["streams_uni"]}
        self.msd = {}              # sid -> largest MAX_STREAM_DATA received
        self.highest = {}          # sid -> highest offset emitted
        self.final = {}            # sid -> final size announced (FIN / RESET_STREAM)
        self.problems = []
        self.trace = []
        self.frames_checked = 0
        self.retransmissions = 0
        self.at_limit = 0

    def local(self, sid):
        return (sid % 2 == 0) == self.is_client

    def stream_limit(self, sid):
        uni = bool(sid & 2)
        if uni:
            init = self.tp["uni"]
        elif self.local(sid):
            init = self.tp["bidi_remote"]   # the peer's limit for streams its peer opens
        else:
            init = self.tp["bidi_local"]
        return max(init, self.msd.get(sid, 0))

    def on_auth(self, name, epoch, pn, frames):
        if name != self.name:
            return
        for f in frames:
            if f["name"] == "MAX_DATA":
                self.max_data = max(self.max_data, f["value"])
            elif f["name"] == "MAX_STREAM_DATA":
                self.msd[f["stream_id"]] = max(self.msd.get(f["stream_id"], 0), f["value"])
            elif f["name"] == "MAX_STREAMS_BIDI":
                self.max_streams[False] = max(self.max_streams[False], f["value"])
            elif f["name"] == "MAX_STREAMS_UNI":
                self.max_streams[True] = max(self.max_streams[True], f["value"])

    def on_built(self, name, epoch, pn, frames):
        if name != self.name:
            return
        for f in frames:
            if f["name"] not in ("STREAM", "RESET_STREAM", "STOP_SENDING"):
                continue
            sid = f["stream_id"]
            self.frames_checked += 1
            if self.local(sid) and sid // 4 >= self.max_streams[bool(sid & 2)]:
                self.problems.append(
                    f"{f['name']} on stream {sid} (index {sid // 4}) beyond the peer's stream-count limit "
                    f"{self.max_streams[bool(sid & 2)]} (packet {pn})")
            if f["name"] == "STOP_SENDING":
                continue
            end = f["final_size"] if f["name"] == "RESET_STREAM" else f["offset"] + len(f["data"])
            if end <= self.highest.get(sid, 0) and f["name"] == "STREAM" and len(f["data"]):
                self.retransmissions += 1
            # the sender must respect the final size it announced itself (a stream is not reopened)
            fs = self.final.get(sid)
            if fs is not None and (end > fs or (f["name"] == "STREAM" and f["fin"] and end != fs)):
                self.problems.append(f"{f['name']} on stream {sid} reaches offset {end} although this endpoint announced the final size {fs} (packet {pn})")
            if f["name"] == "RESET_STREAM" or f["fin"]:
                self.final.setdefault(sid, end)
            self.highest[sid] = max(self.highest.get(sid, 0), end)
            lim = self.stream_limit(sid)
            if self.highest[sid] > lim:
                self.problems.append(f"{f['name']} on stream {sid} reaches offset {end} beyond the stream limit {lim} (packet {pn})")
            total = sum(self.highest.values())
            if total > self.max_data:
                self.problems.append(f"sum of highest offsets {total} beyond the connection limit {self.max_data} (packet {pn}, stream {sid})")
            if self.highest[sid] == lim or total == self.max_data:
                self.at_limit += 1


class RecvOracle:
    """C07 on the wire: frames the peer of `name` sends against the limits
    `name` has ADVERTISED (its transport parameters + MAX_* frames in the
    packets it built).  `expect(frame)` gives the set of error codes that
    match a violation by this frame (empty = the frame is within limits)."""

    def __init__(self, name, is_client, own_tp):
        self.name = name
        self.is_client = is_client
        self.tp = dict(own_tp)
        self.max_data = own_tp["max_data"]
        self.max_streams = {False: own_tp["streams_bidi"], True: own_tp["streams_uni"]}
        self.msd = {}
        self.highest = {}     # sid -> highest offset the peer sent (incl. final sizes)
        self.final = {}       # sid -> final size
        self.opened = {False: 0, True: 0}
        self.touched = set()  # streams the peer opened / used with an accepted frame
        self.bytes = {}       # sid -> offsets of the accepted stream data (small offsets only)
        self.reset_seen = set()

    def on_auth(self, name, epoch, pn, frames):
        pass

    def on_built(self, name, epoch, pn, frames):
        if name != self.name:
            return
        for f in frames:
            if f["name"] == "MAX_DATA":
                self.max_data = max(self.max_data, f["value"])
            elif f["name"] == "MAX_STREAM_DATA":
                self.msd[f["stream_id"]] = max(self.msd.get(f["stream_id"], 0), f["value"])
            elif f["name"] == "MAX_STREAMS_BIDI":
                self.max_streams[False] = max(self.max_streams[False], f["value"])
            elif f["name"] == "MAX_STREAMS_UNI":
                self.max_streams[True] = max(self.max_streams[True], f["value"])

    def local(self, sid):
        return (sid % 2 == 0) == self.is_client

    def stream_limit(self, sid):
        uni = bool(sid & 2)
        if uni:
            init = self.tp["uni"]
        elif self.local(sid):
            init = self.tp["bidi_local"]
        else:
            init = self.tp["bidi_remote"]
        return max(init, self.msd.get(sid, 0))

    def can_send_to_peer(self, sid):
        """this endpoint can send on `sid` (so the peer may send STOP_SENDING / MAX_STREAM_DATA for it)"""
        return self.local(sid) or not (sid & 2)

    def recv_done(self, sid):
        """the receive half is complete: RESET_STREAM accepted, or FIN known and every byte
        below the final size sent (judged from the frames the peer sent, not from the endpoint)"""
        if sid in self.reset_seen:
            return True
        fs = self.final.get(sid)
        return fs is not None and fs <= 1 << 16 and len(self.bytes.get(sid, ())) >= fs

    def _open(self, sid, e_opened):
        """stream lookup common to every frame that names a stream id: codes or empty set"""
        uni = bool(sid & 2)
        if self.local(sid):
            if not e_opened and sid not in self.highest and sid not in self.touched:
                return {5}       # a stream only this endpoint may open, and it has not (RFC 9000 19.8 / 19.4 / 19.5 / 19.10 / 19.13)
            return set()
        if sid not in self.touched and sid // 4 + 1 > self.max_streams[uni]:
            return {4}
        return set()

    def expect_id(self, kind, sid, e_opened=False):
        """STOP_SENDING ('stop'), MAX_STREAM_DATA ('msd'), STREAM_DATA_BLOCKED ('sdb')"""
        uni = bool(sid & 2)
        if kind in ("stop", "msd") and not self.can_send_to_peer(sid):
            return {5}
        if kind == "sdb" and self.local(sid) and uni:
            return {5}
        codes = self._open(sid, e_opened)
        if not codes:
            self.touched.add(sid)
        return codes

    def expect(self, kind, sid, off=0, length=0, fin=False, final_size=0, e_opened=True):
        """classify a STREAM / RESET_STREAM frame sent by the peer; updates the
        tracker when the frame is within every limit.  Returns a set of codes."""
        codes = set()
        uni = bool(sid & 2)
        end = final_size if kind == "reset" else off + length
        if kind == "stream" and end > (1 << 62) - 1:
            return {7}       # not representable as a stream offset (RFC 9000 19.8: FRAME_ENCODING_ERROR)
        if self.local(sid) and uni:
            return {5}       # peer cannot send on our unidirectional stream
        codes |= self._open(sid, e_opened)
        if codes == {5}:
            return codes
        if end > self.stream_limit(sid):
            codes.add(3)
        newly = max(0, end - self.highest.get(sid, 0))
        if sum(self.highest.values()) + newly > self.max_data:
            codes.add(3)
        fs = self.final.get(sid)
        if fs is not None:
            if end > fs or ((fin or kind == "reset") and end != fs):
                codes.add(6)
        if not codes:
            self.touched.add(sid)
            self.highest[sid] = max(self.highest.get(sid, 0), end)
            if kind == "stream" and end <= 1 << 16:
                self.bytes.setdefault(sid, set()).update(range(off, end))
            if fin or kind == "reset":
                self.final[sid] = end
            if kind == "reset":
                self.reset_seen.add(sid)
        return codes


class Puppet:
    """endpoint E (a real QuicConnection after a real handshake) facing a peer
    that is played by the harness with the peer connection's live keys."""

    def __init__(self, seed, e_is_client=True, e_opts=None, p_opts=None, e_streams=None, p_streams=None,
                 quirks="000", observe=True):
        from . import sim as simmod
        fast_certs()
        self.log = PacketLog()
        co, so = (e_opts, p_opts) if e_is_client else (p_opts, e_opts)
        self.sim = simmod.Sim(seed, client_options=co or {}, server_options=so or {}, monitors=[self.log])
        s = self.sim
        self.E, self.P = (s.client, s.server) if e_is_client else (s.server, s.client)
        if e_streams:
            set_stream_count_limits(self.E.conn, *e_streams)
        if p_streams:
            set_stream_count_limits(self.P.conn, *p_streams)
        self.e_tp = limits_of(self.E.conn)
        self.p_tp = limits_of(self.P.conn)
        self.obs = FlowObserver(self.E.conn, quirks=quirks, name=self.E.name) if observe else None
        self.send_oracle = SendOracle(self.E.name, e_is_client, self.p_tp)
        self.recv_oracle = RecvOracle(self.E.name, e_is_client, self.e_tp)
        self.log.listeners += [self.send_oracle, self.recv_oracle]
        self.ok = s.handshake()
        s.pending.clear()
        self.outstanding = []     # ack-eliciting 1-RTT packet numbers E sent, not yet acked by the puppet
        self._seen = len(self.log.built.get(self.E.name, []))

    # ---- E side
    def api(self, name, *a, **kw):
        return self.sim.api(self.E, name, *a, **kw)

    def _collect(self):
        b = self.log.built.get(self.E.name, [])
        for epoch, pn, fr in b[self._seen:]:
            if epoch == "ONE_RTT" and any(f["type"] not in (0x00, 0x02, 0x03, 0x1C, 0x1D) for f in fr):
                self.outstanding.append(pn)
        self._seen = len(b)
        self.sim.pending.clear()

    def tx(self):
        n = self.sim.transmit(self.E)
        self._collect()
        return n

    def timer(self):
        r = self.sim.fire_timer(self.E)
        self._collect()
        return r

    # ---- puppet side
    def inject(self, payload):
        from . import inject as inj
        r = inj.inject(self.sim, self.P, payload)
        self._collect()
        return r

    def ack(self, pns):
        pns = sorted(set(pns))
        if not pns:
            return False
        ranges = []
        lo = hi = pns[0]
        for p in pns[1:]:
            if p == hi + 1:
                hi = p
            else:
                ranges.append((lo, hi))
                lo = hi = p
        ranges.append((lo, hi))
        self.outstanding = [p for p in self.outstanding if p not in set(pns)]
        return self.inject(F.enc_ack(ranges))

    @property
    def closed(self):
        ce = self.E.conn._close_event
        return None if ce is None else int(ce.error_code)

    def finish(self):
        self.sim.close_taps()


class QueueObserver:
    """`flow.crypto*`, `flow.path.*`, `flow.cid.*` lines from a real connection
    (attached after the handshake): CRYPTO reassembly of the 1-RTT epoch,
    `remote_challenges` of the first network path, peer connection IDs."""

    def __init__(self, conn):
        from aioquic import tls
        from aioquic.quic.connection import QuicConnectionError
        from aioquic.quic.packet_builder import QuicDeliveryState, QuicPacketBuilderStop
        self.conn = conn
        self.lines = []
        self.outs = []
        self.in_flight = 0
        self.max_seen = {"crypto": 0, "path": 0, "retire": 0, "avail": 0}
        obs = self
        handlers = conn._QuicConnection__frame_handlers
        recv = conn._crypto_streams[tls.Epoch.ONE_RTT].receiver
        self.recv = recv
        path = conn._network_paths[0]
        self.path = path
        assert recv._buffer_start == 0 and not recv._buffer and not list(recv._ranges)
        self._emit("flow.crypto.new", "ok " + self.show_crypto())
        assert len(path.remote_challenges) == 0
        self._emit("flow.path.new", "ok 0")
        cur = conn._peer_cid.sequence_number or 0
        self._emit(
            "flow.cid.new %d %d %d %s %s %s" % (
                conn._local_active_connection_id_limit, cur, conn._peer_retire_prior_to,
                self._csv(c.sequence_number for c in conn._peer_cid_available),
                self._csv(sorted(conn._peer_cid_sequence_numbers, reverse=True)),
                self._csv(conn._retire_connection_ids)),
            "ok " + self.show_cids())

        def errname(e):
            if isinstance(e, QuicConnectionError):
                return f"err QuicConnectionError({int(e.error_code)})"
            return "err " + type(e).__name__

        def peek(buf):
            return bytes(buf.data_slice(buf.tell(), buf.capacity))

        o_crypto, ep_crypto = handlers[0x06]

        def h_crypto(context, frame_type, buf):
            data = peek(buf)
            op = None
            if context.epoch == tls.Epoch.ONE_RTT:
                try:
                    off, i = F.get_varint(data, 0)
                    ln, i = F.get_varint(data, i)
                    if off + ln > (1 << 62) - 1 or i + ln <= len(data):
                        op = f"flow.crypto {off} {ln}"
                except F.ParseError:
                    pass
            before = recv._buffer_start
            err = None
            try:
                return o_crypto(context, frame_type, buf)
            except Exception as e:  # noqa
                err = e
                raise
            finally:
                if op is not None:
                    if err is not None and not isinstance(err, QuicConnectionError):
                        op = None       # TLS layer exception etc.: outside the model
                    elif err is None:
                        n = recv._buffer_start - before
                        head = "ok " + (str(n) if n else "none")
                    else:
                        head = errname(err)
                    if op is not None:
                        obs._emit(op, head + " | " + obs.show_crypto())
        handlers[0x06] = (h_crypto, ep_crypto)

        o_chal, ep_chal = handlers[0x1A]

        def h_chal(context, frame_type, buf):
            r = o_chal(context, frame_type, buf)
            if context.network_path is path:
                obs._emit("flow.path.chal", f"ok {len(path.remote_challenges)}")
            return r
        handlers[0x1A] = (h_chal, ep_chal)

        o_ncid, ep_ncid = handlers[0x18]

        def h_ncid(context, frame_type, buf):
            data = peek(buf)
            op = None
            try:
                seq, i = F.get_varint(data, 0)
                rpt, i = F.get_varint(data, i)
                ln = data[i]
                if 1 <= ln <= 20 and i + 1 + ln + 16 <= len(data):
                    op = f"flow.cid.ncid {seq} {rpt}"
            except (F.ParseError, IndexError):
                pass
            err = None
            try:
                return o_ncid(context, frame_type, buf)
            except Exception as e:  # noqa
                err = e
                raise
            finally:
                if op is not None:
                    obs._emit(op, ("ok" if err is None else errname(err)) + " | " + obs.show_cids())
        handlers[0x18] = (h_ncid, ep_ncid)

        o_change = conn.change_connection_id

        def change_connection_id():
            err = None
            try:
                return o_change()
            except Exception as e:  # noqa
                err = e
                raise
            finally:
                obs._emit("flow.cid.change", ("ok" if err is None else errname(err)) + " | " + obs.show_cids())
        conn.change_connection_id = change_connection_id

        # the PATH_RESPONSE and RETIRE_CONNECTION_ID loops of _write_application
        self.rooms = {"path": [], "retire": []}

        def wrap_write(name, key):
            orig = getattr(conn, name)

            def wrapper(*a, **kw):
                try:
                    r = orig(*a, **kw)
                except QuicPacketBuilderStop:
                    obs.rooms[key].append(False)
                    raise
                obs.rooms[key].append(True)
                if key == "retire":
                    obs.in_flight += 1
                return r
            setattr(conn, name, wrapper)
        wrap_write("_write_path_response_frame", "path")
        wrap_write("_write_retire_connection_id_frame", "retire")

        o_wa = conn._write_application

        def write_application(builder, network_path, now):
            n_path = len(path.remote_challenges) if network_path is path else None
            try:
                return o_wa(builder, network_path, now)
            finally:
                # one op per loop execution (a new loop starts with every packet: split at the
                # first failure; successes before it belong to the same or earlier packets)
                for key, op in (("path", "flow.path.write"), ("retire", "flow.cid.write")):
                    rooms = obs.rooms[key]
                    obs.rooms[key] = []
                    if key == "path" and n_path is None:
                        continue
                    bits = "".join("1" if x else "0" for x in rooms)
                    raised = bool(rooms) and not rooms[-1]
                    if key == "path":
                        obs._emit(f"{op} {bits or '-'}", ("err QuicPacketBuilderStop " if raised else "ok ") + str(len(path.remote_challenges)))
                    else:
                        obs._emit(f"{op} {bits or '-'}", ("err QuicPacketBuilderStop" if raised else "ok") + " | " + obs.show_cids())
        conn._write_application = write_application

        o_rd = conn._on_retire_connection_id_delivery

        def on_retire_delivery(delivery, sequence_number):
            o_rd(delivery, sequence_number)
            obs.in_flight -= 1
            obs._emit(f"flow.cid.deliv {_b(delivery == QuicDeliveryState.ACKED)} {sequence_number}", "ok | " + obs.show_cids())
        conn._on_retire_connection_id_delivery = on_retire_delivery

    @staticmethod
    def _csv(xs):
        xs = list(xs)
        return ",".join(str(x) for x in xs) if xs else "-"

    def _emit(self, op, out):
        self.lines.append(op)
        self.outs.append(out)
        c = self.conn
        self.max_seen["crypto"] = max(self.max_seen["crypto"], len(self.recv._buffer))
        self.max_seen["path"] = max(self.max_seen["path"], len(self.path.remote_challenges))
        self.max_seen["retire"] = max(self.max_seen["retire"], len(c._retire_connection_ids) - 0)
        self.max_seen["avail"] = max(self.max_seen["avail"], len(c._peer_cid_available))

    def show_crypto(self):
        r = self.recv
        rg = "[" + ",".join(f"{x.start}-{x.stop}" for x in r._ranges) + "]"
        return f"hi={r.highest_offset} start={r._buffer_start} buflen={len(r._buffer)} rg={rg}"

    def show_cids(self):
        c = self.conn
        return (f"cur={c._peer_cid.sequence_number or 0} avail={_ids(x.sequence_number for x in c._peer_cid_available)} "
                f"rpt={c._peer_retire_prior_to} retire={_ids(c._retire_connection_ids)} infl={self.in_flight}")
