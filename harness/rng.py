"""One PRNG for every random choice (seeded from VERIF_SEED)."""
import os
import random


def seed() -> int:
    try:
        return int(os.environ.get("VERIF_SEED", "0"))
    except ValueError:
        return 0


def make(stream: str = "") -> random.Random:
    return random.Random(f"{seed()}/{stream}")
