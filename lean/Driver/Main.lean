import Driver.Stream
import Driver.Recovery
import Driver.H3Validate
import Driver.Codec
import Driver.CloseTimer
import Driver.Cid

structure World where
  cid : Drv.CidW := {}
  close : Drv.CloseW := {}
  codec : Drv.CodecW := {}
  h3v : Drv.H3VW := {}
  stream : Drv.StreamW := {}
  recov : Drv.RecW := {}

def step (w : World) (line : String) : World × String :=
  let toks := (line.trimAscii.toString.splitOn " ").filter (· ≠ "")
  match toks with
  | [] => (w, "bad-op")
  | t :: _ =>
    if t.startsWith "recv." ∨ t.startsWith "send." ∨ t.startsWith "rs." then
      let (s, o) := Drv.stepStream w.stream toks
      ({ w with stream := s }, o)
    else if t.startsWith "rec." then
      let (s, o) := Drv.stepRecovery w.recov toks
      ({ w with recov := s }, o)
    else if t.startsWith "h3v." then
      let (s, o) := Drv.stepH3V w.h3v toks
      ({ w with h3v := s }, o)
    else if t.startsWith "codec." then
      let (s, o) := Drv.stepCodec w.codec toks
      ({ w with codec := s }, o)
    else if t.startsWith "spec." then (w, Drv.stepSpec toks)
    else if t.startsWith "close." then
      let (s, o) := Drv.stepClose w.close toks
      ({ w with close := s }, o)
    else if t.startsWith "cid." then
      let (s, o) := Drv.stepCid w.cid toks
      ({ w with cid := s }, o)
    else (w, "bad-op")

partial def loop (hin hout : IO.FS.Stream) (w : World) : IO Unit := do
  let line ← hin.getLine
  if line.isEmpty then return ()
  let (w', out) := step w line
  hout.putStrLn out
  loop hin hout w'

def main : IO Unit := do
  let hin ← IO.getStdin
  let hout ← IO.getStdout
  loop hin hout {}
