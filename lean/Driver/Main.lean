import Driver.Stream
import Driver.Recovery
import Driver.H3Validate
import Driver.Codec
import Driver.CloseTimer
import Driver.Cid
import Driver.StreamSys
import Driver.Builder
import Driver.Ack
import Driver.H3Parser
import Driver.RecvPath
import Driver.Prot
import Driver.Tls
import Driver.Adapter
import Driver.Flow
import Driver.CHelpers
import Driver.Amp
import Driver.Frame
import Driver.TlsExt
import Driver.KeyUpdate
import Driver.StreamTable

structure World where
  tab : Drv.TabW := {}
  ku : Drv.KuW := {}
  amp : Drv.AmpW := {}
  chelpers : Drv.CW := {}
  flow : Drv.FlowW := {}
  adp : Drv.AdpW := {}
  tls : Drv.TlsW := {}
  prot : Drv.ProtW := {}
  rx : Drv.RxW := {}
  h3p : Drv.H3W := {}
  ack : Drv.AckW := {}
  bld : Drv.BldW := {}
  sys : Drv.SysW := {}
  cid : Drv.CidW := {}
  close : Drv.CloseW := {}
  codec : Drv.CodecW := {}
  h3v : Drv.H3VW := {}
  stream : Drv.StreamW := {}
  recov : Drv.RecW := {}

def step (w : World) (line : String) : World × String :=
  let toks := (line.trimAscii.toString.splitOn " ").filter (· ≠ "")
  match toks with
  | [] => (w, "bad-op")
  | t :: _ =>
    if t.startsWith "recv." ∨ t.startsWith "send." ∨ t.startsWith "rs." then
      let (s, o) := Drv.stepStream w.stream toks
      ({ w with stream := s }, o)
    else if t.startsWith "rec." then
      let (s, o) := Drv.stepRecovery w.recov toks
      ({ w with recov := s }, o)
    else if t.startsWith "h3v." then
      let (s, o) := Drv.stepH3V w.h3v toks
      ({ w with h3v := s }, o)
    else if t.startsWith "codec." then
      let (s, o) := Drv.stepCodec w.codec toks
      ({ w with codec := s }, o)
    else if t.startsWith "spec." then (w, Drv.stepSpec toks)
    else if t.startsWith "close." then
      let (s, o) := Drv.stepClose w.close toks
      ({ w with close := s }, o)
    else if t.startsWith "cid." then
      let (s, o) := Drv.stepCid w.cid toks
      ({ w with cid := s }, o)
    else if t.startsWith "sys." then
      let (s, o) := Drv.stepSys w.sys toks
      ({ w with sys := s }, o)
    else if t.startsWith "bld." then
      let (s, o) := Drv.stepBuilder w.bld toks
      ({ w with bld := s }, o)
    else if t.startsWith "ack." then
      let (s, o) := Drv.stepAck w.ack toks
      ({ w with ack := s }, o)
    else if t.startsWith "h3." ∨ t.startsWith "h0." ∨ t.startsWith "closef." then
      let (s, o) := Drv.stepH3 w.h3p toks
      ({ w with h3p := s }, o)
    else if t.startsWith "rx." then
      let (s, o) := Drv.stepRecvPath w.rx toks
      ({ w with rx := s }, o)
    else if t.startsWith "prot." then
      let (s, o) := Drv.stepProt w.prot toks
      ({ w with prot := s }, o)
    else if t.startsWith "tls." ∨ t.startsWith "tlsc." then
      let (s, o) := Drv.stepTls w.tls toks
      ({ w with tls := s }, o)
    else if t.startsWith "adp." then
      let (s, o) := Drv.stepAdapter w.adp toks
      ({ w with adp := s }, o)
    else if t.startsWith "flow." then
      let (s, o) := Drv.stepFlow w.flow toks
      ({ w with flow := s }, o)
    else if t.startsWith "c." then
      let (s, o) := Drv.stepC w.chelpers toks
      ({ w with chelpers := s }, o)
    else if t.startsWith "amp." then
      let (s, o) := Drv.stepAmp w.amp toks
      ({ w with amp := s }, o)
    else if t.startsWith "frame." then (w, Drv.stepFrame toks)
    else if t.startsWith "tlsx." then (w, Drv.stepTlsExt toks)
    else if t.startsWith "ku." then
      let (s, o) := Drv.stepKu w.ku toks
      ({ w with ku := s }, o)
    else if t.startsWith "tab." then
      let (s, o) := Drv.stepTab w.tab toks
      ({ w with tab := s }, o)
    else (w, "bad-op")

partial def loop (hin hout : IO.FS.Stream) (w : World) : IO Unit := do
  let line ← hin.getLine
  if line.isEmpty then return ()
  let (w', out) := step w line
  hout.putStrLn out
  loop hin hout w'

def main : IO Unit := do
  let hin ← IO.getStdin
  let hout ← IO.getStdout
  loop hin hout {}
