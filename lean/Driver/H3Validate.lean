import AQ.Model.H3Validate
import Driver.Util
namespace Drv
open AQ AQ.H3V

structure H3VW where
  st : Option St := none

def parseHeader (item : String) : Option Header :=
  match item.splitOn ":" with
  | [n, v] => do
    let n ← ofHexChars n.toList
    let v ← ofHexChars v.toList
    pure (n, v)
  | _ => none

/-- `-` = empty list; else comma separated `<namehex>:<valuehex>` -/
def parseHeaders (tok : String) : Option Headers :=
  if tok = "-" then some [] else (tok.splitOn ",").mapM parseHeader

def fmtHeaders (hs : Headers) : String :=
  if hs.isEmpty then "-" else ",".intercalate (hs.map fun h => toHex h.1 ++ ":" ++ toHex h.2)

def kindOf (s : String) : Option Kind :=
  if s = "req" then some .request else if s = "resp" then some .response
  else if s = "trl" then some .trailers else if s = "push" then some .push else none

def showSt (s : St) : String :=
  if s.done then "done=1"
  else s!"hs={s.hstate.toNat} ecl={showOpt s.ecl} cl={s.cl} rem={s.rem} re={showB s.recvEnded} blk={showB s.blocked.isSome} buf={showB (!s.pending.isEmpty)} done=0"

def showEvent : Event → String
  | .headers hs e => s!"H({fmtHeaders hs},end={showB e})"
  | .data n e => s!"D(n={n},end={showB e})"
  | .pushPromise hs => s!"P({fmtHeaders hs})"

def showUnit : Outcome Unit → String
  | .ok _ => "ok"
  | .error e => showErr e

def runQ (w : H3VW) (op : QOp) : H3VW × String :=
  match w.st with
  | none => (w, "bad-op")
  | some s =>
    if ¬ s.done ∧ ¬ qapplicable s op then (w, "bad-op")
    else
      let (s', evs, err) := qstep s op
      let w' := { w with st := some s' }
      match err with
      | some e => (w', showErr e ++ " | " ++ showSt s')
      | none =>
        let es := if evs.isEmpty then "-" else ";".intercalate (evs.map showEvent)
        (w', s!"ok {es} | {showSt s'}")

def runOp (w : H3VW) (op : Op) : H3VW × String := runQ w (.plain op)

/-- the harness prints `bad-op` from the real stream's state; once the
    connection is done the stream object may be in any state, so applicability
    is only decided while not done (both sides) -/
def stepH3V (w : H3VW) : List String → H3VW × String
  | ["h3v.name", x] =>
    match ofHex x with
    | some b => (w, showUnit (validateHeaderName b))
    | none => (w, "bad-op")
  | ["h3v.value", x] =>
    match ofHex x with
    | some b => (w, showUnit (validateHeaderValue b))
    | none => (w, "bad-op")
  | ["h3v.int", x] =>
    match ofHex x with
    | some b =>
      match pyIntOfBytes b with
      | some n => (w, s!"ok {n}")
      | none => (w, "err ValueError")
    | none => (w, "bad-op")
  | ["h3v.headers", k, hs] =>
    match kindOf k, parseHeaders hs with
    | some k, some hs =>
      match validate k hs with
      | .ok cl => (w, s!"ok cl={showOpt cl}")
      | .error e => (w, showErr e)
    | _, _ => (w, "bad-op")
  | ["h3v.new", c, p] =>
    match boolOf c, boolOf p with
    | some c, some p =>
      let s : St := { isClient := c, isPush := p }
      ({ w with st := some s }, "ok | " ++ showSt s)
    | _, _ => (w, "bad-op")
  | ["h3v.hdr", hs, fin] =>
    match parseHeaders hs, boolOf fin with
    | some hs, some f => runOp w (.hdr hs f)
    | _, _ => (w, "bad-op")
  | ["h3v.pp", hs, fin] =>
    match parseHeaders hs, boolOf fin with
    | some hs, some f => runOp w (.pp hs f)
    | _, _ => (w, "bad-op")
  | ["h3v.hdrdata", hs, n, fin] =>
    match parseHeaders hs, n.toNat?, boolOf fin with
    | some hs, some n, some f => runOp w (.hdrdata hs n f)
    | _, _, _ => (w, "bad-op")
  | ["h3v.data", t, p, fin] =>
    match t.toNat?, p.toNat?, boolOf fin with
    | some t, some p, some f => runOp w (.data t p f)
    | _, _, _ => (w, "bad-op")
  | ["h3v.frag", n, fin] =>
    match n.toNat?, boolOf fin with
    | some n, some f => runOp w (.frag n f)
    | _, _ => (w, "bad-op")
  | ["h3v.hdrb", hs, fin] =>
    match parseHeaders hs, boolOf fin with
    | some hs, some f => runQ w (.hdrb hs f)
    | _, _ => (w, "bad-op")
  | ["h3v.ppb", hs, fin] =>
    match parseHeaders hs, boolOf fin with
    | some hs, some f => runQ w (.ppb hs f)
    | _, _ => (w, "bad-op")
  | ["h3v.unblock"] => runQ w .unblock
  | ["h3v.fin"] => runOp w .fin
  | ["h3v.other", t, fin] =>
    match t.toNat?, boolOf fin with
    | some t, some f => runOp w (.other t f)
    | _, _ => (w, "bad-op")
  | _ => (w, "bad-op")

end Drv
