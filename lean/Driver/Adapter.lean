import AQ.Model.Adapter
import Driver.Util
namespace Drv
open AQ AQ.Adapter

structure AdpW where
  w : World := {}

def adler32 (bs : Bytes) : Nat :=
  let (a, b) := bs.foldl (fun (ab : Nat × Nat) x =>
    let a := (ab.1 + x.toNat) % 65521
    (a, (ab.2 + a) % 65521)) (1, 0)
  b * 65536 + a

def parseEv (s : String) : Option Ev :=
  match s.toList with
  | ['H'] => some .handshake
  | ['T'] => some .terminated
  | ['O'] => some .other
  | 'P' :: r => (String.ofList r).toNat?.map .pingAck
  | 'I' :: r => (ofHex (String.ofList r)).map .issued
  | 'R' :: r => (ofHex (String.ofList r)).map .retired
  | 'D' :: r =>
    match (String.ofList r).splitOn ":" with
    | [sid, d, f] =>
      match sid.toNat?, ofHex d, boolOf f with
      | some sid, some d, some f => some (.data sid d f)
      | _, _, _ => none
    | _ => none
  | _ => none

def parseEvs (s : String) : Option (List Ev) :=
  if s = "-" then some [] else (s.splitOn ",").mapM parseEv

def showRes : Res → String
  | .ok => "ok"
  | .cerr => "cerr"
  | .assertion => "AssertionError"

def joinC (xs : List String) : String := ",".intercalate xs

def showProto (w : World) (c : Nat) (k : Conn) : String :=
  let p := k.p
  let pw := (p.pingWaiters.mergeSort (fun a b => a.1 ≤ b.1)).map fun e => s!"{e.1}:{e.2}"
  let rd := (p.readers.mergeSort (fun a b => a.1 ≤ b.1)).map fun e =>
    s!"{e.1}:{e.2.data.length}:{adler32 e.2.data}:{showB e.2.eof}"
  let wr := (p.sent.mergeSort (fun a b => a.1 ≤ b.1)).map fun e =>
    s!"{e.1}:{e.2.1.length}:{adler32 e.2.1}:{e.2.2}"
  let keys := if k.ss then
      let ks := ((w.tbl.filter (fun e => e.2 = c)).map (fun e => hexOut e.1)).mergeSort (fun a b => a ≤ b)
      "[" ++ joinC ks ++ "]"
    else "-"
  s!"c={showB p.connected} cf={showB (!p.connWaiters.isEmpty)} cw={p.connWaiters.length} pw=[{joinC pw}] " ++
  s!"cl={showB p.closed} wc={p.closedWaiters.length} tm={showB p.timer.isSome} ta={showOpt p.timerAt} " ++
  s!"tk={showB p.transmitTask} ps={p.pendingSoon} rd=[{joinC rd}] wr=[{joinC wr}] keys={keys}"

def showAction : Action → String
  | .none => ""
  | .skip => " skip"
  | .nostream => " nostream"
  | .noconn => ""
  | .drop => " drop"
  | .vn => " vn"
  | .retry k => s!" retry s{k}"
  | .new c o r => s!" new {c} odcid={hexOut o} rscid={match r with | none => "none" | some r => hexOut r}"
  | .route c => s!" route {c}"

def render (w : World) (o : Out) : String :=
  if o.action = .noconn then "bad-op" else
  let head := match o.err with
    | none => "ok"
    | some e => "err " ++ e.name
  let (done, st) := match o.conn with
    | none => ("", "-")
    | some c => match w.conns[c]? with
      | none => ("", "-")
      | some k =>
        let d := ((k.p.log.drop o.logFrom).mergeSort (fun a b => a.1 ≤ b.1)).map fun (e : WaiterId × Res) => s!"{e.1}:{showRes e.2}"
        (joinC d, showProto w c k)
  s!"{head}{showAction o.action} done=[{done}] | {st}"

def parseToken (w : World) (s : String) : Option Token :=
  if s = "-" then some .empty else
  match s.toList with
  | 's' :: r => match (String.ofList r).toNat? with
    | some k => match w.tokens[k]? with
      | some (a, o, rs) => some (.sealed w.key a o rs)
      | none => none
    | none => none
  | 'f' :: r => (String.ofList r).toNat?.map .junk
  | _ => none

def quirksOf (n : Nat) : Quirks :=
  { noConnectedFlag := n % 2 = 1, noClosedCheck := n / 2 % 2 = 1, assertSingle := n / 4 % 2 = 1,
    deferTxEvents := n / 8 % 2 = 1, sharedStreamId := n / 16 % 2 = 1 }

def doStep (a : AdpW) (op : Op) : AdpW × String :=
  let (w, o) := step a.w op
  ({ w := w }, render w o)

def stepAdapter (a : AdpW) : List String → AdpW × String
  | ["adp.new", q] =>
    match q.toNat? with
    | some n => ({ w := { q := quirksOf n } }, "ok")
    | none => (a, "bad-op")
  | ["adp.encaddr", host, port] =>
    match ofHex host, port.toNat? with
    | some h, some p =>
      match encodeAddress h p with
      | .ok b => (a, "ok " ++ hexOut b)
      | .error e => (a, showErr e)
    | _, _ => (a, "bad-op")
  | ["adp.server", r] =>
    match boolOf r with
    | some b => ({ w := { a.w with retry := b } }, "ok")
    | none => (a, "bad-op")
  | ["adp.conn"] =>
    let (w, o) := step a.w .newConn
    ({ w := w }, s!"ok {o.conn.getD 0}")
  | ["adp.dgram", c, tat, evs, tx] =>
    match c.toNat?, optNat tat, parseEvs evs, parseEvs tx with
    | some c, some t, some e, some x => doStep a (.dgram c t e x)
    | _, _, _, _ => (a, "bad-op")
  | ["adp.timer", c, tat, evs, tx] =>
    match c.toNat?, optNat tat, parseEvs evs, parseEvs tx with
    | some c, some t, some e, some x => doStep a (.timer c t e x)
    | _, _, _, _ => (a, "bad-op")
  | ["adp.transmit", c, tat, tx] =>
    match c.toNat?, optNat tat, parseEvs tx with
    | some c, some t, some x => doStep a (.transmit c t x)
    | _, _, _ => (a, "bad-op")
  | ["adp.waitconn", c, wid] =>
    match c.toNat?, wid.toNat? with
    | some c, some n => if n = a.w.nextWid then doStep a (.waitConn c) else (a, "bad-op")
    | _, _ => (a, "bad-op")
  | ["adp.waitclosed", c, wid] =>
    match c.toNat?, wid.toNat? with
    | some c, some n => if n = a.w.nextWid then doStep a (.waitClosed c) else (a, "bad-op")
    | _, _ => (a, "bad-op")
  | ["adp.ping", c, wid, uid, tat, tx] =>
    match c.toNat?, wid.toNat?, uid.toNat?, optNat tat, parseEvs tx with
    | some c, some n, some u, some t, some x =>
      if n = a.w.nextWid then doStep a (.ping c u t x) else (a, "bad-op")
    | _, _, _, _, _ => (a, "bad-op")
  | ["adp.close", c, tat, tx] =>
    match c.toNat?, optNat tat, parseEvs tx with
    | some c, some t, some x => doStep a (.close c t x)
    | _, _, _ => (a, "bad-op")
  | ["adp.cancel", c, wid] =>
    match c.toNat?, wid.toNat? with
    | some c, some n => doStep a (.cancelCaller c n)
    | _, _ => (a, "bad-op")
  | ["adp.mkstream", c, sid] =>
    match c.toNat?, sid.toNat? with
    | some c, some s => doStep a (.mkStream c s)
    | _, _ => (a, "bad-op")
  | ["adp.write", c, sid, d] =>
    match c.toNat?, sid.toNat?, ofHex d with
    | some c, some s, some d => doStep a (.write c s d)
    | _, _, _ => (a, "bad-op")
  | ["adp.eof", c, sid] =>
    match c.toNat?, sid.toNat? with
    | some c, some s => doStep a (.eof c s)
    | _, _ => (a, "bad-op")
  | ["adp.sdgram", addr, hdr, dcid, ptype, big, tok, rand, tat, evs, tx] =>
    match addr.toNat?, optNat tat, parseEvs evs, parseEvs tx with
    | some ad, some t, some e, some x =>
      let rnd := (ofHex rand).getD []
      if hdr = "bad" then doStep a (.sdgram ad .bad rnd t e x)
      else if hdr = "vn" then doStep a (.sdgram ad .unsupported rnd t e x)
      else match ofHex dcid, boolOf big, parseToken a.w tok with
        | some d, some b, some tk => doStep a (.sdgram ad (.h d (ptype = "I") b tk) rnd t e x)
        | _, _, _ => (a, "bad-op")
    | _, _, _, _ => (a, "bad-op")
  | _ => (a, "bad-op")

end Drv
