import AQ.Base.Basic
namespace Drv
open AQ

def optNat (s : String) : Option (Option Nat) :=
  if s = "none" then some none else s.toNat?.map some

def boolOf (s : String) : Option Bool :=
  if s = "1" ∨ s = "true" then some true else if s = "0" ∨ s = "false" then some false else none

def showOpt : Option Nat → String
  | none => "none"
  | some n => toString n

def showB (b : Bool) : String := if b then "1" else "0"

def showErr (e : Err) : String := "err " ++ e.name

end Drv
