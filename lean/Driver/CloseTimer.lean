import AQ.Model.CloseTimer
import Driver.Recovery
namespace Drv
open AQ AQ.Recovery AQ.CloseTimer

structure CloseW where
  c : Conn Float := Conn.init true

def strHex (s : String) : String := hexOut s.toUTF8.toList

def hexStr? (h : String) : Option String := do
  let bs ← ofHex h
  String.fromUTF8? (ByteArray.mk bs.toArray)

def showCE (e : CloseEv) : String :=
  s!"{e.code}:{showOpt e.frameType}:{strHex e.reason}"

def showOCE : Option CloseEv → String
  | none => "-"
  | some e => showCE e

def parseCE? (s : String) : Option (Option CloseEv) :=
  if s = "-" then some none else
  match s.splitOn ":" with
  | [c, ft, r] => do
    let c ← c.toNat?
    let ft ← optNat ft
    let r ← hexStr? r
    pure (some ⟨c, ft, r⟩)
  | _ => none

def showConn (c : Conn Float) : String :=
  let term := (c.log.filter Ev.isTerm).length
  s!"st={c.state.name} ca={showOF c.closeAt} ev={showOCE c.closeEvent} pend={showB c.closePending} path={showB c.hasPath} q={c.events.length} term={term} log={c.log.length} lf={c.lossFired} cb={c.closeBuilds} cp={c.closePkts}"

def parsePkt (tok : String) : Option (CloseTimer.Pkt Float) :=
  match tok.splitOn "," with
  | ["drop"] => some .drop
  | ["dup"] => some .drop        -- duplicate (space, packet number): "discard packets which were already processed"
  | ["dropret"] => some .dropRet
  | ["rb"] => some .reserved
  | ["vn", o, c, idle] => do
    let o ← boolOf o; let c ← boolOf c; let idle ← ofBits? idle
    pure (.vn o c idle)
  | ["retry", v, idle] => do
    let v ← boolOf v; let idle ← ofBits? idle
    pure (.retry v idle)
  | ["pl", pre, pc, pto, post, err, idle] => do
    let pre ← pre.toNat?; let pc ← parseCE? pc; let pto ← ofBits? pto
    let post ← post.toNat?; let err ← parseCE? err; let idle ← ofBits? idle
    pure (.payload pre pc pto post err idle)
  | _ => none

def parseOptF (s : String) : Option (Option Float) :=
  if s = "none" then some none else (ofBits? s).map some

def parseAcks (s : String) : Option (List (Option Float)) :=
  if s = "[]" then some [] else (s.splitOn ",").mapM parseOptF

def showEv : Option Ev → String
  | none => "none"
  | some .other => "other"
  | some (.terminated none) => "term:None"
  | some (.terminated (some e)) => "term:" ++ showCE e

def stepClose (w : CloseW) : List String → CloseW × String
  | ["close.new", role] =>
    let c : Conn Float := Conn.init (role = "client")
    ({ c := c }, "ok | " ++ showConn c)
  | ["close.connect", now, idle] =>
    match ofBits? now, ofBits? idle with
    | some now, some idle =>
      match connect FA w.c now idle with
      | .error e => (w, showErr e ++ " | " ++ showConn w.c)
      | .ok c => ({ c := c }, "ok | " ++ showConn c)
    | _, _ => (w, "bad-op")
  | "close.rx" :: now :: idle0 :: pkts =>
    match ofBits? now, ofBits? idle0, pkts.mapM parsePkt with
    | some now, some idle0, some pkts =>
      let c := rx FA w.c now idle0 pkts
      ({ c := c }, "ok | " ++ showConn c)
    | _, _, _ => (w, "bad-op")
  | ["close.close", code, ft, reason] =>
    match code.toNat?, optNat ft, hexStr? reason with
    | some code, some ft, some r =>
      let c := apiClose w.c ⟨code, ft, r⟩
      ({ c := c }, "ok | " ++ showConn c)
    | _, _, _ => (w, "bad-op")
  | ["close.send", now, hs, kI, kH, k1, pto, ndg, npk, evs] =>
    match ofBits? now, boolOf hs, boolOf kI, boolOf kH, boolOf k1, ofBits? pto, ndg.toNat?, npk.toNat?, evs.toNat? with
    | some now, some hs, some kI, some kH, some k1, some pto, some ndg, some npk, some evs =>
      let (c, sent) := datagramsToSend FA w.c now ⟨hs, kI, kH, k1, pto, ndg, npk, evs⟩
      ({ c := c }, s!"ok dg={sent.datagrams} cl={sent.closing} data={sent.data} | " ++ showConn c)
    | _, _, _, _, _, _, _, _, _ => (w, "bad-op")
  | ["close.timer", acks, loss, pacing] =>
    match parseAcks acks, parseOptF loss, parseOptF pacing with
    | some acks, some loss, some pacing =>
      let (c, t) := getTimer FA w.c acks loss pacing
      ({ c := c }, s!"ok {showOF t} | " ++ showConn c)
    | _, _, _ => (w, "bad-op")
  | ["close.fire", now] =>
    match ofBits? now with
    | some now =>
      let c := handleTimer FA w.c now
      ({ c := c }, "ok | " ++ showConn c)
    | none => (w, "bad-op")
  | ["close.next"] =>
    let (c, e) := nextEvent w.c
    ({ c := c }, s!"ok {showEv e} | " ++ showConn c)
  | _ => (w, "bad-op")

end Drv
