import AQ.Model.Cid
import Driver.Util
namespace Drv
open AQ AQ.Cid

structure CidW where
  c : Cfg := { isClient := true, remoteLimit := 8 }
  s : State := {}

def showL (l : List Nat) : String := "[" ++ String.intercalate "," (l.map toString) ++ "]"

def insSorted (x : Nat) : List Nat → List Nat
  | [] => [x]
  | y :: t => if x ≤ y then x :: y :: t else y :: insSorted x t

def sortNat (l : List Nat) : List Nat := l.foldr insSorted []

def showCidState (s : State) : String :=
  let hs := String.intercalate "," (s.hostCids.map fun h => s!"{h.seq}:{showB h.wasSent}")
  s!"peer={s.peerCid} avail={showL s.peerAvailable} seen={showL (sortNat s.peerSeen)} rpt={s.peerRetirePriorTo} rq={showL s.retireQueue} hcids=[{hs}] hseq={s.hostSeq} hcid={showOpt s.hostCid}"

def cidRes (w : CidW) (r : Res) : CidW × String :=
  match r with
  | (s, none) => ({ w with s := s }, "ok | " ++ showCidState s)
  | (s, some e) => ({ w with s := s }, showErr e ++ " | " ++ showCidState s)

def stepCid (w : CidW) : List String → CidW × String
  | ["cid.new", cl, rl, q1, q2] =>
    match boolOf cl, rl.toNat?, boolOf q1, boolOf q2 with
    | some cl, some rl, some q1, some q2 =>
      let w : CidW := { c := { isClient := cl, remoteLimit := rl, quirkConsume := q1, quirkDropReordered := q2 }, s := {} }
      (w, "ok | " ++ showCidState w.s)
    | _, _, _, _ => (w, "bad-op")
  | ["cid.ncid", a, b, n] =>
    match a.toNat?, b.toNat?, n.toNat? with
    | some a, some b, some n => cidRes w (step w.c w.s (.rxNewConnectionId a b n))
    | _, _, _ => (w, "bad-op")
  | ["cid.retire", a, v] =>
    match a.toNat?, optNat v with
    | some a, some v => cidRes w (step w.c w.s (.rxRetire a v))
    | _, _ => (w, "bad-op")
  | ["cid.change"] => cidRes w (step w.c w.s .localChange)
  | ["cid.switch", v] =>
    match optNat v with
    | some v => cidRes w (step w.c w.s (.peerSwitched v))
    | none => (w, "bad-op")
  | ["cid.write", r] =>
    match r.toNat? with
    | some r => cidRes w (step w.c w.s (.writeCid r))
    | none => (w, "bad-op")
  | ["cid.rdel", a, k] =>
    match a.toNat?, boolOf k with
    | some a, some k => cidRes w (step w.c w.s (.retireDelivery a k))
    | _, _ => (w, "bad-op")
  | ["cid.ndel", a, k] =>
    match a.toNat?, boolOf k with
    | some a, some k => cidRes w (step w.c w.s (.newCidDelivery a k))
    | _, _ => (w, "bad-op")
  | ["cid.replenish"] => cidRes w (step w.c w.s .replenish)
  | ["cid.state"] => (w, "ok | " ++ showCidState w.s ++ s!" infl={showL (sortNat w.s.retireInflight)}")
  | _ => (w, "bad-op")

end Drv
