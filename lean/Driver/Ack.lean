import AQ.Model.Ack
import Driver.Recovery
import Driver.Builder
namespace Drv
open AQ AQ.Ack AQ.RangeSet

structure AckW where
  c : Conn Float := { spaces := [{}, {}, {}], delay := 0.001 }
  dead : Bool := false

def showSp (s : Space Float) : String :=
  s!"q={render s.ackQueue};st={s.ackQueueStart};at={showOF s.ackAt};lr={s.largestReceived};lrt={showOF s.largestReceivedTime};d={showB s.discarded}"

def Ack_showConn (c : Conn Float) : String := " ".intercalate (c.spaces.map showSp)

def intList (s : String) : Option (List Int) :=
  if s = "-" then some [] else (s.splitOn ",").mapM (·.toInt?)

def effOf (t : String) : Option Eff :=
  if t.startsWith "d" then (t.drop 1).toString.toNat?.map Eff.discard
  else if t.startsWith "a" then
    match (t.drop 1).toString.splitOn ":" with
    | [sp, h] => do let sp ← sp.toNat?; let h ← h.toInt?; pure (Eff.aoa sp h)
    | _ => none
  else none

def effList (s : String) : Option (List Eff) :=
  if s = "-" then some [] else (s.splitOn ",").mapM effOf

def Ack_showNats (l : List Nat) : String := "[" ++ ",".intercalate (l.map toString) ++ "]"

def ackShowOut : Out → String
  | .unit => ""
  | .rx .duplicate => " duplicate"
  | .rx .closed => " closed"
  | .rx .recorded => " recorded"
  | .tx .nothing => " nothing"
  | .tx .stopped => " stopped"
  | .tx .noAck => " noack"
  | .tx (.ack f) => s!" ack v={Ack_showNats f.values} n={f.ranges} h={f.highest}"

def runAck (w : AckW) (op : Op Float) : AckW × String :=
  match step FA w.c op with
  | .ok (c, o) => ({ w with c := c }, s!"ok{ackShowOut o} | {Ack_showConn c}")
  | .error e => ({ w with dead := true }, showErr e)

def stepAck (w : AckW) (toks : List String) : AckW × String :=
  match toks with
  | ["ack.new", d] =>
    match ofBits? d with
    | some d => let c : Conn Float := { spaces := [{}, {}, {}], delay := d }
                ({ c := c, dead := false }, s!"ok | {Ack_showConn c}")
    | none => (w, "bad-op")
  | _ =>
    if w.dead then (w, "dead") else
    match toks with
    | ["ack.rx", sp, pn, ae, now, acc, acked] =>
      match sp.toNat?, pn.toNat?, boolOf ae, ofBits? now, boolOf acc, effList acked with
      | some sp, some pn, some ae, some now, some acc, some acked => runAck w (.rx sp pn ae now acc acked)
      | _, _, _, _, _, _ => (w, "bad-op")
    | ["ack.aoa", sp, h] =>
      match sp.toNat?, h.toInt? with
      | some sp, some h => runAck w (.ackOfAck sp h)
      | _, _ => (w, "bad-op")
    | ["ack.discard", sp] =>
      match sp.toNat? with
      | some sp => runAck w (.discard sp)
      | none => (w, "bad-op")
    | ["ack.txhs", sp, kv, so, af, de, ms] =>
      match sp.toNat?, boolOf kv, boolOf so, boolOf af, de.toNat?, optInt ms with
      | some sp, some kv, some so, some af, some de, some ms => runAck w (.txHs sp kv so af de ms)
      | _, _, _, _, _, _ => (w, "bad-op")
    | ["ack.txapp", sp, now, hc, kv, pw, so, af, de, ms] =>
      match sp.toNat?, ofBits? now, boolOf hc, boolOf kv, boolOf pw, boolOf so, boolOf af, de.toNat?, optInt ms with
      | some sp, some now, some hc, some kv, some pw, some so, some af, some de, some ms =>
        runAck w (.txApp sp now hc kv pw so af de ms)
      | _, _, _, _, _, _, _, _, _ => (w, "bad-op")
    | ["ack.timer", ca] =>
      match ofBits? ca with
      | some ca => (w, s!"ok {fbits (ackTimer FA ca w.c.spaces)}")
      | none => (w, "bad-op")
    | _ => (w, "bad-op")

end Drv
