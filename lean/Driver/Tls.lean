import AQ.Model.TlsMachine
import AQ.Model.TlsCodec
import AQ.Model.TlsNegotiate
import Driver.Util
/-
  Line protocol on the generated TLS machine:
    tls.dispatch <STATE> <TYPE>                       -> ok <handler | refuse>
    tls.exec <handler> <true tests|-> <fail line|-> <exception|->
        -> ok|err <Exception> | st=<last state set|-> keys=<DIR:EPOCH,..|-> hash=<schedules|-> resumed=<0|1>
-/
namespace Drv
open AQ.Gen.Tls AQ.Tls

structure TlsW where
  dummy : Unit := ()

def lookup {α} (tbl : List (String × α)) (s : String) : Option α := (tbl.find? (·.1 == s)).map (·.2)
def nameOf {α} [BEq α] (tbl : List (String × α)) (x : α) : String :=
  ((tbl.find? (·.2 == x)).map (·.1)).getD "?"

def showExn : Exn → String
  | .alert a => a.name
  | .py _ => "py"

def hashOf : Act → Option String
  | .updateHash .main _ => some "main"
  | .updateHash .psk _ => some "psk"
  | .updateHash .proxy _ => some "proxy"
  | .pushMessage _ true .main => some "main"
  | .pushMessage _ true .psk => some "psk"
  | .pushMessage _ true .proxy => some "proxy"
  | _ => none

def keyOf : Act → Option String
  | .releaseKey d e => some (nameOf dirNames d ++ ":" ++ nameOf epochNames e)
  | _ => none

def stOf : Act → Option St
  | .setState s => some s
  | _ => none

def Tls_natList (s : String) : Option (List Nat) :=
  if s = "-" then some [] else (s.splitOn ",").mapM (·.toNat?)

def joinOr (l : List String) : String := if l.isEmpty then "-" else ",".intercalate l

def stepTls (w : TlsW) : List String → TlsW × String
  | ["tls.dispatch", s, t] =>
    match lookup stNames s, lookup htNames t with
    | some s, some t =>
      match handlerFor s t with
      | some f => (w, "ok " ++ nameOf fnNames f)
      | none => (w, "ok refuse")
    | _, _ => (w, "bad-op")
  | ["tls.exec", f, tests, fail, exn] =>
    match lookup fnNames f with
    | none => (w, "bad-op")
    | some f =>
      let tl := if tests = "-" then [] else tests.splitOn ","
      let tset := tl.filterMap (lookup testNames)
      if tset.length ≠ tl.length then (w, "bad-op") else
      let e : Option Exn := if exn = "-" then none else
        match lookup alertNames exn with
        | some a => some (.alert a)
        | none => some (.py 1)
      let fl : Option Nat := if fail = "-" then none else fail.toNat?
      let env : Env := { test := fun t => tset.contains t, fails := fun l => if some l = fl then e else none }
      let r := exec env (flat f)
      let st := ((r.1.filterMap stOf).getLast?).map (nameOf stNames)
      let resumed := r.1.contains (.setAttr .session_resumed .true)
      let out := match r.2 with
        | .done => "ok"
        | .raised x => "err " ++ showExn x
      (w, s!"{out} | st={st.getD "-"} keys={joinOr (r.1.filterMap keyOf)} hash={joinOr (r.1.filterMap hashOf)} resumed={showB resumed}")
  | ["tls.negotiate", sup, off] =>
    match Tls_natList sup, (if off = "none" then some none else (Tls_natList off).map some) with
    | some s, some o => (w, "ok " ++ showOpt (AQ.TlsNeg.negotiate s o))
    | _, _ => (w, "bad-op")
  | ["tls.compat", a, b] =>
    match a.toNat?, b.toNat? with
    | some a, some b => (w, "ok " ++ showB (AQ.TlsNeg.isVersionCompatible a b))
    | _, _ => (w, "bad-op")
  | ["tls.vn", cur, cs, vn] =>
    match cur.toNat?, Tls_natList cs, Tls_natList vn with
    | some c, some cs, some vn =>
      (w, match AQ.TlsNeg.vnChoice c cs vn with
          | .ignored => "ok ignored"
          | .retry v => s!"ok retry {v}"
          | .fail => "ok fail")
    | _, _, _ => (w, "bad-op")
  | ["tls.schoice", cur, ss, av] =>
    match cur.toNat?, Tls_natList ss, Tls_natList av with
    | some c, some ss, some av => (w, s!"ok {AQ.TlsNeg.serverChoice c ss av}")
    | _, _, _ => (w, "bad-op")
  | ["tls.final", orig, cs, ss] =>
    match optNat orig, Tls_natList cs, Tls_natList ss with
    | some o, some cs, some ss => (w, "ok " ++ showOpt (AQ.TlsNeg.finalVersion o cs ss))
    | _, _, _ => (w, "bad-op")
  | ["tlsc.check", hex] =>
    match AQ.ofHex hex with
    | some bs => (w, if AQ.TlsCodec.accepts bs then "ok" else "err")
    | none => (w, "bad-op")
  | _ => (w, "bad-op")

end Drv
