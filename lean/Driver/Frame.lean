import AQ.Model.FrameCodec
import AQ.Model.CodecSpec
import Driver.Util
namespace Drv
open AQ AQ.Codec AQ.Frame

private def bit (b : Bool) : String := if b then "1" else "0"

private def showRs (rs : List IRg) : String :=
  if rs.isEmpty then "-" else "/".intercalate (rs.map fun r => s!"{r.start}:{r.stop}")

/-- canonical text of a frame: `NAME:k=v,k=v` (bytes hex, `-` empty); ECN counts are not shown -/
private def showFrame : Frame → String
  | .padding more => s!"PADDING:n={more + 1}"
  | .ping => "PING"
  | .ack rs delay none => s!"ACK:rs={showRs rs},delay={delay}"
  | .ack rs delay (some _) => s!"ACK_ECN:rs={showRs rs},delay={delay}"
  | .resetStream sid err final => s!"RESET_STREAM:sid={sid},err={err},final={final}"
  | .stopSending sid err => s!"STOP_SENDING:sid={sid},err={err}"
  | .crypto off d => s!"CRYPTO:off={off},data={hexOut d}"
  | .newToken t => s!"NEW_TOKEN:token={hexOut t}"
  | .stream sid off d fin o l => s!"STREAM:sid={sid},off={off},data={hexOut d},fin={bit fin},o={bit o},l={bit l}"
  | .maxData v => s!"MAX_DATA:v={v}"
  | .maxStreamData sid v => s!"MAX_STREAM_DATA:sid={sid},v={v}"
  | .maxStreams uni v => (if uni then "MAX_STREAMS_UNI" else "MAX_STREAMS_BIDI") ++ s!":v={v}"
  | .dataBlocked v => s!"DATA_BLOCKED:v={v}"
  | .streamDataBlocked sid v => s!"STREAM_DATA_BLOCKED:sid={sid},v={v}"
  | .streamsBlocked uni v => (if uni then "STREAMS_BLOCKED_UNI" else "STREAMS_BLOCKED_BIDI") ++ s!":v={v}"
  | .newConnectionId seq rpt cid tok => s!"NEW_CONNECTION_ID:seq={seq},rpt={rpt},cid={hexOut cid},token={hexOut tok}"
  | .retireConnectionId seq => s!"RETIRE_CONNECTION_ID:seq={seq}"
  | .pathChallenge d => s!"PATH_CHALLENGE:data={hexOut d}"
  | .pathResponse d => s!"PATH_RESPONSE:data={hexOut d}"
  | .transportClose err ft r => s!"TRANSPORT_CLOSE:err={err},ft={ft},reason={hexOut r}"
  | .applicationClose err r => s!"APPLICATION_CLOSE:err={err},reason={hexOut r}"
  | .handshakeDone => "HANDSHAKE_DONE"
  | .datagram d l => s!"DATAGRAM:data={hexOut d},l={bit l}"

private def showFrames (fs : List Frame) : String :=
  if fs.isEmpty then "-" else ";".intercalate (fs.map showFrame)

private def fieldsOf (s : String) : List (String × String) :=
  (s.splitOn ",").filterMap fun kv =>
    match kv.splitOn "=" with
    | [k, v] => some (k, v)
    | _ => none

private def getF (fs : List (String × String)) (k : String) : Option String :=
  (fs.find? (·.1 == k)).map (·.2)

private def getN (fs : List (String × String)) (k : String) : Option Nat := (getF fs k).bind String.toNat?
private def getB (fs : List (String × String)) (k : String) : Option Bytes := (getF fs k).bind ofHex
private def getBit (fs : List (String × String)) (k : String) : Option Bool := (getF fs k).bind boolOf

private def rsOf (s : String) : Option (List IRg) :=
  if s = "-" then some [] else
  (s.splitOn "/").foldr (fun tok acc =>
    match acc, tok.splitOn ":" with
    | some l, [a, b] =>
      match a.toInt?, b.toInt? with
      | some a, some b => some (⟨a, b⟩ :: l)
      | _, _ => none
    | _, _ => none) (some [])

private def frameOf (s : String) : Option Frame :=
  let (name, rest) := match s.splitOn ":" with
    | [n] => (n, "")
    | n :: r => (n, ":".intercalate r)
    | [] => ("", "")
  let fs := fieldsOf rest
  match name with
  | "PADDING" => (getN fs "n").bind fun n => if n ≥ 1 then some (.padding (n - 1)) else none
  | "PING" => some .ping
  | "ACK" => do some (.ack (← (getF fs "rs").bind rsOf) (← getN fs "delay") none)
  | "ACK_ECN" => do some (.ack (← (getF fs "rs").bind rsOf) (← getN fs "delay") (some (0, 0, 0)))
  | "RESET_STREAM" => do some (.resetStream (← getN fs "sid") (← getN fs "err") (← getN fs "final"))
  | "STOP_SENDING" => do some (.stopSending (← getN fs "sid") (← getN fs "err"))
  | "CRYPTO" => do some (.crypto (← getN fs "off") (← getB fs "data"))
  | "NEW_TOKEN" => do some (.newToken (← getB fs "token"))
  | "STREAM" => do
    some (.stream (← getN fs "sid") (← getN fs "off") (← getB fs "data") (← getBit fs "fin") (← getBit fs "o")
      (← getBit fs "l"))
  | "MAX_DATA" => do some (.maxData (← getN fs "v"))
  | "MAX_STREAM_DATA" => do some (.maxStreamData (← getN fs "sid") (← getN fs "v"))
  | "MAX_STREAMS_BIDI" => do some (.maxStreams false (← getN fs "v"))
  | "MAX_STREAMS_UNI" => do some (.maxStreams true (← getN fs "v"))
  | "DATA_BLOCKED" => do some (.dataBlocked (← getN fs "v"))
  | "STREAM_DATA_BLOCKED" => do some (.streamDataBlocked (← getN fs "sid") (← getN fs "v"))
  | "STREAMS_BLOCKED_BIDI" => do some (.streamsBlocked false (← getN fs "v"))
  | "STREAMS_BLOCKED_UNI" => do some (.streamsBlocked true (← getN fs "v"))
  | "NEW_CONNECTION_ID" => do
    some (.newConnectionId (← getN fs "seq") (← getN fs "rpt") (← getB fs "cid") (← getB fs "token"))
  | "RETIRE_CONNECTION_ID" => do some (.retireConnectionId (← getN fs "seq"))
  | "PATH_CHALLENGE" => do some (.pathChallenge (← getB fs "data"))
  | "PATH_RESPONSE" => do some (.pathResponse (← getB fs "data"))
  | "TRANSPORT_CLOSE" => do some (.transportClose (← getN fs "err") (← getN fs "ft") (← getB fs "reason"))
  | "APPLICATION_CLOSE" => do some (.applicationClose (← getN fs "err") (← getB fs "reason"))
  | "HANDSHAKE_DONE" => some .handshakeDone
  | "DATAGRAM" => do some (.datagram (← getB fs "data") (← getBit fs "l"))
  | _ => none

private def framesOf (s : String) : Option (List Frame) :=
  if s = "-" then some [] else
  (s.splitOn ";").foldr (fun tok acc =>
    match acc, frameOf tok with
    | some l, some f => some (f :: l)
    | _, _ => none) (some [])

private def writeHex (fs : List Frame) : String :=
  match writeAll fs with
  | none => "ok none"
  | some sc =>
    match Script.runFresh sc 70000 with
    | .ok (_, d) => "ok " ++ hexOut d
    | .error e => showErr e

def stepFrame : List String → String
  | ["frame.decode", h] =>
    match ofHex h with
    | some d =>
      match payloadFrames d with
      | .ok fs => "ok " ++ showFrames fs
      | .error e => showErr e
    | none => "bad-op"
  | ["frame.reencode", h] =>
    -- decode with the model, write with the model's `_write_*` scripts
    match ofHex h with
    | some d =>
      match payloadFrames d with
      | .ok fs => writeHex fs
      | .error e => showErr e
    | none => "bad-op"
  | ["frame.write", t] =>
    match framesOf t with
    | some fs => writeHex fs
    | none => "bad-op"
  | ["frame.spec", t] =>
    match framesOf t with
    | some fs => "ok " ++ hexOut (CodecSpec.encFrames none fs)
    | none => "bad-op"
  | ["frame.token", addr, odcid, rscid] =>
    match ofHex addr, ofHex odcid, ofHex rscid with
    | some a, some o, some r =>
      match retryTokenPlain a o r with
      | .ok d => "ok " ++ hexOut d
      | .error e => showErr e
    | _, _, _ => "bad-op"
  | ["frame.token_pull", h, addr] =>
    match ofHex h, ofHex addr with
    | some d, some a =>
      match validateToken a d with
      | .ok (o, r) => s!"ok odcid={hexOut o} rscid={hexOut r}"
      | .error e => showErr e
    | _, _ => "bad-op"
  | _ => "bad-op"

end Drv
