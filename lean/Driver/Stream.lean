import AQ.Model.Stream
import Driver.Util
namespace Drv
open AQ AQ.Stream AQ.RangeSet

structure StreamW where
  recv : Recv := {}
  send : Send := {}
  rs : List Rg := []

def showRecv (s : Recv) : String :=
  s!"hi={s.highest} fin={showB s.finished} start={s.bufStart} fs={showOpt s.finalSize} rg={render s.ranges} buflen={s.buffer.length}"

def showSend (s : Send) : String :=
  s!"empty={showB s.bufferIsEmpty} hi={s.highest} fin={showB s.finished} rp={showB s.resetPending} next={nextOffset s} start={s.bufStart} stop={s.bufStop} bfin={showOpt s.bufFin} pend={render s.pending} peof={showB s.pendingEof} acked={render s.acked} afin={showB s.ackedFin}"

def stepStream (w : StreamW) : List String → StreamW × String
  | ["recv.new"] => ({ w with recv := {} }, "ok " ++ showRecv {})
  | ["recv.frame", off, dat, fin] =>
    match off.toNat?, ofHex dat, boolOf fin with
    | some o, some d, some f =>
      match handleFrame w.recv ⟨o, d, f⟩ with
      | .error e => (w, showErr e ++ " | " ++ showRecv w.recv)
      | .ok (s, ev) =>
        let evs := match ev with
          | none => "none"
          | some e => s!"data={hexOut e.data} end={showB e.endStream}"
        ({ w with recv := s }, s!"ok {evs} | {showRecv s}")
    | _, _, _ => (w, "bad-op")
  | ["recv.reset", fs] =>
    match fs.toNat? with
    | some z =>
      match handleReset w.recv z with
      | .error e => (w, showErr e ++ " | " ++ showRecv w.recv)
      | .ok s => ({ w with recv := s }, s!"ok reset | {showRecv s}")
    | none => (w, "bad-op")
  | ["send.new", wr] =>
    match boolOf wr with
    | some b => ({ w with send := Send.init b }, "ok " ++ showSend (Send.init b))
    | none => (w, "bad-op")
  | ["send.write", dat, fin] =>
    match ofHex dat, boolOf fin with
    | some d, some f =>
      match write w.send d f with
      | .error e => (w, showErr e ++ " | " ++ showSend w.send)
      | .ok s => ({ w with send := s }, "ok | " ++ showSend s)
    | _, _ => (w, "bad-op")
  | ["send.get", ms, mo] =>
    match ms.toNat?, optNat mo with
    | some m, some o =>
      match getFrame w.send m o with
      | .error e => (w, showErr e ++ " | " ++ showSend w.send)
      | .ok (s, fr) =>
        let frs := match fr with
          | none => "none"
          | some f => s!"off={f.offset} data={hexOut f.data} fin={showB f.fin}"
        ({ w with send := s }, s!"ok {frs} | {showSend s}")
    | _, _ => (w, "bad-op")
  | ["send.delivery", d, a, b, fin] =>
    match boolOf d, a.toNat?, b.toNat?, boolOf fin with
    | some d, some a, some b, some f =>
      match onDataDelivery w.send (if d then .acked else .lost) a b f with
      | .error e => (w, showErr e ++ " | " ++ showSend w.send)
      | .ok s => ({ w with send := s }, "ok | " ++ showSend s)
    | _, _, _, _ => (w, "bad-op")
  | ["send.reset", c] =>
    match c.toNat? with
    | some c => let s := reset w.send c; ({ w with send := s }, "ok | " ++ showSend s)
    | none => (w, "bad-op")
  | ["send.getreset"] =>
    let (s, fs) := getResetFrame w.send
    ({ w with send := s }, s!"ok final={fs} | {showSend s}")
  | ["send.resetdelivery", d] =>
    match boolOf d with
    | some d => let s := onResetDelivery w.send (if d then .acked else .lost)
                ({ w with send := s }, "ok | " ++ showSend s)
    | none => (w, "bad-op")
  | ["rs.new"] => ({ w with rs := [] }, "ok []")
  | ["rs.add", a, b] =>
    match a.toNat?, b.toNat? with
    | some a, some b =>
      if b > a then let r := add a b w.rs; ({ w with rs := r }, "ok " ++ render r)
      else (w, "err AssertionError")
    | _, _ => (w, "bad-op")
  | ["rs.sub", a, b] =>
    match a.toNat?, b.toNat? with
    | some a, some b =>
      if b > a then let r := subtract a b w.rs; ({ w with rs := r }, "ok " ++ render r)
      else (w, "err AssertionError")
    | _, _ => (w, "bad-op")
  | ["rs.shift"] =>
    match shift w.rs with
    | none => (w, "err IndexError")
    | some (r, rest) => ({ w with rs := rest }, s!"ok {r.start}-{r.stop} " ++ render rest)
  | ["rs.bounds"] =>
    match bounds w.rs with
    | none => (w, "err IndexError")
    | some r => (w, s!"ok {r.start}-{r.stop}")
  | ["rs.contains", x] =>
    match x.toNat? with
    | some x => (w, "ok " ++ showB (contains x w.rs))
    | none => (w, "bad-op")
  | _ => (w, "bad-op")

end Drv
