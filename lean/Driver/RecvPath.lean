import AQ.Model.RecvFrames
import Driver.Util
/-!
  `rx.` line protocol (C05): the byte-level `_payload_received` model on the
  abstract connection state printed by harness/impl_recvpath.py.

    rx.state k=v …            set the abstract state
    rx.frame EPOCH HEX cr=0|1 tls=ok|alert:N|conn:N|bufread
        -> ok processed ae=B pr=B | <state>   /  ok closed CODE | <state>  /  err CLASS | <state>
-/
namespace Drv
open AQ AQ.Recv AQ.RecvF AQ.Gen.Recv

/-- observed payload: the outcome of `_payload_received` and the error code of a processed
    CONNECTION_CLOSE frame (both validated separately by `rx.frame`) -/
structure ObsPayload where
  result : Outcome (Bool × Bool)
  closes : Option Nat
  /-- `len(_peer_cid_available)` after the payload (NEW_CONNECTION_ID frames change it) -/
  avail : Option Nat := none

def runObserved (s : St) (_ep : Epoch) (_cr : Bool) (p : ObsPayload) : St × Outcome (Bool × Bool) :=
  let s := match p.avail with
    | some n => { s with peerCidAvailable := n }
    | none => s
  (match p.closes with
   | some code => if s.closeEvent.isNone then ({ s with closeEvent := some code }).closeBegin false else s
   | none => s, p.result)

structure RxW where
  ctx : Ctx := {}
  st : St := { isClient := false }

def kvGet (toks : List String) (k : String) : Option String :=
  (toks.find? (fun t => t.startsWith (k ++ "="))).map (fun t => (t.drop (k.length + 1)).toString)

def natOf (toks : List String) (k : String) (d : Nat) : Nat :=
  match kvGet toks k with
  | some v => v.toNat?.getD d
  | none => d

def listOf (s : String) : List String := if s = "-" ∨ s = "" then [] else s.splitOn ","

def natList (toks : List String) (k : String) : List Nat :=
  match kvGet toks k with
  | some v => (listOf v).filterMap String.toNat?
  | none => []

def parseStream (s : String) : Option StreamInfo :=
  match s.splitOn ":" with
  | [a, b, c, d] =>
    match a.toNat?, b.toNat?, c.toNat?, optNat d with
    | some a, some b, some c, some d => some { sid := a, maxLocal := b, highest := c, finalSize := d }
    | _, _, _, _ => none
  | _ => none

def parseRg (s : String) : Option AQ.Rg :=
  match s.splitOn "-" with
  | [a, b] => match a.toNat?, b.toNat? with
    | some a, some b => some ⟨a, b⟩
    | _, _ => none
  | _ => none

def parseEpoch : String → Option Epoch
  | "INITIAL" => some .initial
  | "ZERO_RTT" => some .zeroRtt
  | "HANDSHAKE" => some .handshake
  | "ONE_RTT" => some .oneRtt
  | _ => none

def parseOutcome (s : String) : Outcome Unit :=
  if s = "ok" then .ok ()
  else if s = "bufread" then .error .bufferRead
  else match s.splitOn ":" with
    | ["alert", n] => .error (.alert (n.toNat?.getD 0))
    | ["conn", n] => .error (.conn (n.toNat?.getD 0))
    | _ => .error (.py .notImplemented)

def rxState (toks : List String) : Ctx :=
  let hostcids := (match kvGet toks "hostcids" with
    | some v => (listOf v).filterMap (fun e => match e.splitOn ":" with
        | [a, b] => match a.toNat?, ofHex b with
          | some a, some b => some (a, b)
          | _, _ => none
        | _ => none)
    | none => [])
  let cryptoRanges := (match kvGet toks "crypto_ranges" with
    | some v => (v.splitOn ";").filterMap parseRg
    | none => [])
  { isClient := kvGet toks "client" == some "1"
    maxData := natOf toks "maxdata" 0
    maxDataUsed := natOf toks "used" 0
    msdUni := natOf toks "msd_uni" 0
    msdBidiRemote := natOf toks "msd_bidi" 0
    msBidi := natOf toks "ms_bidi" 0
    msBidiUsed := natOf toks "ms_bidi_used" 0
    msUni := natOf toks "ms_uni" 0
    msUniUsed := natOf toks "ms_uni_used" 0
    streams := (match kvGet toks "streams" with
      | some v => (listOf v).filterMap parseStream
      | none => [])
    finished := natList toks "finished"
    crypto := { bufStart := natOf toks "crypto_start" 0, highest := natOf toks "crypto_hi" 0,
                buffer := List.replicate (natOf toks "crypto_buflen" 0) 0, ranges := cryptoRanges }
    localChallenges := (match kvGet toks "chal" with
      | some v => (listOf v).filterMap ofHex
      | none => [])
    remoteChallenges := natOf toks "rchal" 0
    hostCidSeq := natOf toks "hostseq" 1
    hostCids := hostcids
    ctxHostCid := ((kvGet toks "ctxcid").bind ofHex).getD []
    remoteCidLimit := natOf toks "rcl" 2
    peerCidSeq := natOf toks "peerseq" 0
    peerRetirePriorTo := natOf toks "rpt" 0
    peerAvail := natList toks "avail"
    peerSeen := natList toks "seen"
    cidLimit := natOf toks "cidlimit" 8
    retirePending := natOf toks "retire_pending" 0
    maxDatagramFrameSize := (kvGet toks "mdfs").bind String.toNat?
    closeEvent := if kvGet toks "closed" == some "1" then some 0 else none }

def showRx (c : Ctx) : String :=
  s!"used={c.maxDataUsed} nstreams={c.streams.length} msb={c.msBidiUsed} msu={c.msUniUsed}"

def stepRecvPath (w : RxW) : List String → RxW × String
  | "rx.state" :: toks => ({ w with ctx := rxState toks }, "ok")
  | "rx.frame" :: ep :: hex :: toks =>
    match parseEpoch ep, ofHex hex with
    | some ep, some bytes =>
      let c0 := { w.ctx with buf := bytes, epoch := ep }
      let env : Env := { tls := parseOutcome ((kvGet toks "tls").getD "ok") }
      let (r, c) := payloadBytes env c0 (kvGet toks "cr" == some "1")
      let out := match r with
        | .ok (ae, pr) => s!"ok processed ae={showB ae} pr={showB pr}"
        | .error (.conn code) => s!"ok closed {code}"
        | .error e => "err " ++ errCls e
      ({ w with ctx := c }, out ++ " | " ++ showRx c)
    | _, _ => (w, "bad-op")
  | "rx.conn" :: toks =>
    let st : CState := match kvGet toks "state" with
      | some "CONNECTED" => .connected | some "CLOSING" => .closing | some "DRAINING" => .draining
      | some "TERMINATED" => .terminated | _ => .firstflight
    ({ w with st := { isClient := kvGet toks "client" == some "1", state := st,
                      closePending := kvGet toks "pending" == some "1",
                      closeEvent := (kvGet toks "closed").bind String.toNat?,
                      closeAtSet := kvGet toks "closeat" == some "1",
                      initialized := kvGet toks "init" == some "1",
                      nPaths := natOf toks "npaths" 0, retryCount := natOf toks "retry" 0,
                      vnDone := kvGet toks "vn" == some "1",
                      peerCidAvailable := natOf toks "avail" 0 } }, "ok")
  | "rx.dgram" :: small :: pkts =>
    let parsePkt (t : String) : Option (Pkt ObsPayload) :=
      let f := t.splitOn ","
      let g (k : String) : Option String := kvGet f k
      let hdr : Option (Outcome Hdr) := match g "h" with
        | some "ValueError" => some (.error (.py .value))
        | some "BufferReadError" => some (.error .bufferRead)
        | some "ok" =>
          let pt : Option PType := match g "t" with
            | some "INITIAL" => some .initial | some "ZERO_RTT" => some .zeroRtt
            | some "HANDSHAKE" => some .handshake | some "RETRY" => some .retry
            | some "VERSION_NEGOTIATION" => some .versionNegotiation | some "ONE_RTT" => some .oneRtt
            | _ => none
          pt.map (fun pt => .ok { ptype := pt, versionSupported := g "vs" == some "1",
                                  dcidKnown := g "known" == some "1", dcidNotCurrent := g "nc" == some "1",
                                  retryValid := g "rv" == some "1",
                                  vnHasCurrent := g "vc" == some "1", vnHasCommon := g "vm" == some "1",
                                  vnEcho := g "ve" == some "1" })
        | _ => none
      let dec : Dec ObsPayload := match g "d" with
        | some "key" => .keyUnavailable
        | some "crypto" => .cryptoError
        | some "ok" =>
          let res : Outcome (Bool × Bool) := match g "p" with
            | some "ok" => .ok (false, false)
            | some v => match v.splitOn ":" with
              | ["conn", n] => .error (.conn (n.toNat?.getD 0))
              | _ => .error (.py .notImplemented)
            | none => .ok (false, false)
          .ok (g "dup" == some "1") (g "res" == some "1")
              ⟨res, (g "closes").bind String.toNat?, (g "av").bind String.toNat?⟩
              false (g "disc" == some "1")
        | _ => .cryptoError
      hdr.map (fun h => { hdr := h, dec := dec })
    match pkts.mapM parsePkt with
    | some ps =>
      let (s', out) := receiveDatagram runObserved (small == "small=1") ps w.st
      let o := match out with
        | .ignored => "ok ignored" | .processed => "ok processed" | .closed c => s!"ok closed {c}"
        | .raised cls => "err " ++ cls
      ({ w with st := s' }, o ++ s!" | state={s'.state.name} pending={showB s'.closePending} closed={showOpt s'.closeEvent} closeat={showB s'.closeAtSet} init={showB s'.initialized} paths={showB (decide (s'.nPaths > 0))} avail={s'.peerCidAvailable}")
    | none => (w, "bad-op")
  | ["rx.hdr", hex, cidlen] =>
    match ofHex hex, cidlen.toNat? with
    | some bytes, some n =>
      let (r, _) := pullQuicHeader n { buf := bytes }
      let pt : PType → String
        | .initial => "INITIAL" | .zeroRtt => "ZERO_RTT" | .handshake => "HANDSHAKE" | .retry => "RETRY"
        | .versionNegotiation => "VERSION_NEGOTIATION" | .oneRtt => "ONE_RTT"
      (w, match r with
        | .ok h => s!"ok type={pt h.ptype} version={showOpt h.version} len={h.packetLength} dcid={hexOut h.dcid} scid={hexOut h.scid} token={h.tokenLen} nver={h.nVersions}"
        | .error e => "err " ++ errCls e)
    | _, _ => (w, "bad-op")
  | _ => (w, "bad-op")

end Drv
