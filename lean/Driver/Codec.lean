import AQ.Model.Codec
import AQ.Model.CodecSpec
import Driver.Util
namespace Drv
open AQ AQ.Codec

structure CodecW where
  buf : Buf := Buf.ofCapacity 0

def showBuf (b : Buf) : String := s!"pos={b.pos} cap={b.capacity} data={hexOut b.data}"

def intOf (s : String) : Option Int := s.toInt?

def hexNat (s : String) : Option Nat :=
  if s.isEmpty then none else
  s.toList.foldl (fun acc c => match acc, hexVal c with
    | some a, some d => some (a * 16 + d)
    | _, _ => none) (some 0)

def hexN (n : Nat) : String := String.ofList (Nat.toDigits 16 n)

/-- `a:b,c:d` or `-` -/
def rangesOf (s : String) : Option (List IRg) :=
  if s = "-" then some [] else
  (s.splitOn ",").foldr (fun tok acc =>
    match acc, tok.splitOn ":" with
    | some l, [a, b] =>
      match a.toInt?, b.toInt? with
      | some a, some b => some (⟨a, b⟩ :: l)
      | _, _ => none
    | _, _ => none) (some [])

def showRanges (rs : List IRg) : String :=
  "[" ++ ",".intercalate (rs.map fun r => s!"{r.start}:{r.stop}") ++ "]"

def natsOf (s : String) : Option (List Nat) :=
  if s = "-" then some [] else
  (s.splitOn ",").foldr (fun tok acc =>
    match acc, tok.toNat? with
    | some l, some n => some (n :: l)
    | _, _ => none) (some [])

def intsOf (s : String) : Option (List Int) :=
  if s = "-" then some [] else
  (s.splitOn ",").foldr (fun tok acc =>
    match acc, tok.toInt? with
    | some l, some n => some (n :: l)
    | _, _ => none) (some [])

def showNats (l : List Nat) : String := "[" ++ ",".intercalate (l.map toString) ++ "]"

def ptypeOf : String → Option PType
  | "INITIAL" => some .initial | "ZERO_RTT" => some .zeroRtt | "HANDSHAKE" => some .handshake
  | "RETRY" => some .retry | "VERSION_NEGOTIATION" => some .versionNegotiation
  | "ONE_RTT" => some .oneRtt | _ => none

def showHeader (h : Header) : String :=
  s!"ver={showOpt h.version} type={h.ptype.name} len={h.packetLength} dcid={hexOut h.dcid} scid={hexOut h.scid} token={hexOut h.token} tag={hexOut h.tag} versions={showNats h.versions}"

def optIntOf (s : String) : Option (Option Int) :=
  if s = "none" then some none else s.toInt?.map some

/-! transport parameter text form: `id=value;…` (ids hex, PARAMS order), `-` when empty -/

def showAddr : Option (Bytes × Nat) → String
  | none => "none/0"
  | some (h, p) => s!"{hexOut h}/{p}"

def showPVal : PVal → String
  | .int n => toString n
  | .bytes b => hexOut b
  | .flag => "1"
  | .pref a => s!"P/{showAddr a.ipv4}/{showAddr a.ipv6}/{hexOut a.cid}/{hexOut a.token}"
  | .vinfo v => s!"V/{v.chosen}/" ++ (if v.available.isEmpty then "-" else ",".intercalate (v.available.map toString))

def showTP (p : TP) : String :=
  let items := PARAMS.filterMap fun (id, _, _) =>
    match p id with
    | some v => some (hexN id ++ "=" ++ showPVal v)
    | none => none
  if items.isEmpty then "-" else ";".intercalate items

def addrOf (h p : String) : Option (Option (Bytes × Nat)) :=
  if h = "none" then some none else
  match ofHex h, p.toNat? with
  | some b, some n => some (some (b, n))
  | _, _ => none

def pvalOf (kind : PKind) (s : String) : Option PVal :=
  match kind with
  | .int => s.toNat?.map .int
  | .bytes => (ofHex s).map .bytes
  | .flag => if s = "1" then some .flag else none
  | .pref =>
    match s.splitOn "/" with
    | ["P", h4, p4, h6, p6, cid, tok] =>
      match addrOf h4 p4, addrOf h6 p6, ofHex cid, ofHex tok with
      | some a4, some a6, some c, some t => some (.pref ⟨a4, a6, c, t⟩)
      | _, _, _, _ => none
    | _ => none
  | .vinfo =>
    match s.splitOn "/" with
    | ["V", c, av] =>
      match c.toNat?, natsOf av with
      | some c, some av => some (.vinfo ⟨c, av⟩)
      | _, _ => none
    | _ => none

def tpOf (s : String) : Option TP :=
  if s = "-" then some TP.empty else
  (s.splitOn ";").foldl (fun acc item =>
    match acc, item.splitOn "=" with
    | some p, [k, v] =>
      match hexNat k with
      | some id =>
        match lookupKind id PARAMS with
        | some kind => (pvalOf kind v).map (fun pv => p.set id pv)
        | none => none
      | none => none
    | _, _ => none) (some TP.empty)

/-- `(id, value)` list in PARAMS order, for the spec encoder -/
def tpEntries (p : TP) : List (Nat × PVal) :=
  PARAMS.filterMap fun (id, _, _) => (p id).map fun v => (id, v)

def bytesResult (r : Outcome Bytes) : String :=
  match r with
  | .ok b => "ok " ++ hexOut b
  | .error e => showErr e

/-- `Script.runFresh` = run on `Buf.ofCapacity cap`, then `.data` (Proofs.CodecFast.runFresh_eq) -/
def runScript (sc : Script) (cap : Nat) : String :=
  match Script.runFresh sc cap with
  | .ok (_, d) => "ok " ++ hexOut d
  | .error e => showErr e

def stepCodec (w : CodecW) : List String → CodecW × String
  | ["codec.new", n] =>
    match n.toNat? with
    | some n => let b := Buf.ofCapacity n; ({ w with buf := b }, "ok | " ++ showBuf b)
    | none => (w, "bad-op")
  | ["codec.data", h] =>
    match ofHex h with
    | some d => let b := Buf.ofData d; ({ w with buf := b }, "ok | " ++ showBuf b)
    | none => (w, "bad-op")
  | ["codec.push_bytes", h] =>
    match ofHex h with
    | some d =>
      match w.buf.push (.ok d) with
      | .ok b => ({ w with buf := b }, "ok | " ++ showBuf b)
      | .error e => (w, showErr e ++ " | " ++ showBuf w.buf)
    | none => (w, "bad-op")
  | ["codec.pull_bytes", n] =>
    match intOf n with
    | some n =>
      match w.buf.pull (pullBytes n) with
      | .ok (d, b) => ({ w with buf := b }, s!"ok {hexOut d} | " ++ showBuf b)
      | .error e => (w, showErr e ++ " | " ++ showBuf w.buf)
    | none => (w, "bad-op")
  | ["codec.seek", n] =>
    match intOf n with
    | some n =>
      match w.buf.seek n with
      | .ok b => ({ w with buf := b }, "ok | " ++ showBuf b)
      | .error e => (w, showErr e ++ " | " ++ showBuf w.buf)
    | none => (w, "bad-op")
  | ["codec.slice", a, b] =>
    match intOf a, intOf b with
    | some a, some b =>
      match w.buf.dataSlice a b with
      | .ok d => (w, s!"ok {hexOut d} | " ++ showBuf w.buf)
      | .error e => (w, showErr e ++ " | " ++ showBuf w.buf)
    | _, _ => (w, "bad-op")
  | ["codec.tell"] => (w, s!"ok {w.buf.tell} | " ++ showBuf w.buf)
  | ["codec.eof"] => (w, s!"ok {showB w.buf.eof} | " ++ showBuf w.buf)
  | ["codec.size_uint_var", n] =>
    match intOf n with
    | some n =>
      match sizeUintVar n with
      | .ok k => (w, s!"ok {k}")
      | .error e => (w, showErr e)
    | none => (w, "bad-op")
  | ["codec.encode_uint_var", n] =>
    match intOf n with
    | some n => (w, bytesResult (encodeUintVar n))
    | none => (w, "bad-op")
  | ["codec.ack_pull", h] =>
    match ofHex h with
    | some d =>
      match pullAck d with
      | .ok ((rs, delay), r) => (w, s!"ok rs={showRanges rs} delay={delay} used={d.length - r.length}")
      | .error e => (w, showErr e)
    | none => (w, "bad-op")
  | ["codec.ack_push", rs, delay, cap] =>
    match rangesOf rs, intOf delay, cap.toNat? with
    | some rs, some delay, some cap =>
      match Script.runFresh (ackScript rs delay) cap with
      | .ok (_, d) => (w, s!"ok n={rs.length} {hexOut d}")
      | .error e => (w, showErr e)
    | _, _, _ => (w, "bad-op")
  | ["codec.ack_pushm", rs, delay, cap, mx] =>
    match rangesOf rs, intOf delay, cap.toNat?, optIntOf mx with
    | some rs, some delay, some cap, some mx =>
      match Script.runFresh (ackScriptMax rs delay mx) cap with
      | .ok (_, d) => (w, s!"ok n={ackRangesWritten rs delay mx} {hexOut d}")
      | .error e => (w, showErr e)
    | _, _, _, _ => (w, "bad-op")
  | ["codec.pn", t, bits, e] =>
    match t.toNat?, bits.toNat?, e.toNat? with
    | some t, some bits, some e => (w, s!"ok {decodePacketNumber t bits e}")
    | _, _, _ => (w, "bad-op")
  | ["codec.header", h, hcl] =>
    match ofHex h, optIntOf hcl with
    | some d, some hcl =>
      match pullQuicHeader hcl d with
      | .ok (hd, r) => (w, s!"ok {showHeader hd} used={d.length - r.length}")
      | .error e => (w, showErr e)
    | _, _ => (w, "bad-op")
  | ["codec.first_byte", v, pt, bits] =>
    match v.toNat?, ptypeOf pt, bits.toNat? with
    | some v, some pt, some bits =>
      match encodeLongHeaderFirstByte v pt bits with
      | .ok n => (w, s!"ok {n}")
      | .error e => (w, showErr e)
    | _, _, _ => (w, "bad-op")
  | ["codec.retry", v, scid, dcid, _odcid, token, unused, tag] =>
    match v.toNat?, ofHex scid, ofHex dcid, ofHex token, unused.toNat?, ofHex tag with
    | some v, some scid, some dcid, some token, some unused, some tag =>
      (w, bytesResult (encodeQuicRetry v scid dcid token tag unused))
    | _, _, _, _, _, _ => (w, "bad-op")
  | ["codec.vn", rnd, scid, dcid, vs] =>
    match rnd.toNat?, ofHex scid, ofHex dcid, intsOf vs with
    | some rnd, some scid, some dcid, some vs =>
      (w, bytesResult (encodeQuicVersionNegotiation rnd scid dcid vs))
    | _, _, _, _ => (w, "bad-op")
  | ["codec.build_long", v, pt, peer, host, token, payloadLen, pn] =>
    match v.toNat?, ptypeOf pt, ofHex peer, ofHex host, ofHex token, payloadLen.toNat?, pn.toNat? with
    | some v, some pt, some peer, some host, some token, some pl, some pn =>
      -- length = packet_size - header_size + PACKET_NUMBER_SEND_SIZE + aead_tag_size (16)
      (w, runScript (builderLongHeaderScript v pt peer host token (pl + 2 + 16) pn) 2048)
    | _, _, _, _, _, _, _ => (w, "bad-op")
  | ["codec.build_short", spin, kp, peer, pn] =>
    match spin.toNat?, kp.toNat?, ofHex peer, pn.toNat? with
    | some spin, some kp, some peer, some pn =>
      (w, runScript (builderShortHeaderScript spin kp peer pn) 2048)
    | _, _, _, _ => (w, "bad-op")
  | ["codec.tp_pull", h] =>
    match ofHex h with
    | some d =>
      match pullTransportParameters d with
      | .ok (p, r) => (w, s!"ok {showTP p} used={d.length - r.length}")
      | .error e => (w, showErr e)
    | none => (w, "bad-op")
  | ["codec.tp_push", ps, cap] =>
    match tpOf ps, cap.toNat? with
    -- tpScriptOverFast p PARAMS = tpScript p (Proofs.CodecFast.tpScriptOverFast_eq)
    | some p, some cap => (w, runScript (tpScriptOverFast p PARAMS) cap)
    | _, _ => (w, "bad-op")
  | ["codec.tp_roundtrip", ps] =>
    -- push into a large buffer, then pull what was written
    match tpOf ps with
    | some p =>
      match Script.runFresh (tpScriptOverFast p PARAMS) 262144 with
      | .error e => (w, showErr e)
      | .ok (_, d) =>
        match pullTransportParameters d with
        | .ok (q, _) => (w, s!"ok {showTP q}")
        | .error e => (w, showErr e)
    | none => (w, "bad-op")
  | [op, a] =>
    -- the integer push/pull methods
    let pushWith (f : Int → Outcome Bytes) : CodecW × String :=
      match intOf a with
      | some n =>
        match w.buf.push (f n) with
        | .ok b => ({ w with buf := b }, "ok | " ++ showBuf b)
        | .error e => (w, showErr e ++ " | " ++ showBuf w.buf)
      | none => (w, "bad-op")
    match op with
    | "codec.push_uint8" => pushWith chunkUint8
    | "codec.push_uint16" => pushWith chunkUint16
    | "codec.push_uint32" => pushWith chunkUint32
    | "codec.push_uint64" => pushWith chunkUint64
    | "codec.push_uint_var" => pushWith chunkUintVar
    | _ => (w, "bad-op")
  | [op] =>
    let pullWith (rd : Rd Nat) : CodecW × String :=
      match w.buf.pull rd with
      | .ok (n, b) => ({ w with buf := b }, s!"ok {n} | " ++ showBuf b)
      | .error e => (w, showErr e ++ " | " ++ showBuf w.buf)
    match op with
    | "codec.pull_uint8" => pullWith pullUint8
    | "codec.pull_uint16" => pullWith pullUint16
    | "codec.pull_uint32" => pullWith pullUint32
    | "codec.pull_uint64" => pullWith pullUint64
    | "codec.pull_uint_var" => pullWith pullUintVar
    | _ => (w, "bad-op")
  | _ => (w, "bad-op")

/-! independent (RFC-written) encoders -/
open AQ.CodecSpec in
def stepSpec : List String → String
  | ["spec.varint", n] =>
    match n.toNat? with
    | some n => "ok " ++ hexOut (CodecSpec.encVarint n)
    | none => "bad-op"
  | ["spec.ack", rs, delay] =>
    match rangesOf rs, delay.toNat? with
    | some rs, some delay =>
      "ok " ++ hexOut (encAck (rs.map fun r => ⟨r.start.toNat, r.stop.toNat⟩) delay)
    | _, _ => "bad-op"
  | ["spec.first_byte", v, pt, low] =>
    match v.toNat?, ptypeOf pt, low.toNat? with
    | some v, some pt, some low => s!"ok {longFirstByte v pt low}"
    | _, _, _ => "bad-op"
  | ["spec.long_header", v, pt, dcid, scid, token, length, pn] =>
    match v.toNat?, ptypeOf pt, ofHex dcid, ofHex scid, ofHex token, length.toNat?, pn.toNat? with
    | some v, some pt, some dcid, some scid, some token, some length, some pn =>
      "ok " ++ hexOut (encLongHeader v pt dcid scid token 1 length 2 pn)
    | _, _, _, _, _, _, _ => "bad-op"
  | ["spec.short_header", spin, kp, dcid, pn] =>
    match spin.toNat?, kp.toNat?, ofHex dcid, pn.toNat? with
    | some spin, some kp, some dcid, some pn => "ok " ++ hexOut (encShortHeader spin kp dcid 2 pn)
    | _, _, _, _ => "bad-op"
  | ["spec.retry", v, scid, dcid, _odcid, token, unused, tag] =>
    match v.toNat?, ofHex scid, ofHex dcid, ofHex token, unused.toNat?, ofHex tag with
    | some v, some scid, some dcid, some token, some unused, some tag =>
      "ok " ++ hexOut (encRetry v dcid scid token tag unused)
    | _, _, _, _, _, _ => "bad-op"
  | ["spec.vn", unused7, scid, dcid, vs] =>
    match unused7.toNat?, ofHex scid, ofHex dcid, natsOf vs with
    | some u, some scid, some dcid, some vs => "ok " ++ hexOut (encVersionNegotiation u dcid scid vs)
    | _, _, _, _ => "bad-op"
  | ["spec.tp", ps] =>
    match tpOf ps with
    | some p => "ok " ++ hexOut (encParams (tpEntries p))
    | none => "bad-op"
  | _ => "bad-op"

end Drv
