import AQ.Model.PacketProt
import AQ.Model.PacketProtSpec
import AQ.Model.PnSpace
import Driver.Util
namespace Drv
open AQ AQ.PacketProt

/-- stateless front end -/
structure ProtW where
  unit : Unit := ()
  pn : AQ.PnSpace.St := {}

def showPErr (e : PErr) : String := "err " ++ e.name

/-- the primitive's answer for exactly one query (anything else: empty / none),
    so that an answer computed for the wrong nonce / sample shows as a diff -/
def maskAns (sample mask : Bytes) : Bytes → Bytes := fun s => if s = sample then mask else []

def protOptHex (s : String) : Option (Option Bytes) :=
  if s = "none" then some none else (ofHex s).map some



def protStrHex (s : String) : String := hexOut s.toUTF8.toList

def showTables : String :=
  let suites := String.intercalate "," (Spec.cipherSuites.map fun (i, h, a, k) => s!"{i}:{h}:{a}:{k}")
  let l1 := String.intercalate "," (Spec.labelsV1.map protStrHex)
  let l2 := String.intercalate "," (Spec.labelsV2.map protStrHex)
  s!"ok suites={suites} initial={Spec.initialCipherSuite} v1={Spec.version1} v2={Spec.version2} " ++
  s!"labels1={l1} labels2={l2} cin={protStrHex Spec.clientInitialLabel} sin={protStrHex Spec.serverInitialLabel} " ++
  s!"salt1={hexOut Spec.initialSaltV1} salt2={hexOut Spec.initialSaltV2} " ++
  s!"rk1={hexOut Spec.retryKeyV1} rn1={hexOut Spec.retryNonceV1} rk2={hexOut Spec.retryKeyV2} rn2={hexOut Spec.retryNonceV2} " ++
  s!"lt1={Spec.longTypesV1} lt2={Spec.longTypesV2}"

def showPn (s : AQ.PnSpace.St) : String := s!"ok expected={s.expected} largest={showOpt s.largest}"

def stepProt (w : ProtW) : List String → ProtW × String
  | ["prot.tables"] => (w, showTables)
  -- QuicPacketSpace.expected_packet_number (one space)
  | ["prot.pn.new"] => ({ w with pn := {} }, showPn {})
  | ["prot.pn.drop"] => (w, showPn w.pn)
  | ["prot.pn.accept", pn] =>
    match pn.toNat? with
    | some n => let s := AQ.PnSpace.step w.pn (.accepted n); ({ w with pn := s }, showPn s)
    | none => (w, "bad-op")
  -- queries (model only)
  | ["prot.q.nonce", iv, pn] =>
    match ofHex iv, pn.toNat? with
    | some iv, some pn => (w, "ok " ++ hexOut (nonce iv pn))
    | _, _ => (w, "bad-op")
  | ["prot.q.sample", hdr, payload] =>
    match ofHex hdr, ofHex payload with
    | some hdr, some payload =>
      (w, "ok " ++ hexOut (sampleOfPayload payload (((hdr.getD 0 0) &&& 3).toNat + 1)))
    | _, _ => (w, "bad-op")
  | ["prot.q.rsample", packet, off] =>
    match ofHex packet, off.toNat? with
    | some p, some o => (w, "ok " ++ hexOut (sampleOfPacket p o))
    | _, _ => (w, "bad-op")
  | ["prot.q.remove", packet, off, sample, mask, expected, ivCur, ivNext, kp] =>
    match ofHex packet, off.toNat?, ofHex sample, ofHex mask, expected.toNat?, ofHex ivCur, ofHex ivNext, kp.toNat? with
    | some p, some o, some s, some m, some e, some ic, some inx, some kp =>
      match hpRemove (maskAns s m) p o with
      | .error er => (w, showPErr er)
      | .ok (hdr, trunc) =>
        let fb := hdr.getD 0 0
        let pnLen := (fb &&& 0x03).toNat + 1
        let pn := Codec.decodePacketNumber trunc (pnLen * 8) e
        let useNext := !isLong fb && ((fb &&& 4) >>> 2).toNat != kp
        let iv := if useNext then inx else ic
        (w, s!"ok hdr={hexOut hdr} trunc={trunc} pn={pn} next={showB useNext} nonce={hexOut (nonce iv pn)} ct={hexOut (p.drop hdr.length)}")
    | _, _, _, _, _, _, _, _ => (w, "bad-op")
  | ["prot.q.pseudo", odcid, packet] =>
    match ofHex odcid, ofHex packet with
    | some o, some p => (w, "ok " ++ hexOut (retryPseudo o (p.take (p.length - 16))))
    | _, _ => (w, "bad-op")
  -- diffed ops: the first block of arguments is what the implementation needs,
  -- after `|` come the independent primitive's answers for the model
  | ["prot.apply", _hpName, _hpKey, hdr, payload, "|", sample, mask] =>
    match ofHex hdr, ofHex payload, ofHex sample, ofHex mask with
    | some h, some p, some s, some m =>
      match hpApply (maskAns s m) h p with
      | .error e => (w, showPErr e)
      | .ok x => (w, "ok " ++ hexOut x)
    | _, _, _, _ => (w, "bad-op")
  | ["prot.remove", _hpName, _hpKey, packet, off, "|", sample, mask] =>
    match ofHex packet, off.toNat?, ofHex sample, ofHex mask with
    | some p, some o, some s, some m =>
      match hpRemove (maskAns s m) p o with
      | .error e => (w, showPErr e)
      | .ok (h, t) => (w, s!"ok {hexOut h} {t}")
    | _, _, _, _ => (w, "bad-op")
  | ["prot.encrypt", _suite, key, iv, hp, hdr, plain, pn, "|", nonceA, sealed, sample, mask] =>
    match ofHex key, ofHex iv, ofHex hp, ofHex hdr, ofHex plain, pn.toNat?, ofHex nonceA, ofHex sealed, ofHex sample, ofHex mask with
    | some key, some iv, some hp, some hdr, some plain, some pn, some na, some sl, some s, some m =>
      let A : AEAD := {
        aeSeal := fun k n ad p => if k = key ∧ n = na ∧ ad = hdr ∧ p = plain then sl else []
        aeOpen := fun _ _ _ _ => none
        maskOf := fun k x => if k = hp then maskAns s m x else [] }
      match encryptPacket A ⟨key, iv, hp⟩ hdr plain pn with
      | .error e => (w, showPErr e)
      | .ok x => (w, "ok " ++ hexOut x)
    | _, _, _, _, _, _, _, _, _, _ => (w, "bad-op")
  | ["prot.decrypt", _suite, _version, _secret, kp, packet, off, expected, "|",
      key, iv, hp, nkey, niv, sample, mask, useKey, nonceA, ans] =>
    match kp.toNat?, ofHex packet, off.toNat?, expected.toNat?, ofHex key, ofHex iv, ofHex hp, ofHex nkey, ofHex niv,
          ofHex sample, ofHex mask, ofHex useKey, ofHex nonceA, protOptHex ans with
    | some kp, some p, some o, some e, some key, some iv, some hp, some nkey, some niv, some s, some m, some uk, some na, some ans =>
      let A : AEAD := {
        aeSeal := fun _ _ _ _ => []
        aeOpen := fun k n _ _ => if k = uk ∧ n = na then ans else none
        maskOf := fun k x => if k = hp then maskAns s m x else [] }
      let c : RecvCtx := { cur := some ⟨key, iv, hp⟩, keyPhase := kp, next := ⟨nkey, niv, []⟩ }
      match decryptPacket A c p o e with
      | .error er => (w, showPErr er)
      | .ok d => (w, s!"ok hdr={hexOut d.hdr} payload={hexOut d.payload} pn={d.pn} upd={showB d.updateKey}")
    | _, _, _, _, _, _, _, _, _, _, _, _, _, _ => (w, "bad-op")
  | ["prot.decrypt.nokey", packet, off, expected] =>
    match ofHex packet, off.toNat?, expected.toNat? with
    | some p, some o, some e =>
      let A : AEAD := { aeSeal := fun _ _ _ _ => [], aeOpen := fun _ _ _ _ => none, maskOf := fun _ _ => [] }
      match decryptPacket A { cur := none, keyPhase := 0, next := ⟨[], [], []⟩ } p o e with
      | .error er => (w, showPErr er)
      | .ok _ => (w, "ok")
    | _, _, _ => (w, "bad-op")
  | ["prot.retry", _version, odcid, packet, "|", tag] =>
    match ofHex odcid, ofHex packet, ofHex tag with
    | some o, some p, some t =>
      let gcm : AEAD := {
        aeSeal := fun _ _ ad pl => if ad = retryPseudo o (p.take (p.length - 16)) ∧ pl = [] then t else []
        aeOpen := fun _ _ _ _ => none
        maskOf := fun _ _ => [] }
      (w, "ok " ++ showB (retryAccept gcm [] [] o p))
    | _, _, _ => (w, "bad-op")
  | _ => (w, "bad-op")

end Drv
