import AQ.Model.KeyUpdate
import Driver.Util
namespace Drv
open AQ.KeyUpdate

structure KuW where
  sys : Sys := {}
  pairOnly : Bool := false

def showKuEnd (q : Bool) (pairOnly : Bool) (e : End) : String :=
  let p := s!"s={e.pair.sendGen} r={e.pair.recvGen} req={showB e.pair.requested} ph={e.pair.keyPhase q}"
  if pairOnly then p
  else s!"{p} kupn={showOpt e.keyUpdatePn} pn={e.packetNumber} la={e.largestAcked} lr={showOpt e.largestRecv}"

def showKu (w : KuW) : String :=
  s!"A[{showKuEnd w.sys.quirkLocalRecv w.pairOnly w.sys.a}] B[{showKuEnd w.sys.quirkLocalRecv w.pairOnly w.sys.b}] wire={w.sys.wire.length}"

def showKuOut (pairOnly : Bool) : Out → String
  | .done => "ok"
  | .refused => "refused"
  | .sent p => if pairOnly then s!"sent gen={p.gen} bit={p.bit}" else s!"sent gen={p.gen} bit={p.bit} pn={p.pn} ack={showOpt p.ack}"
  | .accepted u => s!"accepted upd={showB u}"
  | .rejected => "rejected"
  | .skipped => "skip"

def doKu (w : KuW) (op : Op) : KuW × String :=
  let (s, o) := step w.sys op
  let w' := { w with sys := s }
  (w', s!"{showKuOut w.pairOnly o} | {showKu w'}")

def stepKu (w : KuW) : List String → KuW × String
  | ["ku.pnew", q1] =>
    match boolOf q1 with
    | some q1 =>
      let w' : KuW := { sys := { quirkLocalRecv := q1, quirkNoGuard := true }, pairOnly := true }
      (w', "ok | " ++ showKu w')
    | none => (w, "bad-op")
  | ["ku.new", q1, q2, pa, pb, laA, laB, lrA, lrB] =>
    match boolOf q1, boolOf q2, pa.toNat?, pb.toNat?, laA.toNat?, laB.toNat?, optNat lrA, optNat lrB with
    | some q1, some q2, some pa, some pb, some la, some lb, some ra, some rb =>
      let w' : KuW := { sys := { quirkLocalRecv := q1, quirkNoGuard := q2,
                                 a := { packetNumber := pa, largestAcked := la, largestRecv := ra },
                                 b := { packetNumber := pb, largestAcked := lb, largestRecv := rb } } }
      (w', "ok | " ++ showKu w')
    | _, _, _, _, _, _, _, _ => (w, "bad-op")
  | ["ku.request", x] =>
    match boolOf x with
    | some x => doKu w (.request x)
    | none => (w, "bad-op")
  | ["ku.send", x, a] =>
    match boolOf x, boolOf a with
    | some x, some a => doKu w (.send x a)
    | _, _ => (w, "bad-op")
  | ["ku.deliver", i] =>
    match i.toNat? with
    | some i => doKu w (.deliver i)
    | none => (w, "bad-op")
  | _ => (w, "bad-op")

end Drv
