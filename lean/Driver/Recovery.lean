import AQ.Model.Recovery
import Driver.Util
namespace Drv
open AQ AQ.Recovery AQ.RangeSet

def floatArith : FArith Float where
  add := (· + ·)
  sub := (· - ·)
  mul := (· * ·)
  div := (· / ·)
  pow := Float.pow
  neg := Float.neg
  abs := Float.abs
  lt := fun a b => decide (a < b)
  le := fun a b => decide (a ≤ b)
  eq := fun a b => a == b
  ofNat := Float.ofNat
  ofInt := Float.ofInt
  toInt := fun x => x.toInt64.toInt
  inf := 1.0 / 0.0

abbrev FA := floatArith

structure RecW where
  r : Rec Float := Rec.init FA .reno 1200 3 0.1
  nextUid : Nat := 0
  logLen : Nat := 0

def fbits (x : Float) : String := toString x.toBits.toNat
def ofBits? (s : String) : Option Float := s.toNat?.map fun n => Float.ofBits (UInt64.ofNat n)
def showOF : Option Float → String
  | none => "none"
  | some x => fbits x
def showOI : Option Int → String
  | none => "none"
  | some x => toString x

def parseRanges (s : String) : Option (List Rg) :=
  if s = "[]" then some [] else
  (s.splitOn ",").mapM fun part =>
    match part.splitOn "-" with
    | [a, b] => do let a ← a.toNat?; let b ← b.toNat?; pure ⟨a, b⟩
    | _ => none

def showSpace (s : Space Float) : String :=
  let pns := ",".intercalate (s.sent.map fun p => toString p.pn)
  s!"[{pns}];ae={s.aeInFlight};la={s.largestAcked};lt={showOF s.lossTime}"

def showRec (w : RecW) (r : Rec Float) : String :=
  let newLog := (r.log.take (r.log.length - w.logLen)).reverse
  let logs := ",".intercalate (newLog.map fun (u, d) => s!"{u}:{if d = .acked then "A" else "L"}")
  let sp := " ".intercalate (r.spaces.map showSpace)
  s!"bif={r.cc.bytesInFlight} cwnd={r.cc.cwnd} ss={showOI r.cc.ssthresh} pto={r.ptoCount} probes={r.probes} cb=[{logs}] sp={sp} rtt={showB r.rttInitialized},{fbits r.rttLatest},{fbits r.rttMin},{fbits r.rttSmoothed},{fbits r.rttVariance} pacer={showOF r.pacer.packetTime},{fbits r.pacer.bucketMax}"

def commit (w : RecW) (r : Rec Float) (pre : String := "ok") : RecW × String :=
  ({ w with r := r, logLen := r.log.length }, s!"{pre} | {showRec w r}")

def stepRecovery (w : RecW) : List String → RecW × String
  | ["rec.new", algo, mds, n, rtt] =>
    match mds.toNat?, n.toNat?, ofBits? rtt with
    | some mds, some n, some rtt =>
      let a := if algo = "cubic" then Algo.cubic else Algo.reno
      let r := Rec.init FA a mds n rtt
      let w : RecW := { r := r }
      commit w r
    | _, _, _ => (w, "bad-op")
  | ["rec.sent", sp, pn, bytes, infl, ae, cr, t] =>
    match sp.toNat?, pn.toNat?, bytes.toNat?, boolOf infl, boolOf ae, boolOf cr, ofBits? t with
    | some sp, some pn, some b, some infl, some ae, some cr, some t =>
      let p : Pkt Float := { pn := pn, sentBytes := b, inFlight := infl, ackEliciting := ae,
                             isCrypto := cr, sentTime := t, uid := w.nextUid }
      let w := { w with nextUid := w.nextUid + 1 }
      match onPacketSent FA w.r sp p with
      | .error e => (w, showErr e ++ " | " ++ showRec w w.r)
      | .ok r => commit w r
    | _, _, _, _, _, _, _ => (w, "bad-op")
  | ["rec.ack", sp, rs, delay, now] =>
    match sp.toNat?, parseRanges rs, ofBits? delay, ofBits? now with
    | some sp, some rs, some d, some now =>
      match onAckReceived FA w.r sp rs d now with
      | .error e => (w, showErr e ++ " | " ++ showRec w w.r)
      | .ok r => commit w r
    | _, _, _, _ => (w, "bad-op")
  | ["rec.timeout", now] =>
    match ofBits? now with
    | some now => commit w (onLossDetectionTimeout FA w.r now)
    | none => (w, "bad-op")
  | ["rec.discard", sp] =>
    match sp.toNat? with
    | some sp =>
      match discardSpace w.r sp with
      | .error e => (w, showErr e ++ " | " ++ showRec w w.r)
      | .ok r => commit w r
    | none => (w, "bad-op")
  | ["rec.resched", now] =>          -- QuicPacketRecovery.reschedule_data called by the connection
    match ofBits? now with
    | some now => commit w (rescheduleData FA w.r now)
    | none => (w, "bad-op")
  | ["rec.spaces", n] =>            -- `_loss.spaces = [fresh spaces]` (QuicConnection._initialize)
    match n.toNat? with
    | some n => commit w { w.r with spaces := List.replicate n {} }
    | none => (w, "bad-op")
  | ["rec.mad", v] =>               -- `_loss.max_ack_delay = ...` (transport parameters)
    match ofBits? v with
    | some v => commit w { w.r with maxAckDelay := v }
    | none => (w, "bad-op")
  | ["rec.ldt", pv] =>
    match boolOf pv with
    | some pv => (w, s!"ok {showOF (getLossDetectionTime FA w.r pv)} pto={fbits (getProbeTimeout FA w.r)}")
    | none => (w, "bad-op")
  | _ => (w, "bad-op")

end Drv
