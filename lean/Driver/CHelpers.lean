import AQ.Gen.CBuffer
import AQ.Gen.CCrypto
import Driver.Util
/-! Line protocol `c.*`: runs the functions TRANSLATED from `_buffer.c` / `_crypto.c`
    (AQ.Gen.*, regenerated from the C source on every check run). -/
namespace Drv
open AQ AQ.C AQ.Gen

/-- deterministic filler bytes shared with harness/impl_chelpers.py -/
def patByte (i : Nat) : UInt8 := UInt8.ofNat ((i * 7 + 1) % 256)
def patBytes (n : Nat) : List UInt8 := (List.range n).map patByte

def emptySt (ok : Bool) : St :=
  { size := fun _ => 0, data := fun _ _ => 0, nul := fun _ => false, pf := fun _ => Ptr.null, nf := fun _ => 0, err := none,
    ora := fun _ => if ok then 1 else 0, oraB := fun _ _ => 0, tick := 0,
    cklen := fun _ => 0, civlen := fun _ => 0 }

/-- install a bytes object (extent len, followed by a NUL) as object `o` -/
def withBytes (s : St) (o : Nat) (bs : List UInt8) : St :=
  let arr := bs.toArray
  { s with size := upd s.size o bs.length, nul := upd s.nul o true,
           data := upd s.data o (fun i => if 0 ≤ i ∧ i.toNat < arr.size then arr[i.toNat]! else 0) }
def withSizes (s : St) (l : List (Nat × Int)) : St :=
  l.foldl (fun s (o, n) => { s with size := upd s.size o n }) s
def withLits (s : St) (l : List (Nat × String)) : St :=
  l.foldl (fun s (o, str) => withBytes s o (str.toUTF8.toList ++ [0])) s   -- a C literal includes its NUL

structure CW where
  buf : St := emptySt true
  bufOk : Bool := false
  hp : St := emptySt true
  hpOk : Bool := false
  aead : St := emptySt true
  aeadOk : Bool := false

def showPy : PyVal → String
  | .null => "null" | .none => "none" | .bool b => showB b | .int i => toString i
  | .bytes b => hexOut b | .bytesInt b i => s!"{hexOut b},{i}"

def showFault (f : Fault) : String := "FAULT " ++ (reprStr f).replace "\n" " "

def excName (s : St) : String := match s.err with | some e => e.name | none => "SystemError"

def bufState (s : St) : String :=
  s!"pos={(s.pf 2).off - (s.pf 0).off} cap={(s.pf 1).off - (s.pf 0).off}"

/-- run a Buffer method returning a Python object -/
def runBufM (w : CW) (m : CM PyVal) : CW × String :=
  if !w.bufOk then (w, "err NoBuffer") else
  match m { w.buf with err := none } with
  | .fault f => (w, showFault f)
  | .ok r s' =>
    if r = .null then ({ w with buf := s' }, s!"err {excName s'} | {bufState s'}")
    else ({ w with buf := s' }, s!"ok {showPy r} | {bufState s'}")

def argInt? (t : String) : Option PyArg := t.toInt?.map PyArg.int

def optArgInt (t : String) : Option PyArg := if t = "none" then some .absent else argInt? t

/-- malloc succeeds in the driver unless the request is absurd (≥ 2^40 bytes) -/
def mallocOk (cap : PyArg) : Bool := match cap with | .int i => i < 1099511627776 | _ => true

def stepBuf (w : CW) : List String → CW × String
  | ["c.buf.new", cap, dat] =>
    match optArgInt cap, (if dat = "none" then some none else (ofHex dat).map some) with
    | some a0, some d =>
      -- the block requested from malloc is the data length when data is given, else the capacity
      let req : PyArg := match d with | some bs => .int bs.length | none => a0
      let s0 := withBytes (emptySt (mallocOk req)) 10 (d.getD [])
      match CBuffer.Buffer_init a0 (if d.isSome then .bytes else .absent) s0 with
      | .fault f => ({ w with bufOk := false }, showFault f)
      | .ok r s' =>
        if r = 0 then ({ w with buf := s', bufOk := true }, s!"ok | {bufState s'}")
        else ({ w with bufOk := false }, s!"err {excName s'}")
    | _, _ => (w, "bad-op")
  | ["c.buf.reinit", cap, dat] =>
    -- `__init__` again on the live object: the translated Buffer_init runs on the CURRENT state
    let a0? : Option PyArg := if cap = "bad" then some .other else optArgInt cap
    match a0?, (if dat = "none" then some none else (ofHex dat).map some) with
    | some a0, some d =>
      if !w.bufOk then (w, "err NoBuffer") else
      let req : PyArg := match d with | some bs => .int bs.length | none => a0
      let okb := mallocOk req
      let s0 := withBytes { w.buf with err := none, ora := fun _ => if okb then 1 else 0 } 10 (d.getD [])
      match CBuffer.Buffer_init a0 (if d.isSome then .bytes else .absent) s0 with
      | .fault f => (w, showFault f)
      | .ok r s' =>
        if r = 0 then ({ w with buf := s' }, s!"ok | {bufState s'}")
        else ({ w with buf := s' }, s!"err {excName s'} | {bufState s'}")
    | _, _ => (w, "bad-op")
  | ["c.buf.eof"] => runBufM w CBuffer.Buffer_eof
  | ["c.buf.tell"] => runBufM w CBuffer.Buffer_tell
  | ["c.buf.capacity"] => runBufM w CBuffer.Buffer_capacity_getter
  | ["c.buf.data"] => runBufM w CBuffer.Buffer_data_getter
  | ["c.buf.pull_uint8"] => runBufM w CBuffer.Buffer_pull_uint8
  | ["c.buf.pull_uint16"] => runBufM w CBuffer.Buffer_pull_uint16
  | ["c.buf.pull_uint32"] => runBufM w CBuffer.Buffer_pull_uint32
  | ["c.buf.pull_uint64"] => runBufM w CBuffer.Buffer_pull_uint64
  | ["c.buf.pull_uint_var"] => runBufM w CBuffer.Buffer_pull_uint_var
  | ["c.buf.pull_bytes", n] => match argInt? n with
    | some a => runBufM w (CBuffer.Buffer_pull_bytes a) | none => (w, "bad-op")
  | ["c.buf.seek", n] => match argInt? n with
    | some a => runBufM w (CBuffer.Buffer_seek a) | none => (w, "bad-op")
  | ["c.buf.data_slice", a, b] => match argInt? a, argInt? b with
    | some a, some b => runBufM w (CBuffer.Buffer_data_slice a b) | _, _ => (w, "bad-op")
  | ["c.buf.push_uint8", n] => match argInt? n with
    | some a => runBufM w (CBuffer.Buffer_push_uint8 a) | none => (w, "bad-op")
  | ["c.buf.push_uint16", n] => match argInt? n with
    | some a => runBufM w (CBuffer.Buffer_push_uint16 a) | none => (w, "bad-op")
  | ["c.buf.push_uint32", n] => match argInt? n with
    | some a => runBufM w (CBuffer.Buffer_push_uint32 a) | none => (w, "bad-op")
  | ["c.buf.push_uint64", n] => match argInt? n with
    | some a => runBufM w (CBuffer.Buffer_push_uint64 a) | none => (w, "bad-op")
  | ["c.buf.push_uint_var", n] => match argInt? n with
    | some a => runBufM w (CBuffer.Buffer_push_uint_var a) | none => (w, "bad-op")
  | ["c.buf.push_bytes", h] => match ofHex h with
    | some d => runBufM { w with buf := withBytes w.buf 10 d } (CBuffer.Buffer_push_bytes .bytes)
    | none => (w, "bad-op")
  | _ => (w, "bad-op")

/-! ### `_crypto.c` — cipher bytes are OpenSSL's, so only the outcome class and the output
    length are reported (external calls succeed in the driver). -/
def cryptoErr (s : St) : String := s!"err {excName s}"

def stepCrypto (w : CW) : List String → CW × String
  | ["c.hp.new", cipher, key] =>
    match ofHex key with
    | some k =>
      let s0 := withLits (withSizes (withBytes (withBytes (emptySt true) 10 cipher.toUTF8.toList) 11 k)
                  CCrypto.HeaderProtectionObject_arraySizes) CCrypto.lits
      match CCrypto.HeaderProtection_init .bytes .bytes s0 with
      | .fault f => ({ w with hpOk := false }, showFault f)
      | .ok r s' => if r = 0 then ({ w with hp := s', hpOk := true }, "ok")
                    else ({ w with hpOk := false }, cryptoErr s')
    | none => (w, "bad-op")
  | ["c.hp.remove", plen, off] =>
    match plen.toNat?, off.toInt? with
    | some n, some o =>
      if !w.hpOk then (w, "err NoObject") else
      let s0 := withBytes { w.hp with err := none } 10 (patBytes n)
      match CCrypto.HeaderProtection_remove .bytes (.int o) s0 with
      | .fault f => (w, showFault f)
      | .ok (.bytesInt b _) s' =>
        let d : Int := b.length - o % 4294967296   -- the "I" format masks pn_offset to 32 bits
        ({ w with hp := s' }, if 1 ≤ d ∧ d ≤ 4 then "ok hdr=pn_offset+1..4" else s!"ok hdr={b.length}")
      | .ok _ s' => ({ w with hp := s' }, cryptoErr s')
    | _, _ => (w, "bad-op")
  | ["c.hp.apply", hlen, fb, plen] =>
    match hlen.toNat?, fb.toNat?, plen.toNat? with
    | some h, some f, some n =>
      if !w.hpOk then (w, "err NoObject") else
      let hdr := (patBytes h).set 0 (UInt8.ofNat f)
      let s0 := withBytes (withBytes { w.hp with err := none } 10 hdr) 11 (patBytes n)
      match CCrypto.HeaderProtection_apply .bytes .bytes s0 with
      | .fault f => (w, showFault f)
      | .ok (.bytes b) s' => ({ w with hp := s' }, s!"ok len={b.length}")
      | .ok _ s' => ({ w with hp := s' }, cryptoErr s')
    | _, _, _ => (w, "bad-op")
  | ["c.aead.new", cipher, key, iv] =>
    match ofHex key, ofHex iv with
    | some k, some v =>
      let s0 := withSizes (withBytes (withBytes (withBytes (emptySt true) 10 cipher.toUTF8.toList) 11 k) 12 v)
                  CCrypto.AEADObject_arraySizes
      match CCrypto.AEAD_init .bytes .bytes .bytes s0 with
      | .fault f => ({ w with aeadOk := false }, showFault f)
      | .ok r s' => if r = 0 then ({ w with aead := s', aeadOk := true }, "ok")
                    else ({ w with aeadOk := false }, cryptoErr s')
    | _, _ => (w, "bad-op")
  | [op, dlen, alen, pn] =>
    if op ≠ "c.aead.encrypt" ∧ op ≠ "c.aead.decrypt" then (w, "bad-op") else
    match dlen.toNat?, alen.toNat?, pn.toInt? with
    | some d, some a, some p =>
      if !w.aeadOk then (w, "err NoObject") else
      let s0 := withBytes (withBytes { w.aead with err := none } 10 (patBytes d)) 11 (patBytes a)
      let m := if op = "c.aead.encrypt" then CCrypto.AEAD_encrypt .bytes .bytes (.int p)
               else CCrypto.AEAD_decrypt .bytes .bytes (.int p)
      match m s0 with
      | .fault f => (w, showFault f)
      | .ok (.bytes b) s' => ({ w with aead := s' }, s!"ok len={b.length}")
      | .ok _ s' => ({ w with aead := s' }, cryptoErr s')
    | _, _, _ => (w, "bad-op")
  | _ => (w, "bad-op")

def stepC (w : CW) (toks : List String) : CW × String :=
  match toks with
  | t :: _ => if t.startsWith "c.buf." then stepBuf w toks else stepCrypto w toks
  | [] => (w, "bad-op")

end Drv
