import AQ.Model.H3Parser
import AQ.Model.H0
import AQ.Model.CloseFrame
import Driver.Util
namespace Drv
open AQ AQ.H3

/-- a recorded oracle answer (what pylsqpack / the validators / the qlog encoder
    answered on the implementation side for this very call) -/
inductive Ans where
  | dec (r : DecodeResult)
  | res (r : ResumeResult)
  | enc (r : EncResult)
  | fdec (b : Bool)
  | val (r : VResult)
  | log (b : Bool)

structure DQ where
  ans : List Ans := []
  bad : Bool := false

def drvOracle : Oracle DQ where
  decode q _ _ := match q.ans with
    | .dec r :: rest => (r, { q with ans := rest })
    | _ => (.failed, { ans := [], bad := true })
  resume q _ := match q.ans with
    | .res r :: rest => (r, { q with ans := rest })
    | _ => (.failed, { ans := [], bad := true })
  feedEncoder q _ := match q.ans with
    | .enc r :: rest => (r, { q with ans := rest })
    | _ => (.error, { ans := [], bad := true })
  feedDecoder q _ := match q.ans with
    | .fdec r :: rest => (r, { q with ans := rest })
    | _ => (false, { ans := [], bad := true })
  validate q _ _ := match q.ans with
    | .val r :: rest => (r, { q with ans := rest })
    | _ => (.invalid, { ans := [], bad := true })
  logOk q _ := match q.ans with
    | .log r :: rest => (r, { q with ans := rest })
    | _ => (true, { ans := [], bad := true })

structure H3W where
  conn : Conn DQ := Conn.init { isClient := true } {}
  h0 : AQ.H0.State := {}

def H3Parser_parseHeader (s : String) : Option Header :=
  match s.splitOn "=" with
  | [a, b] => do
    let x ← ofHex a
    let y ← ofHex b
    pure (x, y)
  | _ => none

def H3Parser_parseHeaders (s : String) : Option Headers :=
  if s = "~" then some [] else (s.splitOn ",").mapM H3Parser_parseHeader

def parseIds (s : String) : Option (List Nat) :=
  if s = "-" then some [] else (s.splitOn ",").mapM (·.toNat?)

def parseAns (s : String) : Option Ans :=
  match s.splitOn ":" with
  | ["D", "b"] => some (.dec .blocked)
  | ["D", "f"] => some (.dec .failed)
  | ["D", "h", hl] => (H3Parser_parseHeaders hl).map (fun h => .dec (.headers h))
  | ["R", "f"] => some (.res .failed)
  | ["R", "h", hl] => (H3Parser_parseHeaders hl).map (fun h => .res (.headers h))
  | ["E", "e"] => some (.enc .error)
  | ["E", "u", ids] => (parseIds ids).map (fun i => .enc (.unblocked i))
  | ["F", b] => (boolOf b).map .fdec
  | ["V", "i"] => some (.val .invalid)
  | ["V", "o", n] => (optNat n).map (fun n => .val (.ok n))
  | ["L", b] => (boolOf b).map .log
  | _ => none

def showHeaders (hs : Headers) : String :=
  if hs.isEmpty then "~"
  else ",".intercalate (hs.map fun (a, b) => hexOut a ++ "=" ++ hexOut b)

def H3Parser_showEvent : Event → String
  | .headers hs sid e p => s!"hdr sid={sid} end={showB e} push={showOpt p} h={showHeaders hs}"
  | .data d sid e p => s!"data sid={sid} end={showB e} push={showOpt p} d={hexOut d}"
  | .pushPromise hs p sid => s!"pp sid={sid} push={p} h={showHeaders hs}"
  | .wt d sid e sess => s!"wt sid={sid} end={showB e} sess={sess} d={hexOut d}"
  | .datagram d sid => s!"dgram sid={sid} d={hexOut d}"

def showEvents (evs : List Event) : String :=
  if evs.isEmpty then "none" else ";".intercalate (evs.map H3Parser_showEvent)

def showHState : HState → String
  | .initial => "i"
  | .afterHeaders => "h"
  | .afterTrailers => "t"

def showStream (s : Stream) : String :=
  s!"{s.streamId}:{s.buffer.length}:{showOpt s.frameType}:{showOpt s.frameSize}:{showB s.blocked}:{showB s.receivingEnded}:{showB s.sendingEnded}:{showHState s.recvState}:{showOpt s.streamType}:{showOpt s.pushId}:{showOpt s.sessionId}:{showOpt s.expectedCL}:{s.contentLength}"

def insertSorted (x : Nat × Stream) : List (Nat × Stream) → List (Nat × Stream)
  | [] => [x]
  | y :: r => if x.1 ≤ y.1 then x :: y :: r else y :: insertSorted x r

def sortStreams (l : List (Nat × Stream)) : List (Nat × Stream) := l.foldr insertSorted []

def showSettings : Option (List (Nat × Nat)) → String
  | none => "none"
  | some [] => "-"
  | some l => ",".intercalate (l.map fun (a, b) => s!"{a}={b}")

def H3Parser_showConn (c : Conn DQ) : String :=
  if c.isDone then s!"done=1 code={showOpt c.closeCode}"
  else
    let st := ",".intercalate ((sortStreams c.streams).map fun (_, s) => showStream s)
    s!"done=0 set={showB c.settingsReceived} rs={showSettings c.receivedSettings} ctrl={showOpt c.peerControl} enc={showOpt c.peerEncoder} dec={showOpt c.peerDecoder} maxpush={showOpt c.maxPushId} st=[{st}]"

def parseQuirks (s : String) : Option Quirks :=
  match s.toList.map (fun ch => decide (ch = '1')) with
  | [a, b, c, d, e, f, g, h] =>
    some { truncatedNoError := a, silentFrameNoEnd := b, blockedPushAsHeaders := c, maxPushIdRaises := d,
           settingsBufferRead := e, pushPromiseBufferRead := f, unblockedKeyError := g, logDecode := h }
  | _ => none

def finishOp (w : H3W) (r : Outcome (Conn DQ × List Event)) : H3W × String :=
  match r with
  | .error e => (w, showErr e)
  | .ok (c, evs) =>
    -- on a ProtocolError the state (incl. the oracle cursor) is not modelled: `done` hides it
    let tail := if !c.isDone && (c.q.bad || !c.q.ans.isEmpty) then " !desync" else ""
    let c' := { c with q := {} }
    ({ w with conn := c' }, s!"ok {showEvents evs} | {H3Parser_showConn c'}{tail}")

def showH0Events (evs : List AQ.H0.Event) : String :=
  if evs.isEmpty then "none"
  else ";".intercalate (evs.map fun
    | .headers hs sid => s!"hdr sid={sid} h={showHeaders hs}"
    | .data d sid e => s!"data sid={sid} end={showB e} d={hexOut d}")

def showH0 (s : AQ.H0.State) : String :=
  let b := ",".intercalate ((s.buffer.foldr (fun x acc => (x :: acc)) []).map fun (i, d) => s!"{i}:{hexOut d}")
  let h := ",".intercalate (s.headersReceived.map toString)
  s!"buf=[{b}] hr=[{h}]"

def stepH3 (w : H3W) : List String → H3W × String
  | ["h3.new", cl, lg, dg, qk] =>
    match boolOf cl, boolOf lg, boolOf dg, parseQuirks qk with
    | some cl, some lg, some dg, some k =>
      let c : Conn DQ := Conn.init { isClient := cl, logging := lg, hasRemoteDatagram := dg, k := k } {}
      ({ w with conn := c }, "ok " ++ H3Parser_showConn c)
    | _, _, _, _ => (w, "bad-op")
  | "h3.data" :: sid :: dat :: fin :: answers =>
    match sid.toNat?, ofHex dat, boolOf fin, answers.mapM parseAns with
    | some sid, some d, some f, some ans =>
      let c := { w.conn with q := { ans := ans } }
      finishOp w (handleEvent drvOracle c (.streamData sid d f))
    | _, _, _, _ => (w, "bad-op")
  | ["h3.datagram", dat] =>
    match ofHex dat with
    | some d => finishOp w (handleEvent drvOracle w.conn (.datagram d))
    | none => (w, "bad-op")
  | ["h3.other"] => finishOp w (handleEvent drvOracle w.conn .other)
  | ["h3.sendheaders", sid, e] =>
    match sid.toNat?, boolOf e with
    | some sid, some e =>
      let s : Stream := (lookupS sid w.conn.streams).getD (Stream.new sid)
      match sendHeaders s [] e with
      | .error er => (w, showErr er)
      | .ok (s1, _) =>
        let st := if s1.isEnded then eraseS sid (setS sid s1 w.conn.streams) else setS sid s1 w.conn.streams
        let c := { w.conn with streams := st }
        ({ w with conn := c }, "ok | " ++ H3Parser_showConn c)
    | _, _ => (w, "bad-op")
  | ["h3.senddata", sid, e] =>
    match sid.toNat?, boolOf e with
    | some sid, some e =>
      let s : Stream := (lookupS sid w.conn.streams).getD (Stream.new sid)
      match sendData s [] e with
      | .error er => (w, showErr er)
      | .ok (s1, _) =>
        let st := if s1.isEnded then eraseS sid (setS sid s1 w.conn.streams) else setS sid s1 w.conn.streams
        let c := { w.conn with streams := st }
        ({ w with conn := c }, "ok | " ++ H3Parser_showConn c)
    | _, _ => (w, "bad-op")
  | ["h3.encframe", t, dat] =>
    match t.toNat?, ofHex dat with
    | some t, some d =>
      match encodeFrame t d with
      | some b => (w, "ok " ++ hexOut b)
      | none => (w, "err ValueError")
    | _, _ => (w, "bad-op")
  | ["h3.parseframe", dat] =>
    match ofHex dat with
    | some d =>
      match parseFrame d with
      | some (t, p, r) => (w, s!"ok {t} {hexOut p} {hexOut r}")
      | none => (w, "ok none")
    | none => (w, "bad-op")
  | ["h0.new", cl, qk] =>
    match boolOf cl, boolOf qk with
    | some cl, some qk =>
      let s : AQ.H0.State := { isClient := cl, splitRaises := qk }
      ({ w with h0 := s }, "ok " ++ showH0 s)
    | _, _ => (w, "bad-op")
  | ["h0.data", sid, dat, fin] =>
    match sid.toNat?, ofHex dat, boolOf fin with
    | some sid, some d, some f =>
      match AQ.H0.handleEvent w.h0 sid d f with
      | .error e => (w, showErr e)
      | .ok (s, evs) => ({ w with h0 := s }, s!"ok {showH0Events evs} | {showH0 s}")
    | _, _, _ => (w, "bad-op")
  | ["closef.frame", fixed, remaining, rlen, qk] =>
    match fixed.toNat?, remaining.toNat?, rlen.toNat?, boolOf qk with
    | some f, some r, some n, some qk =>
      match AQ.CloseFrame.writeClose qk f r n 0 with
      | .error e => (w, showErr e)
      | .ok m => (w, s!"ok reason={m}")
    | _, _, _, _ => (w, "bad-op")
  | _ => (w, "bad-op")

end Drv
