import AQ.Model.Amplification
import Driver.Util
namespace Drv
open AQ AQ.Amp

structure AmpW where
  n : Net := {}

private def showPath (p : Path) : String := s!"{p.addr}:{p.bytesReceived}:{p.bytesSent}:{showB p.validated}"
private def showNet (n : Net) : String := "[" ++ ",".intercalate (n.paths.map showPath) ++ "]"
private def showOI' : Option Int → String
  | none => "none"
  | some x => toString x

private def fin (w : AmpW) (n : Net) (pre : String := "") : AmpW × String := ({ w with n := n }, s!"ok{pre} | {showNet n}")

def stepAmp (w : AmpW) : List String → AmpW × String
  | ["amp.new"] => fin {} {}
  | ["amp.rx", i, len] =>
    match i.toNat?, len.toNat? with
    | some i, some len => fin w (step w.n (.rx i len))
    | _, _ => (w, "bad-op")
  | ["amp.rxnew", addr, len, acc] =>
    match addr.toNat?, len.toNat?, boolOf acc with
    | some a, some len, some acc => fin w (step w.n (.rxNew a len acc))
    | _, _, _ => (w, "bad-op")
  | ["amp.rxfirst", addr, len] =>
    match addr.toNat?, len.toNat? with
    | some a, some len => fin w (step w.n (.rxFirst a len))
    | _, _ => (w, "bad-op")
  | ["amp.validate", i] =>
    match i.toNat? with
    | some i => fin w (step w.n (.validate i))
    | none => (w, "bad-op")
  -- the path at index i is validated; the cause is what the wire showed:
  -- `hs` a Handshake packet arrived on it, `resp` a PATH_RESPONSE echoed the challenge sent to it
  | ["amp.validate", i, cause] =>
    match i.toNat? with
    | some i => if cause = "hs" ∨ cause = "resp" ∨ cause = "own" then fin w (step w.n (.validate i)) else (w, "bad-op")
    | none => (w, "bad-op")
  | ["amp.promote", i] =>
    match i.toNat? with
    | some i => fin w (step w.n (.promote i))
    | none => (w, "bad-op")
  -- one datagrams_to_send call: the budgets the model computes, then the ledger update
  | ["amp.send", cwnd, infl, probe, ping, closing, mds, total] =>
    match cwnd.toInt?, infl.toInt?, boolOf probe, boolOf ping, boolOf closing, mds.toNat?, total.toNat? with
    | some cwnd, some infl, some probe, some ping, some closing, some mds, some total =>
      let i : SendIn := { cwnd := cwnd, bytesInFlight := infl, probePending := probe, pingPending := ping,
                          closePending := closing, maxDatagramSize := mds }
      fin w (sent w.n total) s!" mf={showOI' (flightBudget i)} mt={showOI' (totalBudget w.n)}"
    | _, _, _, _, _, _, _ => (w, "bad-op")
  | _ => (w, "bad-op")

end Drv
