import AQ.Model.FlowRecv
import Driver.Util
namespace Drv
open AQ AQ.Stream AQ.Flow

structure FlowW where
  conn : Conn := {}
  crypto : Recv := {}
  path : List Bytes := []
  cids : Cids := {}

def showLimit (l : Limit) : String := s!"{l.value}/{l.sent}/{l.used}"

def showIds (xs : List Nat) : String := "[" ++ ",".intercalate (xs.map toString) ++ "]"

def Flow_sortNat (xs : List Nat) : List Nat := (xs.toArray.qsort (· < ·)).toList

def showStrm (s : Strm) : String :=
  s!"{s.sid}:b{showB s.isBlocked}:l{s.maxLocal}/{s.maxLocalSent}:r{s.maxRemote}:sh{s.send.highest}:se{showB s.send.bufferIsEmpty}:sf{showB s.send.finished}:rp{showB s.send.resetPending}:nx{nextOffset s.send}:rh{s.recv.highest}:rf{showB s.recv.finished}:fs{showOpt s.recv.finalSize}:rb{s.recv.buffer.length}:rs{s.recv.bufStart}:sp{showB s.stopPending}"

def Flow_showConn (c : Conn) : String :=
  s!"rmd={c.remoteMaxData} used={c.remoteMaxDataUsed} rsd={c.remoteMaxStreamDataBidiLocal}/{c.remoteMaxStreamDataBidiRemote}/{c.remoteMaxStreamDataUni} rms={c.remoteMaxStreamsBidi}/{c.remoteMaxStreamsUni} lmd={showLimit c.localMaxData} lsd={c.localMaxStreamDataBidiLocal}/{c.localMaxStreamDataBidiRemote}/{c.localMaxStreamDataUni} lmsb={showLimit c.localMaxStreamsBidi} lmsu={showLimit c.localMaxStreamsUni} bb={showIds c.blockedBidi} bu={showIds c.blockedUni} fin={showIds (Flow_sortNat c.finishedIds)} gs={c.goneSent} gr={c.goneRecv} |"
    ++ String.join (c.streams.map fun s => " " ++ showStrm s)

def showWFrame : WFrame → String
  | .stream sid off len fin => s!"S:{sid}:{off}:{len}:{showB fin}"
  | .resetStream sid fs => s!"R:{sid}:{fs}"
  | .stopSending sid => s!"P:{sid}"
  | .maxData v => s!"MD:{v}"
  | .maxStreams uni v => s!"MS:{showB uni}:{v}"
  | .maxStreamData sid v => s!"MSD:{sid}:{v}"

def Flow_showOut (o : Out) : String :=
  let head := match o.err with
    | some e => showErr e
    | none => "ok" ++ (if o.ignored then " ignored" else "") ++ (if o.discarded then " discarded" else "")
  s!"{head} fr=[{",".intercalate (o.frames.map showWFrame)}] used={o.used}"

def deliv (b : Bool) : Delivery := if b then .acked else .lost

def zeros (n : Nat) : Bytes := List.replicate n 0

def Flow_intOf (s : String) : Option Int :=
  if s.startsWith "-" then (s.drop 1).toString.toNat?.map (fun n => - (n : Int)) else s.toNat?.map (fun n => (n : Int))

def roomsOf (s : String) : List Bool := if s = "-" then [] else s.toList.map (· == '1')

def csvNat (s : String) : Option (List Nat) :=
  if s = "-" then some [] else (s.splitOn ",").mapM (·.toNat?)

def flowOp (toks : List String) : Option Op :=
  match toks with
  | ["flow.send", sid, len, fin] => do
    pure (.sendStreamData (← sid.toNat?) (zeros (← len.toNat?)) (← boolOf fin))
  | ["flow.reset", sid, code] => do pure (.resetStream (← sid.toNat?) (← code.toNat?))
  | ["flow.stop", sid] => do pure (.stopStream (← sid.toNat?))
  | ["flow.rxmaxdata", v] => do pure (.rxMaxData (← v.toNat?))
  | ["flow.rxmsd", sid, v] => do pure (.rxMaxStreamData (← sid.toNat?) (← v.toNat?))
  | ["flow.rxmaxstreams", uni, v] => do pure (.rxMaxStreams (← boolOf uni) (← v.toNat?))
  | ["flow.tp", a, b, c, d, e, f] => do
    pure (.transportParams ⟨← optNat a, ← optNat b, ← optNat c, ← optNat d, ← optNat e, ← optNat f, false⟩)
  | ["flow.tp", a, b, c, d, e, f, chk] => do
    pure (.transportParams ⟨← optNat a, ← optNat b, ← optNat c, ← optNat d, ← optNat e, ← optNat f, chk == "1"⟩)
  | ["flow.unblock", uni] => do pure (.unblock (← boolOf uni))
  | ["flow.rxstop", sid] => do pure (.rxStopSending (← sid.toNat?))
  | ["flow.rxsdb", sid] => do pure (.rxStreamDataBlocked (← sid.toNat?))
  | ["flow.rxstream", sid, off, len, fin] => do
    pure (.rxStream (← sid.toNat?) (← off.toNat?) (zeros (← len.toNat?)) (← boolOf fin))
  | ["flow.rxreset", sid, fs] => do pure (.rxResetStream (← sid.toNat?) (← fs.toNat?))
  | ["flow.serve", sid, a, b, fs] => do
    pure (.serve (← sid.toNat?) (← boolOf a) (← boolOf b) (← Flow_intOf fs))
  | ["flow.wconn", a, b, c] => do pure (.writeConnLimits (← boolOf a) (← boolOf b) (← boolOf c))
  | ["flow.wstream", sid, room] => do pure (.writeStreamLimits (← sid.toNat?) (← boolOf room))
  | ["flow.ddeliv", sid, d, a, b, fin] => do
    pure (.dataDelivery (← sid.toNat?) (deliv (← boolOf d)) (← a.toNat?) (← b.toNat?) (← boolOf fin))
  | ["flow.rdeliv", sid, d] => do pure (.resetDelivery (← sid.toNat?) (deliv (← boolOf d)))
  | ["flow.sdeliv", sid, d] => do pure (.stopDelivery (← sid.toNat?) (deliv (← boolOf d)))
  | ["flow.cdeliv", k, d] => do
    let kind ← (match k with
      | "data" => some LimitKind.data | "bidi" => some .streamsBidi | "uni" => some .streamsUni | _ => none)
    pure (.connLimitDelivery kind (deliv (← boolOf d)))
  | ["flow.mdeliv", sid, d] => do pure (.maxStreamDataDelivery (← sid.toNat?) (deliv (← boolOf d)))
  | _ => none

def showCids (s : Cids) : String :=
  s!"cur={s.current} avail={showIds s.available} rpt={s.retirePriorTo} retire={showIds s.retire} infl={s.inFlight}"

def showCrypto (r : Recv) : String :=
  s!"hi={r.highest} start={r.bufStart} buflen={r.buffer.length} rg={AQ.RangeSet.render r.ranges}"

def stepFlow (w : FlowW) (toks : List String) : FlowW × String :=
  match toks with
  | ["flow.new", cl, lmd, lbl, lbr, lu, lmsb, lmsu, q] =>
    match boolOf cl, lmd.toNat?, lbl.toNat?, lbr.toNat?, lu.toNat?, lmsb.toNat?, lmsu.toNat? with
    | some cl, some lmd, some lbl, some lbr, some lu, some lmsb, some lmsu =>
      let qs := q.toList
      let quirks : Quirks := { unblockHeadOnly := qs[0]? == some '1', raiseBeforeWrite := qs[1]? == some '1',
                               resetKeepsHighest := qs[2]? == some '1', reopenFinished := qs[3]? == some '1',
                               acceptReducedParams := qs[4]? == some '1' }
      let c : Conn := { isClient := cl, localMaxData := Limit.init lmd, localMaxStreamDataBidiLocal := lbl,
                        localMaxStreamDataBidiRemote := lbr, localMaxStreamDataUni := lu,
                        localMaxStreamsBidi := Limit.init lmsb, localMaxStreamsUni := Limit.init lmsu,
                        quirks := quirks }
      ({ w with conn := c }, "ok " ++ Flow_showConn c)
    | _, _, _, _, _, _, _ => (w, "bad-op")
  | ["flow.crypto.new"] => ({ w with crypto := {} }, "ok " ++ showCrypto {})
  | ["flow.crypto", off, len] =>
    match off.toNat?, len.toNat? with
    | some off, some len =>
      match rxCrypto w.crypto off (zeros len) with
      | .error code => (w, s!"err QuicConnectionError({code}) | " ++ showCrypto w.crypto)
      | .ok (r, ev) =>
        let evs := match ev with | none => "none" | some d => toString d.length
        ({ w with crypto := r }, s!"ok {evs} | " ++ showCrypto r)
    | _, _ => (w, "bad-op")
  | ["flow.path.new"] => ({ w with path := [] }, "ok 0")
  | ["flow.path.chal"] =>
    let q := rxPathChallenge w.path []
    ({ w with path := q }, s!"ok {q.length}")
  | ["flow.path.write", rooms] =>
    let p := writePathResponses w.path (roomsOf rooms)
    ({ w with path := p.1 }, (if p.2 then "err QuicPacketBuilderStop " else "ok ") ++ toString p.1.length)
  | ["flow.cid.new", limit] =>
    match limit.toNat? with
    | some l => let s : Cids := { limit := l }; ({ w with cids := s }, "ok " ++ showCids s)
    | none => (w, "bad-op")
  | ["flow.cid.new", limit, cur, rpt, avail, seen, retire] =>
    match limit.toNat?, cur.toNat?, rpt.toNat?, csvNat avail, csvNat seen, csvNat retire with
    | some l, some cur, some rpt, some av, some sn, some rt =>
      let s : Cids := { limit := l, current := cur, retirePriorTo := rpt, available := av, seen := sn, retire := rt }
      ({ w with cids := s }, "ok " ++ showCids s)
    | _, _, _, _, _, _ => (w, "bad-op")
  | ["flow.cid.ncid", seq, rpt] =>
    match seq.toNat?, rpt.toNat? with
    | some seq, some rpt =>
      let p := rxNewConnectionId w.cids seq rpt
      ({ w with cids := p.1 }, (match p.2 with | some e => showErr e | none => "ok") ++ " | " ++ showCids p.1)
    | _, _ => (w, "bad-op")
  | ["flow.cid.change"] =>
    match changeConnectionId w.cids with
    | .error e => (w, showErr e ++ " | " ++ showCids w.cids)
    | .ok s => ({ w with cids := s }, "ok | " ++ showCids s)
  | ["flow.cid.write", rooms] =>
    let p := writeRetires w.cids (roomsOf rooms)
    ({ w with cids := p.1 }, (if p.2 then "err QuicPacketBuilderStop" else "ok") ++ " | " ++ showCids p.1)
  | ["flow.cid.deliv", d, seq] =>
    match boolOf d, seq.toNat? with
    | some d, some seq =>
      let s := retireDelivery w.cids (deliv d) seq
      ({ w with cids := s }, "ok | " ++ showCids s)
    | _, _ => (w, "bad-op")
  | _ =>
    match flowOp toks with
    | none => (w, "bad-op")
    | some op =>
      let p := step w.conn op
      ({ w with conn := p.1 }, Flow_showOut p.2 ++ " | " ++ Flow_showConn p.1)

end Drv
