import AQ.Model.TlsExtBody
import Driver.Util
namespace Drv
open AQ AQ.TlsCodec

/-! `tlsx.*`: typed TLS extension bodies (model `AQ.TlsCodec.ExtVal`).
    value text: numbers decimal, bytes hex (`-` empty), items joined by `,`,
    pair fields by `:`, the two PSK lists by `|`; empty list `-`. -/

private def splitL (s : String) : List String := if s = "-" then [] else s.splitOn ","

private def natsL (s : String) : Option (List Nat) :=
  (splitL s).foldr (fun t acc => match acc, t.toNat? with
    | some l, some n => some (n :: l)
    | _, _ => none) (some [])

private def hexesL (s : String) : Option (List Bytes) :=
  (splitL s).foldr (fun t acc => match acc, ofHex (if t = "e" then "-" else t) with
    | some l, some b => some (b :: l)
    | _, _ => none) (some [])

private def natHexL (s : String) : Option (List (Nat × Bytes)) :=
  (splitL s).foldr (fun t acc => match acc, t.splitOn ":" with
    | some l, [a, b] => match a.toNat?, ofHex b with
      | some n, some h => some ((n, h) :: l)
      | _, _ => none
    | _, _ => none) (some [])

private def hexNatL (s : String) : Option (List (Bytes × Nat)) :=
  (splitL s).foldr (fun t acc => match acc, t.splitOn ":" with
    | some l, [a, b] => match ofHex a, b.toNat? with
      | some h, some n => some ((h, n) :: l)
      | _, _ => none
    | _, _ => none) (some [])

private def valOf (shape arg : String) : Option ExtVal :=
  match shape with
  | "keyshares" => (natHexL arg).map .keyShares
  | "versions" => (natsL arg).map .versions
  | "u16s" => (natsL arg).map .u16s
  | "pskmodes" => (natsL arg).map .pskModes
  | "servername" => (ofHex arg).map .serverName
  | "alpn" => (hexesL arg).map .alpn
  | "empty" => some .empty
  | "psks" =>
    match arg.splitOn "|" with
    | [a, b] => match hexNatL a, hexesL b with
      | some ids, some bs => some (.offeredPsks ids bs)
      | _, _ => none
    | _ => none
  | "u16" => arg.toNat?.map .u16
  | "keyshare" =>
    match arg.splitOn ":" with
    | [a, b] => match a.toNat?, ofHex b with
      | some g, some k => some (.keyShare g k)
      | _, _ => none
    | _ => none
  | "u32" => arg.toNat?.map .u32
  | _ => none

private def joinL (l : List String) : String := if l.isEmpty then "-" else ",".intercalate l
private def hexE (b : Bytes) : String := if b.isEmpty then "e" else toHex b

private def showVal : ExtVal → String
  | .keyShares l => joinL (l.map fun p => s!"{p.1}:{hexOut p.2}")
  | .versions l => joinL (l.map toString)
  | .u16s l => joinL (l.map toString)
  | .pskModes l => joinL (l.map toString)
  | .serverName n => hexOut n
  | .alpn l => joinL (l.map hexE)
  | .empty => "-"
  | .offeredPsks ids bs => joinL (ids.map fun p => s!"{hexOut p.1}:{p.2}") ++ "|" ++ joinL (bs.map hexE)
  | .u16 v => toString v
  | .keyShare g k => s!"{g}:{hexOut k}"
  | .u32 v => toString v

/-- a value of the given shape (only its constructor matters to `ExtVal.dec`) -/
private def shapeVal (shape : String) : Option ExtVal :=
  match shape with
  | "keyshares" => some (.keyShares []) | "versions" => some (.versions []) | "u16s" => some (.u16s [])
  | "pskmodes" => some (.pskModes []) | "servername" => some (.serverName []) | "alpn" => some (.alpn [])
  | "empty" => some .empty | "psks" => some (.offeredPsks [] []) | "u16" => some (.u16 0)
  | "keyshare" => some (.keyShare 0 []) | "u32" => some (.u32 0) | _ => none

def stepTlsExt : List String → String
  | ["tlsx.enc", shape, arg] =>
    match valOf shape arg with
    | some v => "ok " ++ hexOut v.enc
    | none => "bad-op"
  | ["tlsx.dec", shape, h] =>
    match shapeVal shape, ofHex h with
    | some sv, some d =>
      match sv.dec d with
      | some (v, []) => "ok " ++ showVal v
      | some (_, _ :: _) => "err extra"
      | none => "err"
    | _, _ => "bad-op"
  | _ => "bad-op"

end Drv
