import AQ.Model.Builder
import Driver.Util
namespace Drv
open AQ AQ.Builder

structure BldW where
  s : St := St.init { isClient := false, maxDatagramSize := 1200, peerCidLen := 8, hostCidLen := 8, tokenLen := 0 }
  dead : Bool := false

def optInt (s : String) : Option (Option Int) :=
  if s = "none" then some none else s.toInt?.map some

def bldPtypeOf : String → Option PType
  | "I" => some .initial | "H" => some .handshake | "Z" => some .zeroRtt | "O" => some .oneRtt
  | _ => none

def showPT : PType → String
  | .initial => "I" | .handshake => "H" | .zeroRtt => "Z" | .oneRtt => "O"

def showPkt (p : Pkt) : String :=
  s!"{showPT p.ptype}:{p.pn}:{showB p.inFlight}{showB p.ackEliciting}{showB p.isCrypto}:{p.sentBytes}"

def showPkts (ps : List Pkt) : String := "[" ++ ",".intercalate (ps.map showPkt) ++ "]"
def showSizes (ds : List Dgram) : String := "[" ++ ",".intercalate (ds.map fun d => toString d.size) ++ "]"

def showBld (s : St) : String :=
  let pk := match s.packet with
    | none => "none"
    | some p => s!"{showPT p.ptype}:{showB p.inFlight}{showB p.ackEliciting}{showB p.isCrypto}"
  s!"tell={s.tell} ps={s.packetStart} hs={s.headerSize} bc={s.bufferCapacity} fc={s.flightCapacity} dfb={s.dgramFlightBytes} init={showB s.dgramInit} np={showB s.needsPadding} fb={s.flightBytes} tb={s.totalBytes} pn={s.packetNumber} pkt={pk} d={showSizes s.datagrams} p={showPkts s.packets}"

def finishBld (w : BldW) (pre : String) (r : St × Res) (disc : Bool := true) : BldW × String :=
  let sfx := if disc then "" else " # undisciplined"
  match r with
  | (s, .ok) => ({ w with s := s }, s!"ok{pre} | {showBld s}{sfx}")
  | (s, .stop) => ({ w with s := s }, s!"err QuicPacketBuilderStop | {showBld s}{sfx}")
  | (s, .err e) => ({ w with s := s, dead := true }, showErr e)
  | (_, .misuse) => (w, "bad-op")

def stepBuilder (w : BldW) (toks : List String) : BldW × String :=
  match toks with
  | ["bld.new", cl, mds, pc, hc, tok, pn, mf, mt] =>
    match boolOf cl, mds.toNat?, pc.toNat?, hc.toNat?, tok.toNat?, pn.toNat?, optInt mf, optInt mt with
    | some cl, some mds, some pc, some hc, some tok, some pn, some mf, some mt =>
      let c : Cfg := { isClient := cl, maxDatagramSize := mds, peerCidLen := pc, hostCidLen := hc,
                       tokenLen := tok, maxFlight := mf, maxTotal := mt }
      let s := St.init c pn
      ({ s := s, dead := false }, s!"ok | {showBld s}")
    | _, _, _, _, _, _, _, _ => (w, "bad-op")
  | _ =>
    if w.dead then (w, "dead") else
    match toks with
    | ["bld.start_packet", t] =>
      match bldPtypeOf t with
      | some t => finishBld w "" (startPacket w.s t) (discB w.s (.startPacket t))
      | none => (w, "bad-op")
    | ["bld.start_frame", ft, cap] =>
      match ft.toNat?, cap.toNat? with
      | some ft, some cap =>
        let rbs := remainingBufferSpace w.s
        let rfs := remainingFlightSpace w.s
        finishBld w s!" rbs={rbs} rfs={rfs}" (startFrame w.s ft cap) (discB w.s (.startFrame ft cap))
      | _, _ => (w, "bad-op")
    | ["bld.push", n] =>
      match n.toNat? with
      | some n => finishBld w "" (pushBytes w.s n) (discB w.s (.pushBytes n))
      | none => (w, "bad-op")
    | ["bld.flush"] =>
      match flush w.s with
      | (s, .ok) =>
        -- what flush() returned: the datagrams / packets assembled since the last flush
        let k := s.out.length - (w.s.out.length)
        let ret := s.out.drop (s.out.length - k)
        let pk := ret.foldl (fun acc d => acc ++ d.pkts) []
        let sfx := if discB w.s .flush then "" else " # undisciplined"
        ({ w with s := s }, s!"ok d={showSizes ret} p={showPkts pk} | {showBld s}{sfx}")
      | r => finishBld w "" r
    | _ => (w, "bad-op")

end Drv
