import AQ.Model.StreamTable
import Driver.StreamSys
namespace Drv
open AQ AQ.Stream AQ.StreamSys AQ.StreamTable

structure TabW where
  tab : Table := {}

def showTabIds (l : List Nat) : String := "[" ++ ",".intercalate (l.map toString) ++ "]"

def sortTabIds (l : List Nat) : List Nat := (l.toArray.qsort (· < ·)).toList

def showTab (t : Table) : String :=
  s!"qC={showTabIds t.queueC} qS={showTabIds t.queueS} fC={showTabIds (sortTabIds t.finC)} fS={showTabIds (sortTabIds t.finS)}"

def doTab (w : TabW) (op : StreamTable.Op) : TabW × String :=
  let (t, outs) := StreamTable.step w.tab op
  let head := match outs with
    | [o] => showOut o
    | _ => "ok"
  ({ w with tab := t }, s!"{head} | {showTab t}")

/-- `id:space:mo,id:space:mo` or `-` -/
def parseTabInputs (s : String) : Option (List (Nat × Int × Nat)) :=
  if s = "-" then some [] else
  (s.splitOn ",").mapM fun item =>
    match item.splitOn ":" with
    | [a, b, c] => do
      let a ← a.toNat?
      let b ← b.toInt?
      let c ← c.toNat?
      pure (a, b, c)
    | _ => none

def parseTabIds (s : String) : Option (List Nat) :=
  if s = "-" then some [] else (s.splitOn ",").mapM (·.toNat?)

def stepTab (w : TabW) : List String → TabW × String
  | ["tab.new"] => ({ w with tab := {} }, "ok | " ++ showTab {})
  | ["tab.api", ep, id, "write", dat, fin] =>
    match boolOf ep, id.toNat?, ofHex dat, boolOf fin with
    | some ep, some id, some d, some f => doTab w (.api ep id (.write d f))
    | _, _, _, _ => (w, "bad-op")
  | ["tab.api", ep, id, "reset", c] =>
    match boolOf ep, id.toNat?, c.toNat? with
    | some ep, some id, some c => doTab w (.api ep id (.reset c))
    | _, _, _ => (w, "bad-op")
  | ["tab.arrive", ep, id, kind, i] =>
    match boolOf ep, id.toNat?, i.toNat? with
    | some ep, some id, some i =>
      if kind = "frame" then doTab w (.arrive ep id (.frame i))
      else if kind = "reset" then doTab w (.arrive ep id (.reset i))
      else (w, "bad-op")
    | _, _, _ => (w, "bad-op")
  | ["tab.report", ep, id, kind, i] =>
    match boolOf ep, id.toNat?, i.toNat? with
    | some ep, some id, some i =>
      if kind = "ack" then doTab w (.report ep id (.ack i))
      else if kind = "lose" then doTab w (.report ep id (.lose i))
      else if kind = "ackreset" then doTab w (.report ep id .ackReset)
      else if kind = "losereset" then doTab w (.report ep id .loseReset)
      else (w, "bad-op")
    | _, _, _ => (w, "bad-op")
  | ["tab.serve", ep, n, inputs, tail] =>
    match boolOf ep, n.toNat?, parseTabInputs inputs, parseTabIds tail with
    | some ep, some n, some inp, some tl => doTab w (.serve ep n inp tl)
    | _, _, _, _ => (w, "bad-op")
  | _ => (w, "bad-op")

end Drv
