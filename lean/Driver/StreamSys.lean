import AQ.Model.StreamSys
import Driver.Stream
import Driver.Util
namespace Drv
open AQ AQ.Stream AQ.StreamSys

structure SysW where
  sys : Sys := {}

def showSys (s : Sys) : String :=
  s!"S[{showSend s.send}] R[{showRecv s.recv} gone={showB s.recvGone}] sgone={showB s.sendGone} wire={s.wire.length} rwire={s.resetWire.length} bytes={s.deliveredBytes.length} ends={s.endEvents} resets={s.resetEvents}"

def showFr (f : OutFrame) : String := s!"off={f.offset} data={hexOut f.data} fin={showB f.fin}"

def showOut : Out → String
  | .done => "ok"
  | .skipped => "ok skip"
  | .err e => showErr e
  | .wrote (.ret none u) => s!"ok none used={u}"
  | .wrote (.ret (some f) u) => s!"ok {showFr f} used={u}"
  | .wrote (.stop f) => s!"err QuicPacketBuilderStop taken {showFr f}"
  | .resetFrame z => s!"ok final={z}"
  | .event none => "ok none"
  | .event (some e) => s!"ok data={hexOut e.data} end={showB e.endStream}"
  | .resetEvent => "ok reset"
  | .ignored => "ok ignored"

def doSys (w : SysW) (op : Op) : SysW × String :=
  let (s, o) := step w.sys op
  ({ w with sys := s }, s!"{showOut o} | {showSys s}")

def stepSys (w : SysW) : List String → SysW × String
  | ["sys.new", sid, q1, q2, q3] =>
    match sid.toNat?, boolOf q1, boolOf q2, boolOf q3 with
    | some sid, some q1, some q2, some q3 =>
      let s : Sys := { streamId := sid, quirkDupFin := q1, quirkEndAfterReset := q2, quirkNoRoomGuard := q3 }
      ({ w with sys := s }, "ok | " ++ showSys s)
    | _, _, _, _ => (w, "bad-op")
  | ["sys.write", dat, fin] =>
    match ofHex dat, boolOf fin with
    | some d, some f => doSys w (.appWrite d f)
    | _, _ => (w, "bad-op")
  | ["sys.reset", c] =>
    match c.toNat? with
    | some c => doSys w (.appReset c)
    | none => (w, "bad-op")
  | ["sys.emit", space, mo] =>
    match space.toInt?, mo.toNat? with
    | some sp, some mo => doSys w (.emit sp mo)
    | _, _ => (w, "bad-op")
  | ["sys.emitreset"] => doSys w .emitReset
  | ["sys.deliver", i] =>
    match i.toNat? with
    | some i => doSys w (.deliver i)
    | none => (w, "bad-op")
  | ["sys.deliverreset", j] =>
    match j.toNat? with
    | some j => doSys w (.deliverReset j)
    | none => (w, "bad-op")
  | ["sys.ack", i] =>
    match i.toNat? with
    | some i => doSys w (.ackFrame i)
    | none => (w, "bad-op")
  | ["sys.lose", i] =>
    match i.toNat? with
    | some i => doSys w (.loseFrame i)
    | none => (w, "bad-op")
  | ["sys.ackreset"] => doSys w .ackReset
  | ["sys.losereset"] => doSys w .loseReset
  | ["sys.discard"] => doSys w .discardRecv
  | ["sys.senddiscard"] => doSys w .discardSend
  | _ => (w, "bad-op")

end Drv
