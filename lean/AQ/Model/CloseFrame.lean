/-
  Capacity arithmetic of `QuicConnection._write_connection_close_frame` +
  `QuicPacketBuilder.start_frame` (quic/connection.py, quic/packet_builder.py).
  CONNECTION_CLOSE frames are in NON_IN_FLIGHT_FRAME_TYPES, so only
  `remaining_buffer_space` matters.  Core Lean only.
-/
import AQ.Base.Basic
namespace AQ.CloseFrame

/-- bytes `push_uint_var` writes for `v < 2^62` -/
def varintSize (v : Nat) : Nat :=
  if v < 2 ^ 6 then 1 else if v < 2 ^ 14 then 2 else if v < 2 ^ 30 then 4 else 8

/-- APPLICATION_CLOSE_FRAME_CAPACITY = 1 + 2 * UINT_VAR_MAX_SIZE -/
def appFixed : Nat := 17
/-- TRANSPORT_CLOSE_FRAME_CAPACITY = 1 + 3 * UINT_VAR_MAX_SIZE -/
def transportFixed : Nat := 25

/-- number of reason-phrase bytes put in the frame.
    `noTruncate = true`: unchanged tree (all of them).
    `false`: proposed fix — at most what fits; `cut` ≤ 3 further bytes are dropped
    so as not to split a UTF-8 sequence. -/
def reasonBytes (noTruncate : Bool) (fixed remaining reasonLen cut : Nat) : Nat :=
  if noTruncate then reasonLen else min reasonLen (remaining - fixed) - cut

/-- `builder.start_frame(type, capacity = fixed + len(reason_bytes))`:
    `QuicPacketBuilderStop` when `remaining_buffer_space < capacity`; result =
    number of reason bytes written -/
def writeClose (noTruncate : Bool) (fixed remaining reasonLen cut : Nat) : Outcome Nat :=
  let n := reasonBytes noTruncate fixed remaining reasonLen cut
  if remaining < fixed + n then .error .builderStop else .ok n

/-- size of the APPLICATION_CLOSE frame actually written -/
def appFrameSize (errorCode n : Nat) : Nat := 1 + varintSize errorCode + varintSize n + n

/-- size of the TRANSPORT_CLOSE frame actually written -/
def transportFrameSize (errorCode frameType n : Nat) : Nat :=
  1 + varintSize errorCode + varintSize frameType + varintSize n + n

end AQ.CloseFrame
