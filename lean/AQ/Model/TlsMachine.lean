import AQ.Gen.TlsMachine
/-
  Semantics of the GENERATED TLS machine (`AQ.Gen.Tls`, regenerated from
  src/aioquic/tls.py on every run).  Core Lean only (linked into the driver).

  One handler run = the enabled steps (those whose enclosing `if` tests hold for
  this message), executed in source order up to the first step that raises.
  Everything the machine does not compute — truth of the tests, failure of
  parsers / negotiation / signature, MAC and certificate checks / external calls
  — is an INPUT (`Env`), universally quantified in the theorems.
-/
namespace AQ.Tls
open AQ.Gen.Tls

/-- what leaves a handler when it does not return normally -/
inductive Exn where
  | alert (a : AlertC)
  | py (line : Nat)          -- any non-Alert Python exception (assert, external call)
  deriving DecidableEq, Repr, Inhabited

inductive Out where
  | done
  | raised (e : Exn)
  deriving DecidableEq, Repr, Inhabited

/-- inputs of one message processing -/
structure Env where
  /-- truth of each `if` / `elif` / loop / `except` test of the handlers -/
  test : Test → Bool
  /-- by source line: the exception raised by the fallible action on that line, if any -/
  fails : Nat → Option Exn
  /-- the `assert input_buf.eof()` after the dispatch fails -/
  postFails : Bool := false

def condHolds (env : Env) (s : Step) : Bool :=
  s.cond.all fun p => env.test p.1 == p.2

def enabled (env : Env) (l : List Step) : List Step := l.filter (condHolds env)

/-- the exception a step raises: `raise` always; a step inside a `try` whose
    handler is modelled (`caught`) never by itself (the handler steps follow,
    guarded by the `except` test); any other step when the environment says so. -/
def failure (env : Env) (s : Step) : Option Exn :=
  match s.act with
  | .raise a => some (.alert a)
  | .reraise => some ((env.fails s.line).getD (.py s.line))   -- bare `raise` in an except clause
  | .local => none
  | .brk => none
  | .setState _ => none
  | .setAttr _ _ => none
  | _ => if s.caught then none else env.fails s.line

/-- run a list of enabled steps: performed actions (in order) and outcome -/
def execU (env : Env) : List Step → List Act × Out
  | [] => ([], .done)
  | s :: rest =>
    match failure env s with
    | some e => ([], .raised e)
    | none =>
      if s.act = .ret then ([], .done) else
      let r := execU env rest
      (s.act :: r.1, r.2)

def exec (env : Env) (l : List Step) : List Act × Out := execU env (enabled env l)

/-- one level of inlining of `self._other_handler(..)` calls -/
def flat (f : Fn) : List Step :=
  (steps f).flatMap fun s =>
    match s.act with
    | .call g => (steps g).map fun t => { t with cond := s.cond ++ t.cond }
    | _ => [s]

/-- machine configuration: handshake state, abstract value of every attribute
    the handlers assign, and the log of performed actions (oldest first) -/
structure Cfg where
  st : St
  attr : Attr → AVal
  log : List Act

def applyAct (c : Cfg) (a : Act) : Cfg :=
  match a with
  | .setState s => { c with st := s, log := c.log ++ [a] }
  | .setAttr x v => { c with attr := fun y => if y = x then v else c.attr y, log := c.log ++ [a] }
  | _ => { c with log := c.log ++ [a] }

def applyAll (c : Cfg) (p : List Act) : Cfg := p.foldl applyAct c

/-- the handler `Context.handle_message` runs for a message of type `t` in
    state `s`: the hello sender in the start state (input ignored), else the
    dispatch table -/
def handlerFor (s : St) (t : HT) : Option Fn :=
  if s = startState then some startFn else dispatch s t

/-- outcome of a handler run followed by the `assert input_buf.eof()` of the dispatcher -/
def finalOut (env : Env) (c : Cfg) : Out → Out
  | .done => if env.postFails ∧ c.st ≠ startState then .raised (.py 0) else .done
  | o => o

/-- processing of one complete handshake message -/
def stepMsg (env : Env) (c : Cfg) (t : HT) : Cfg × Out :=
  match handlerFor c.st t with
  | none => (c, .raised (.alert unexpectedAlert))
  | some f => (applyAll c (exec env (flat f)).1, finalOut env c (exec env (flat f)).2)

/-- all messages are fed, whatever was raised before (the TLS object stays usable
    after an exception; the QUIC connection closes instead, see `runStrict`) -/
def run (c : Cfg) : List (HT × Env) → Cfg
  | [] => c
  | (t, env) :: rest => run (stepMsg env c t).1 rest

/-- processing stops at the first exception (what a QUIC connection does) -/
def runStrict (c : Cfg) : List (HT × Env) → Cfg × Out
  | [] => (c, .done)
  | (t, env) :: rest =>
    match stepMsg env c t with
    | (c', .done) => runStrict c' rest
    | r => r

/-- attribute values after `Context.__init__` for the tracked attributes -/
def initAttr : Attr → AVal
  | .session_resumed => .false
  | .early_data_accepted => .false
  | .key_schedule_psk => .none
  | .key_schedule_proxy => .none
  | .certificate_request => .none
  | .key_schedule => .none
  | .alpn_negotiated => .none
  | .new_session_ticket => .none
  | .peer_certificate => .none
  | _ => .other

def initClient : Cfg := ⟨.CLIENT_HANDSHAKE_START, initAttr, []⟩
def initServer : Cfg := ⟨.SERVER_EXPECT_CLIENT_HELLO, initAttr, []⟩

/-- The tests that read a tracked attribute have the value that attribute had
    when the handler was entered (checked on the real objects by the
    correspondence run; `no_read_after_write` shows the entry value is the one
    read). -/
structure EnvOK (c : Cfg) (env : Env) : Prop where
  resumed : env.test .ee_resumed = (c.attr .session_resumed == .true)
  pskNone : c.attr .key_schedule_psk = .none → env.test .ch_psk_reject = true
  certReq : env.test .fin_cert_requested = (c.attr .certificate_request != .none)

/-- every environment of the input sequence is consistent with the
    configuration it is applied to -/
def Consistent (c : Cfg) : List (HT × Env) → Prop
  | [] => True
  | (t, env) :: rest => EnvOK c env ∧ Consistent (stepMsg env c t).1 rest

end AQ.Tls
