/-
  C05 — exception-OUTCOME model of datagram → packet → frame processing in
  `QuicConnection` (src/aioquic/quic/connection.py), written against the code
  at the commit that contains "fix: datagrams_to_send() returns nothing when there is no
  network path yet" and "fix: handle_timer() and get_timer() tolerate an unarmed deadline".

  What is an *input* of the model (never guessed):
    * the outcome of `pull_quic_header` per packet (`Outcome Hdr`),
    * the decrypt oracle per packet (`Dec`),
    * the payload of an authenticated packet (`π`) and the function that
      processes it (`runPayload`, instantiated by `payloadReceived` over the
      EXTRACTED handler table, see below),
    * the outcome of the frame writers inside `datagrams_to_send` (`Writers`).
  The `except` clauses are not transcribed by hand: every try/except of the
  path consults `AQ.Gen.Recv.clauses` (generated from the source on every run).
-/
import AQ.Base.Basic
import AQ.Gen.RecvTables

namespace AQ.Recv
open AQ AQ.Gen.Recv

/-! ## Exception plumbing over the extracted `except` clauses -/

/-- Python class name of an outcome error -/
def errCls : Err → String
  | .bufferRead => "BufferReadError"
  | .bufferWrite => "BufferWriteError"
  | .finalSize => "FinalSizeError"
  | .streamFinished => "StreamFinishedError"
  | .conn _ => "QuicConnectionError"
  | .alert _ => "Alert"
  | .h3 _ => "ProtocolError"
  | .builderStop => "QuicPacketBuilderStop"
  | .py .assertion => "AssertionError"
  | .py .index => "IndexError"
  | .py .key => "KeyError"
  | .py .value => "ValueError"
  | .py .typeErr => "TypeError"
  | .py .unicode => "UnicodeDecodeError"
  | .py .overflow => "OverflowError"
  | .py .notImplemented => "NotImplementedError"

/-- `isinstance(exception of class cls, target)` by the extracted hierarchy -/
def isInstance (cls target : String) : Bool :=
  match ancestors.lookup cls with
  | some as => as.contains target
  | none => cls == target

/-- first `except` clause of the try statement guarding call `g` in `fn` that
    matches the raised error (Python semantics: clauses tried in source order) -/
def catchCls (fn g cls : String) : Option Action :=
  ((clauses.filter (fun c => c.fn == fn && c.guarded == g)).find?
      (fun c => isInstance cls c.cls)).map (·.action)

def catchAction (fn g : String) (e : Err) : Option Action := catchCls fn g (errCls e)

/-! ## `_payload_received` -/


/-- the handlers as seen by the dispatch loop.  `σ` is whatever they thread
    (connection state and read buffer).  A handler that raises still leaves a
    state behind (Python mutation is not rolled back). -/
structure Handlers (σ : Type) where
  eof : σ → Bool
  /-- `buf.pull_uint_var()` for the frame type -/
  pullType : σ → Outcome Nat × σ
  /-- `frame_handler(context, frame_type, buf)` for the handler named in the table -/
  run : String → Nat → Epoch → σ → Outcome Unit × σ

structure Flags where
  frameFound : Bool := false
  cryptoFound : Bool := false
  ackEliciting : Bool := false
  probing : Option Bool := none
  deriving Repr, DecidableEq

def PROTOCOL_VIOLATION : Nat := 0xA
def FRAME_TYPE_CRYPTO : Nat := 0x06

/-- the `while not buf.eof()` loop.  `fuel` bounds the number of iterations;
    every iteration consumes at least the type varint and no handler un-reads, so
    `fuel = len(payload)+1` never runs out on the byte-level instance (validated by the
    outcome correspondence, not proved); running out is treated as `eof`. -/
def payloadLoop {σ : Type} (H : Handlers σ) (epoch : Epoch) :
    Nat → σ → Flags → Outcome Flags × σ
  | 0, s, fl => (.ok fl, s)
  | fuel + 1, s, fl =>
    if H.eof s then (.ok fl, s) else
    match H.pullType s with
    | (.error e, s1) =>
      -- try: frame_type = buf.pull_uint_var()  except BufferReadError: raise QuicConnectionError
      match catchAction "_payload_received" "pull_uint_var" e with
      | some (.raiseConn c) => (.error (.conn c), s1)
      | _ => (.error e, s1)
    | (.ok ftype, s1) =>
      -- try: frame_handler, frame_epochs = self.__frame_handlers[frame_type]  except KeyError
      match handlerTable.lookup ftype with
      | none =>
        match catchAction "_payload_received" "[frame_handlers]" (.py .key) with
        | some (.raiseConn c) => (.error (.conn c), s1)
        | _ => (.error (.py .key), s1)
      | some (name, epochs) =>
        if ¬ epochs.contains epoch then (.error (.conn PROTOCOL_VIOLATION), s1) else
        let (r, s2) := H.run name ftype epoch s1
        let continue_ : Outcome Flags × σ :=
          payloadLoop H epoch fuel s2
            { frameFound := true
              cryptoFound := fl.cryptoFound || ftype == FRAME_TYPE_CRYPTO
              ackEliciting := fl.ackEliciting || ! nonAckEliciting.contains ftype
              probing := if ! probing.contains ftype then some false
                         else if fl.probing.isNone then some true else fl.probing }
        match r with
        | .ok () => continue_
        | .error e =>
          match catchAction "_payload_received" "frame_handler" e with
          | some (.raiseConn c) => (.error (.conn c), s2)
          | some .pass => continue_
          | _ => (.error e, s2)

/-- `_payload_received(context, plain, crypto_frame_required)` -/
def payloadReceived {σ : Type} (H : Handlers σ) (epoch : Epoch) (cryptoRequired : Bool)
    (fuel : Nat) (s : σ) : Outcome (Bool × Bool) × σ :=
  match payloadLoop H epoch fuel s {} with
  | (.error e, s') => (.error e, s')
  | (.ok fl, s') =>
    if ! fl.frameFound then (.error (.conn PROTOCOL_VIOLATION), s')
    else if cryptoRequired && ! fl.cryptoFound then (.error (.conn PROTOCOL_VIOLATION), s')
    else (.ok (fl.ackEliciting, fl.probing.getD false), s')

/-! ### The frames-as-a-list instance (the statement of `recv_total`) -/

/-- one frame of an authenticated payload, as far as exceptions are concerned -/
structure FrameIn where
  /-- outcome of pulling the varint frame type (any `Nat`, or a read error) -/
  ftype : Outcome Nat
  /-- what the handler produces when it is called -/
  handler : Outcome Unit
  /-- a CONNECTION_CLOSE handler that ran to its end: the received error code -/
  closes : Option Nat := none

/-! ## Connection state (the part exceptions depend on) -/

inductive CState where
  | firstflight | connected | closing | draining | terminated
  deriving DecidableEq, Repr, Inhabited

def CState.isEnd : CState → Bool
  | .closing | .draining | .terminated => true
  | _ => false

def CState.name : CState → String
  | .firstflight => "FIRSTFLIGHT" | .connected => "CONNECTED" | .closing => "CLOSING"
  | .draining => "DRAINING" | .terminated => "TERMINATED"

structure St where
  isClient : Bool
  state : CState := .firstflight
  closePending : Bool := false
  /-- `_close_event.error_code` -/
  closeEvent : Option Nat := none
  /-- `_close_at is not None` -/
  closeAtSet : Bool := false
  /-- `_initialize` ran: `_cryptos`, `_cryptos_initial`, `_spaces`, `_crypto_streams`,
      `_loss.spaces` are populated -/
  initialized : Bool := false
  /-- `len(self._network_paths)` -/
  nPaths : Nat := 0
  retryCount : Nat := 0
  vnDone : Bool := false
  peerCidAvailable : Nat := 0
  events : Nat := 0
  deriving Repr, DecidableEq

/-- `QuicConnection.close()` -/
def St.close (s : St) (code : Nat) : St :=
  if s.closeEvent.isNone ∧ ¬ s.state.isEnd then { s with closeEvent := some code, closePending := true } else s

/-- `_close_begin` -/
def St.closeBegin (s : St) (initiator : Bool) : St :=
  { s with closeAtSet := true, state := if initiator then .closing else .draining }

/-- `_close_end` (the `_discard_epoch` loop runs over `_spaces.keys()`: empty when
    not initialised, and `discard_space`'s `assert space in self.spaces` holds
    because `_initialize` installs `_loss.spaces = list(self._spaces.values())`) -/
def St.closeEnd (s : St) : St :=
  { s with closeAtSet := false, state := .terminated, events := s.events + 1 }

/-- effect of a list-instance frame on the connection state -/
def FrameIn.effect (f : FrameIn) (s : St) : St :=
  match f.handler, f.closes with
  | .ok (), some code =>
    if s.closeEvent.isNone then ({ s with closeEvent := some code }).closeBegin false else s
  | _, _ => s

def listHandlers : Handlers (St × List FrameIn) where
  eof := fun s => s.2.isEmpty
  pullType := fun s =>
    match s.2 with
    | [] => (.error .bufferRead, s)
    | f :: _ => (f.ftype, s)
  run := fun _ _ _ s =>
    match s.2 with
    | [] => (.ok (), s)
    | f :: rest => (f.handler, (f.effect s.1, rest))

/-- a frame whose type could not be pulled ends the loop: drop it from the list
    view (the loop never looks at the buffer again) -/
def runFrames (s : St) (epoch : Epoch) (cryptoRequired : Bool) (fs : List FrameIn) :
    St × Outcome (Bool × Bool) :=
  let (r, s') := payloadReceived listHandlers epoch cryptoRequired (fs.length + 1) (s, fs)
  (s'.1, r)

/-! ## `receive_datagram` -/

inductive PType where
  | initial | zeroRtt | handshake | retry | versionNegotiation | oneRtt
  deriving DecidableEq, Repr, Inhabited

/-- `get_epoch` -/
def getEpoch : PType → Epoch
  | .initial => .initial
  | .zeroRtt => .zeroRtt
  | .handshake => .handshake
  | _ => .oneRtt

/-- what `receive_datagram` reads of a parsed header -/
structure Hdr where
  ptype : PType
  /-- `header.version in configuration.supported_versions` (long headers) -/
  versionSupported : Bool := true
  /-- the destination CID is one of `_host_cids` -/
  dcidKnown : Bool := true
  /-- the destination CID differs from `self.host_cid` -/
  dcidNotCurrent : Bool := false
  /-- Retry: `destination_cid == host_cid` and the integrity tag verifies -/
  retryValid : Bool := false
  /-- Version Negotiation: lists the version in use / first common version exists -/
  vnHasCurrent : Bool := false
  vnHasCommon : Bool := false
  /-- Version Negotiation: `header.source_cid == self._peer_cid.cid` (RFC 9000 §17.2.1: the
      packet echoes the Destination Connection ID of our Initial) -/
  vnEcho : Bool := false
  deriving Repr

/-- decrypt oracle (`crypto.decrypt_packet`) -/
inductive Dec (π : Type) where
  | keyUnavailable
  | cryptoError
  | other (e : Err)
  | ok (duplicate reservedBits : Bool) (payload : π)
        -- read only on the path on which `is_ack_eliciting`/`is_probing` are used:
        (pathIdxNonzero spaceDiscarded : Bool)

structure Pkt (π : Type) where
  hdr : Outcome Hdr
  dec : Dec π

inductive RxOut where
  | ignored | processed | closed (code : Nat) | raised (cls : String)
  deriving DecidableEq, Repr

/-- `_connect` (Retry / Version Negotiation restart): `_initialize` again -/
def St.reconnect (s : St) : St := { s with closeAtSet := true, initialized := true }

/-- one iteration of the `while not buf.eof()` loop of `receive_datagram`:
    `stop` = the function returned (or an exception of class `esc` escaped),
    `next` = `continue` / fell through to the next coalesced packet;
    `pr` records whether a payload was handled -/
inductive Step where
  | stop (s : St) (pr : Bool) (esc : Option String)
  | next (s : St) (pr : Bool)

/-- `if self._state == FIRSTFLIGHT: … self._set_state(CONNECTED)` -/
def St.connectIfFirst (s : St) : St :=
  if s.state = .firstflight then { s with state := .connected } else s

/-- bookkeeping after the payload: idle timer, network path, ack queue -/
def St.recordPacket (s : St) : St :=
  let s := { s with closeAtSet := true }
  if s.nPaths = 0 then { s with nPaths := 1 } else s

/-- `change_connection_id()`: with a spare peer connection ID, retire the current one and take
    the next; what happens without one, and whether anything is raised at all, is read off the
    source (`AQ.Gen.Recv.changeCidRaises`, extracted from the function body on every run). -/
def changeConnectionId (s : St) : Except String St :=
  let situation := if s.peerCidAvailable = 0 then "empty" else "available"
  match changeCidRaises.find? (fun r => r.1 == situation || r.1 == "always") with
  | some (_, cls) => .error cls
  | none =>
    if s.peerCidAvailable = 0 then .ok s
    else .ok { s with peerCidAvailable := s.peerCidAvailable - 1 }

/-- the "handle migration" block of `receive_datagram`:
    `if not self._is_client and context.host_cid != self.host_cid and epoch == ONE_RTT:
         self.host_cid = context.host_cid; self.change_connection_id()`
    — an application-level API called from inside the receive path; its exceptions are NOT
    caught there. -/
def migrationStep (s : St) (migrate : Bool) : Except String St :=
  if migrate then changeConnectionId s else .ok s

/-- idle timer, migration, network path, ack queue -/
def finishPacket (s : St) (migrate : Bool) : Step :=
  let s := { s with closeAtSet := true }
  match migrationStep s migrate with
  | .error cls => .stop s true (some cls)
  | .ok s => .next s.recordPacket true

/-- from `except QuicConnectionError` to the end of the loop body -/
def afterPayload (s : St) (r : Outcome (Bool × Bool)) (idxNonzero discarded migrate : Bool) : Step :=
  match r with
  | .error e =>
    -- except QuicConnectionError as exc: self.close(...)
    match catchAction "receive_datagram" "_payload_received" e, e with
    | some .close, .conn c =>
      let s := s.close c
      if s.state.isEnd ∨ s.closePending then .stop s true none else
      -- `is_probing` / `is_ack_eliciting` are unbound when the payload raised
      if idxNonzero ∨ ¬ discarded then .stop { s with closeAtSet := true } true (some "UnboundLocalError") else
      finishPacket s migrate
    | _, _ => .stop s true (some (errCls e))
  | .ok _ =>
    if s.state.isEnd ∨ s.closePending then .stop s true none else
    finishPacket s migrate

/-- everything after a successful `decrypt_packet` -/
def afterDecrypt {π : Type} (runPayload : St → Epoch → Bool → π → St × Outcome (Bool × Bool))
    (s : St) (epoch : Epoch) (cryptoRequired : Bool) (pr : Bool)
    (dup reserved : Bool) (payload : π) (idxNonzero discarded migrate : Bool) : Step :=
  if dup then .next s pr
  else if reserved then .stop (s.close PROTOCOL_VIOLATION) pr none
  else
    afterPayload (runPayload s.connectIfFirst epoch cryptoRequired payload).1
      (runPayload s.connectIfFirst epoch cryptoRequired payload).2 idxNonzero discarded migrate

def recvPacket {π : Type} (runPayload : St → Epoch → Bool → π → St × Outcome (Bool × Bool))
    (smallDatagram : Bool) (p : Pkt π) (s : St) (pr : Bool) : Step :=
  match p.hdr with
  | .error e =>
    match catchAction "receive_datagram" "pull_quic_header" e with
    | some .ret => .stop s pr none
    | _ => .stop s pr (some (errCls e))
  | .ok h =>
    if ¬ s.isClient ∧ h.ptype = .initial ∧ smallDatagram then .stop s pr none
    else if (s.isClient ∨ h.ptype = .handshake) ∧ ¬ h.dcidKnown then .stop s pr none
    else if h.ptype = .versionNegotiation then
      -- _receive_version_negotiation_packet
      if s.isClient ∧ s.state = .firstflight ∧ ¬ s.vnDone ∧ h.vnEcho then
        if h.vnHasCurrent then .stop s pr none
        else if ¬ h.vnHasCommon then .stop ({ s with closeEvent := some 1 }).closeEnd true none
        else .stop ({ s with vnDone := true }).reconnect true none
      else .stop s pr none
    else if h.ptype ≠ .oneRtt ∧ ¬ h.versionSupported then .stop s pr none
    else if h.ptype = .retry then
      -- _receive_retry_packet
      if s.isClient ∧ s.retryCount = 0 ∧ h.retryValid then
        .stop ({ s with retryCount := 1 }).reconnect true none
      else .stop s pr none
    else
      -- server initialisation
      if ¬ s.isClient ∧ s.state = .firstflight ∧ h.ptype ≠ .initial then .stop s pr none else
      let cryptoRequired : Bool := ¬ s.isClient ∧ s.state = .firstflight
      let s := if cryptoRequired then { s with nPaths := 1, initialized := true } else s
      -- crypto = self._cryptos_initial[version] / self._cryptos[epoch]; space = self._spaces[...]
      if ¬ s.initialized then .stop s pr (some "KeyError") else
      let epoch := getEpoch h.ptype
      match p.dec with
      | .keyUnavailable =>
        match catchCls "receive_datagram" "decrypt_packet" "KeyUnavailableError" with
        | some .cont => .next s pr
        | _ => .stop s pr (some "KeyUnavailableError")
      | .cryptoError =>
        match catchCls "receive_datagram" "decrypt_packet" "CryptoError" with
        | some .cont => .next s pr
        | _ => .stop s pr (some "CryptoError")
      | .other e => .stop s pr (some (errCls e))
      | .ok dup reserved payload idxNonzero discarded =>
        afterDecrypt runPayload s epoch cryptoRequired pr dup reserved payload idxNonzero discarded
          (decide (¬ s.isClient ∧ h.dcidNotCurrent ∧ epoch = .oneRtt))

def recvLoop {π : Type} (runPayload : St → Epoch → Bool → π → St × Outcome (Bool × Bool))
    (smallDatagram : Bool) : List (Pkt π) → St → Bool → St × Bool × Option String
  | [], s, pr => (s, pr, none)
  | p :: rest, s, pr =>
    match recvPacket runPayload smallDatagram p s pr with
    | .stop s pr esc => (s, pr, esc)
    | .next s pr => recvLoop runPayload smallDatagram rest s pr

/-- outcome class of the call, from the state before / after the loop -/
def classify (s s1 : St) (pr : Bool) (esc : Option String) : RxOut :=
  match esc with
  | some cls => .raised cls
  | none =>
    match s.closeEvent, s1.closeEvent with
    | none, some c => .closed c
    | _, _ => if pr then .processed else .ignored

def receiveDatagram {π : Type} (runPayload : St → Epoch → Bool → π → St × Outcome (Bool × Bool))
    (smallDatagram : Bool) (pkts : List (Pkt π)) (s : St) : St × RxOut :=
  if s.state.isEnd then (s, .ignored) else
  -- network_path bookkeeping; `if self._close_at is None: self._close_at = now + idle`
  let r := recvLoop runPayload smallDatagram pkts { s with closeAtSet := true } false
  (r.1, classify s r.1 r.2.1 r.2.2)

/-! ## `_alpn_handler`: compatible version negotiation (server) -/

/-- `is_version_compatible`: v1 ↔ v2 only -/
def versionCompatible (a b : Nat) : Bool := (a == 1 && b == 0x6B3343CF) || (a == 0x6B3343CF && b == 1)

/-- the `for version in self._remote_version_information.available_versions` loop of
    `_alpn_handler` (a TLS callback, i.e. inside `receive_datagram`): stay on the current version,
    or switch to the first compatible one — `self._cryptos[INITIAL] = self._cryptos_initial[version]`,
    a dict keyed by `configuration.supported_versions`.  Whether the `elif` tests
    `version in supported_versions` is read off the source (`alpnLookupGuarded`). -/
def selectVersion (supported : List Nat) (current : Nat) : List Nat → Outcome (Option Nat)
  | [] => .ok none
  | v :: rest =>
    if v = current then .ok none
    else if (! alpnLookupGuarded || supported.contains v) && versionCompatible current v then
      if supported.contains v then .ok (some v) else .error (.py .key)
    else selectVersion supported current rest

/-! ## The other four public calls -/

/-- `get_timer()`: `timer_at = self._close_at`; the ack / loss / pacing deadlines are compared
    with it only `if timer_at is not None and self._state not in END_STATES`.  Result: whether a
    deadline is reported. -/
def getTimer (s : St) : Except String Bool := .ok s.closeAtSet

/-- `handle_timer(now)`; `due` = `now >= self._close_at` -/
def handleTimer (s : St) (due : Bool) : Except String St :=
  if ¬ s.closeAtSet then .ok s                       -- if self._close_at is None: return
  else if due then
    let s := if s.closeEvent.isNone then { s with closeEvent := some 1 } else s
    .ok s.closeEnd
  else .ok s

/-- outcomes of the frame writers called by `datagrams_to_send` -/
structure Writers where
  /-- `QuicPacketBuilder.start_packet(...)` — called first inside each of the three `try` blocks
      (directly in the close loop, through `_write_handshake` / `_write_application` otherwise):
      header-size check (`QuicPacketBuilderStop`) then `buf.seek(packet_start + header_size)`, which
      raises `BufferReadError` when the header (CIDs + Initial token from Retry / NEW_TOKEN) would
      not fit; model + proof that it does not: AQ.Model.Builder.startPacket, AQ.Props.C05Send -/
  startPacket : Outcome Unit := .ok ()
  /-- `_write_connection_close_frame` (QuicPacketBuilderStop for an oversized reason, C16) -/
  closeFrame : Outcome Unit := .ok ()
  /-- `_write_handshake` (C12/C13) -/
  handshake : Outcome Unit := .ok ()
  /-- `_write_application` (C12/C13) -/
  application : Outcome Unit := .ok ()

/-- a `try: <writer> except QuicPacketBuilderStop: pass` of `datagrams_to_send` -/
def guardWriter (g : String) (o : Outcome Unit) : Option String :=
  match o with
  | .ok () => none
  | .error e =>
    match catchAction "datagrams_to_send" g e with
    | some .pass => none
    | _ => some (errCls e)

/-- one `try: builder.start_packet(...); <write frames>  except QuicPacketBuilderStop: pass` -/
def guardBlock (g : String) (startPacket frames : Outcome Unit) : Option String :=
  match startPacket with
  | .ok () => guardWriter g frames
  | .error _ => guardWriter g startPacket

/-- the close path: `for epoch …: builder.start_packet(...); self._write_connection_close_frame(...)`.
    Whether `start_packet` sits inside the `try … except QuicPacketBuilderStop` is read off the source
    (`closeStartPacketGuarded`); outside it, a `QuicPacketBuilderStop` (no room for a packet header:
    anti-amplification budget used up) escapes `datagrams_to_send`. -/
def closeBlock (startPacket frames : Outcome Unit) : Option String :=
  if closeStartPacketGuarded then guardBlock "_write_connection_close_frame" startPacket frames
  else match startPacket with
    | .ok () => guardWriter "_write_connection_close_frame" frames
    | .error e => some (errCls e)

def datagramsToSend (s : St) (w : Writers) : Except String St :=
  if s.state.isEnd then .ok s
  else if s.nPaths = 0 then .ok s                                  -- if not self._network_paths: return []
  else if s.closePending then
    if ¬ s.initialized then .error "KeyError"                    -- self._cryptos[epoch]
    else match closeBlock w.startPacket w.closeFrame with
      | some cls => .error cls
      | none => .ok (({ s with closePending := false }).closeBegin true)
  else
    if ¬ s.initialized then .error "KeyError"                    -- self._cryptos[epoch] in _write_handshake
    else match guardBlock "_write_handshake" w.startPacket w.handshake with
      | some cls => .error cls
      | none =>
        match guardBlock "_write_application" w.startPacket w.application with
        | some cls => .error cls
        | none => .ok s

/-- `next_event()`: `popleft` guarded by `except IndexError: return None` -/
def nextEvent (s : St) : Except String St :=
  if s.events = 0 then
    match catchAction "next_event" "popleft" (.py .index) with
    | some .ret => .ok s
    | _ => .error "IndexError"
  else .ok { s with events := s.events - 1 }

end AQ.Recv
