/-
  Model of aioquic/quic/packet_builder.py (`QuicPacketBuilder`): the byte
  arithmetic of datagram assembly — capacities, flight / total budgets,
  header sizes, padding decisions, per-datagram and total counters.

  What is NOT modelled (inputs / trusted facts checked by the correspondence):
    * the bytes themselves: the buffer is its write position `tell`; the real
      `Buffer(max_datagram_size)` raises `BufferWriteError` past its capacity
      and `BufferReadError` on an out-of-range `seek`, both are outcomes here;
    * `CryptoPair.encrypt_packet` returns `len(header)+len(payload)+tag` bytes
      (AEAD tag appended, header protection is length preserving);
    * frame bodies: the caller's writes between `start_frame` calls are the op
      `pushBytes n`.

  The model follows the code WITH the proposed fixes
    fixes/C13-initial-padding.diff   (`padGuard`: start_frame refuses a frame that would
                                      make the datagram need padding it cannot get)
    fixes/C13-min-payload.diff       (`effCap`: the first frame of a packet reserves the
                                      2-byte minimum payload _end_packet pads to)
  applied.  `discB` is the executable form of the caller discipline under which
  AQ/Proofs/Builder.lean proves the invariants.
-/
import AQ.Base.Basic

namespace AQ.Builder
open AQ

inductive PType where
  | initial | handshake | zeroRtt | oneRtt
deriving Repr, DecidableEq, Inhabited

/-- constants of packet_builder.py / configuration.py -/
def PACKET_NUMBER_MAX_SIZE : Nat := 4
def PACKET_NUMBER_SEND_SIZE : Nat := 2
def SMALLEST_MAX_DATAGRAM_SIZE : Nat := 1200
def MIN_PAYLOAD : Nat := PACKET_NUMBER_MAX_SIZE - PACKET_NUMBER_SEND_SIZE

/-- buffer.size_uint_var (values ≥ 2^62 raise ValueError in push_uint_var) -/
def sizeUintVar (v : Nat) : Nat :=
  if v ≤ 0x3F then 1 else if v ≤ 0x3FFF then 2 else if v ≤ 0x3FFFFFFF then 4 else 8

/-- packet.NON_ACK_ELICITING_FRAME_TYPES = {PADDING, ACK, ACK_ECN, TRANSPORT_CLOSE, APPLICATION_CLOSE} -/
def nonAckEliciting (ft : Nat) : Bool := ft = 0x00 || ft = 0x02 || ft = 0x03 || ft = 0x1c || ft = 0x1d
/-- packet.NON_IN_FLIGHT_FRAME_TYPES = {ACK, ACK_ECN, TRANSPORT_CLOSE, APPLICATION_CLOSE} -/
def nonInFlight (ft : Nat) : Bool := ft = 0x02 || ft = 0x03 || ft = 0x1c || ft = 0x1d
def isCryptoFrame (ft : Nat) : Bool := ft = 0x06

/-- constructor arguments that matter for sizes -/
structure Cfg where
  isClient : Bool
  maxDatagramSize : Nat
  peerCidLen : Nat
  hostCidLen : Nat
  tokenLen : Nat
  /-- `CryptoPair.aead_tag_size` -/
  tag : Nat := 16
  /-- `builder.max_flight_bytes`, `builder.max_total_bytes` as set by
      `datagrams_to_send` right after construction -/
  maxFlight : Option Int := none
  maxTotal : Option Int := none
deriving Repr, Inhabited

def headerSize (c : Cfg) : PType → Nat
  | .oneRtt => 3 + c.peerCidLen
  | .initial => 11 + c.peerCidLen + c.hostCidLen + sizeUintVar c.tokenLen + c.tokenLen
  | _ => 11 + c.peerCidLen + c.hostCidLen

/-- QuicSentPacket (fields the builder sets) -/
structure Pkt where
  ptype : PType
  pn : Nat
  inFlight : Bool := false
  ackEliciting : Bool := false
  isCrypto : Bool := false
  sentBytes : Nat := 0
deriving Repr, DecidableEq, Inhabited

/-- a datagram handed out: its length, the packets inside (ghost) and the
    bytes the builder counted as in flight for it -/
structure Dgram where
  size : Nat
  pkts : List Pkt
  flight : Int
deriving Repr, Inhabited

structure St where
  cfg : Cfg
  datagrams : List Dgram := []          -- `_datagrams` (since the last flush())
  dgramFlightBytes : Int := 0           -- `_datagram_flight_bytes`
  dgramInit : Bool := true              -- `_datagram_init`
  needsPadding : Bool := false          -- `_datagram_needs_padding`
  packets : List Pkt := []              -- `_packets` (since the last flush())
  flightBytes : Int := 0                -- `_flight_bytes`
  totalBytes : Int := 0                 -- `_total_bytes`
  headerSize : Nat := 0                 -- `_header_size`
  packet : Option Pkt := none           -- `_packet`
  packetNumber : Nat := 0               -- `_packet_number`
  packetStart : Nat := 0                -- `_packet_start`
  tell : Nat := 0                       -- `_buffer.tell()`
  bufferCapacity : Int                  -- `_buffer_capacity`
  flightCapacity : Int                  -- `_flight_capacity`
  /-- ghost: packets already written into the current datagram -/
  curPkts : List Pkt := []
  /-- ghost: every datagram ever handed out by flush(), oldest first -/
  out : List Dgram := []
  /-- ghost: a frame was started in the current packet -/
  frameOpen : Bool := false
deriving Repr, Inhabited

def St.init (c : Cfg) (pn : Nat := 0) : St :=
  { cfg := c, packetNumber := pn, bufferCapacity := c.maxDatagramSize, flightCapacity := c.maxDatagramSize }

/-- outcome of one builder call -/
inductive Res where
  | ok
  | stop                 -- QuicPacketBuilderStop (state as left by the call)
  | err (e : Err)        -- any other exception (builder unusable afterwards)
  | misuse               -- call outside the modelled domain (no current packet)
deriving Repr, DecidableEq, Inhabited

def remainingBufferSpace (s : St) : Int := s.bufferCapacity - s.tell - s.cfg.tag
def remainingFlightSpace (s : St) : Int := s.flightCapacity - s.tell - s.cfg.tag

/-- `Buffer.push_bytes(bytes(n))` on the position -/
def push (s : St) (n : Nat) : Option St :=
  if s.tell + n > s.cfg.maxDatagramSize then none else some { s with tell := s.tell + n }

/-- the bytes `_flush_current_datagram` appends: `extra_bytes = flight_capacity - tell`
    when the datagram needs padding and that is positive -/
def flushPad (s : St) : Nat := if s.needsPadding then (s.flightCapacity - s.tell).toNat else 0

/-- `_flush_current_datagram` -/
def flushCurrentDatagram (s : St) : St × Res :=
  if s.tell = 0 then (s, .ok) else
    match push s (flushPad s) with
    | none => (s, .err .bufferWrite)
    | some s1 =>
      let fl : Int := s.dgramFlightBytes + flushPad s
      let d : Dgram := { size := s1.tell, pkts := s.curPkts, flight := fl }
      ({ s1 with
          datagrams := s.datagrams ++ [d],
          dgramFlightBytes := fl,
          flightBytes := s.flightBytes + fl,
          totalBytes := s.totalBytes + s1.tell,
          dgramInit := true,
          curPkts := [],
          tell := 0 }, .ok)

/-- `_end_packet`: does the datagram need padding once this packet is in it -/
def epNp (s : St) (p : Pkt) : Bool :=
  (s.cfg.isClient || p.ackEliciting) && p.ptype == .initial || s.needsPadding

/-- `_end_packet`: the padding goes inside this (1-RTT) packet -/
def epInside (s : St) (p : Pkt) : Bool := epNp s p && p.ptype == .oneRtt

/-- `_end_packet`: `padding_size` (0 when it is not positive).  `padding0` pads the
    payload to the minimum needed for header-protection sampling. -/
def epPad (s : St) (_p : Pkt) (inside : Bool) : Nat :=
  let padding0 : Int := (MIN_PAYLOAD : Int) + s.headerSize - ((s.tell : Int) - s.packetStart)
  let padding : Int := if inside && remainingFlightSpace s > padding0 then remainingFlightSpace s else padding0
  padding.toNat

/-- `_end_packet` (requires a current packet) -/
def endPacket (s : St) : St × Res :=
  match s.packet with
  | none => (s, .misuse)
  | some p =>
    if s.tell - s.packetStart > s.headerSize then
      let pad := epPad s p (epInside s p)
      -- push_bytes(padding); header written in place; seek(packet_start);
      -- push_bytes(encrypt(...)) which is packet_size + tag bytes long
      let fin := s.tell + pad + s.cfg.tag
      if fin > s.cfg.maxDatagramSize then (s, .err .bufferWrite) else
      let q : Pkt := { p with inFlight := p.inFlight || decide (pad > 0), sentBytes := fin - s.packetStart }
      -- (`self._packet = None` is the last statement of the method; nothing in
      -- between reads it, so the model clears it here)
      let s2 : St := { s with
        needsPadding := epNp s p && !epInside s p,
        tell := fin,
        packets := s.packets ++ [q],
        curPkts := s.curPkts ++ [q],
        dgramFlightBytes := if q.inFlight then s.dgramFlightBytes + q.sentBytes else s.dgramFlightBytes,
        packet := none, frameOpen := false }
      -- short header packets cannot be coalesced
      match (if p.ptype == .oneRtt then flushCurrentDatagram s2 else (s2, .ok)) with
      | (s3, .ok) => ({ s3 with packetNumber := s3.packetNumber + 1 }, .ok)
      | r => r
    else
      -- "cancel" the packet
      ({ s with tell := s.packetStart, packet := none, frameOpen := false }, .ok)

/-- "initialize datagram if needed" of `start_packet` -/
def dgInit (s : St) : St :=
  if s.dgramInit then
    let bc := match s.cfg.maxTotal with
      | some m => if m - s.totalBytes < s.bufferCapacity then m - s.totalBytes else s.bufferCapacity
      | none => s.bufferCapacity
    let fc := match s.cfg.maxFlight with
      | some m => if m - s.flightBytes < bc then m - s.flightBytes else bc
      | none => bc
    { s with bufferCapacity := bc, flightCapacity := fc, dgramFlightBytes := 0,
             dgramInit := false, needsPadding := false }
  else s

/-- the tail of `start_packet`: a fresh QuicSentPacket at the current position,
    `buf.seek(packet_start + header_size)` -/
def openPacket (s : St) (t : PType) : St :=
  { s with headerSize := headerSize s.cfg t,
           packet := some { ptype := t, pn := s.packetNumber },
           packetStart := s.tell,
           tell := s.tell + headerSize s.cfg t,
           frameOpen := false }

/-- `start_packet(packet_type, crypto)`.  `packet_start` is `buf.tell()`, or 0
    after `_flush_current_datagram()` — which leaves the buffer at 0, so it is
    the current position in both cases. -/
def startPacket (s : St) (t : PType) : St × Res :=
  -- finish previous datagram
  match (if s.packet.isSome then endPacket s else (s, .ok)) with
  | (s1, .ok) =>
    -- if there is too little space remaining, start a new datagram
    match (if s1.bufferCapacity - s1.tell < 128 then flushCurrentDatagram s1 else (s1, .ok)) with
    | (s2, .ok) =>
      -- initialize datagram if needed
      let s3 := dgInit s2
      -- check we have enough space
      if (s3.tell + headerSize s3.cfg t : Int) ≥ s3.bufferCapacity then (s3, .stop)
      else if s3.tell + headerSize s3.cfg t > s3.cfg.maxDatagramSize then (s3, .err .bufferRead)
      else (openPacket s3 t, .ok)
    | r => r
  | r => r

/-- `packet_is_empty` -/
def packetIsEmpty (s : St) : Bool := s.tell - s.packetStart ≤ s.headerSize

/-- [fix C13-min-payload] the first frame of a packet reserves the minimum payload -/
def effCap (s : St) (cap : Nat) : Nat := if packetIsEmpty s && cap < MIN_PAYLOAD then MIN_PAYLOAD else cap

/-- the QuicSentPacket flags `start_frame` sets -/
def frameFlags (p : Pkt) (ft : Nat) : Pkt :=
  { p with ackEliciting := p.ackEliciting || !nonAckEliciting ft,
           inFlight := p.inFlight || !nonInFlight ft,
           isCrypto := p.isCrypto || isCryptoFrame ft }

/-- "not enough room" test of `start_frame` -/
def noRoom (s : St) (ft cap : Nat) : Bool :=
  remainingBufferSpace s < effCap s cap || (!nonInFlight ft && remainingFlightSpace s < effCap s cap)

/-- [fix C13-initial-padding] the frame would make the datagram need padding
    which the flight capacity cannot give -/
def padGuard (s : St) (p : Pkt) (ft : Nat) : Bool :=
  p.ptype == .initial && (s.cfg.isClient || !nonAckEliciting ft)
    && s.flightCapacity < SMALLEST_MAX_DATAGRAM_SIZE

/-- `start_frame(frame_type, capacity)`; returns after `push_uint_var(frame_type)` -/
def startFrame (s : St) (ft cap : Nat) : St × Res :=
  match s.packet with
  | none => (s, .misuse)
  | some p =>
    if noRoom s ft cap then (s, .stop)
    else if padGuard s p ft then (s, .stop)
    else if ft ≥ 2 ^ 62 then (s, .err (.py .value))
    else
      match push s (sizeUintVar ft) with
      | none => (s, .err .bufferWrite)
      | some s1 => ({ s1 with packet := some (frameFlags p ft), frameOpen := true }, .ok)

/-- the caller writes `n` bytes of frame body into the returned buffer -/
def pushBytes (s : St) (n : Nat) : St × Res :=
  match s.packet with
  | none => (s, .misuse)
  | some _ =>
    match push s n with
    | none => (s, .err .bufferWrite)
    | some s1 => (s1, .ok)

/-- `flush()`; the returned lists are `datagrams` / `packets` of the pre-clear state -/
def flush (s : St) : St × Res :=
  let (s, r) := if s.packet.isSome then endPacket s else (s, .ok)
  match r with
  | .ok =>
    let (s, r) := flushCurrentDatagram s
    match r with
    | .ok => ({ s with out := s.out ++ s.datagrams, datagrams := [], packets := [] }, .ok)
    | r => (s, r)
  | r => (s, r)

inductive Op where
  | startPacket (t : PType)
  | startFrame (ft cap : Nat)
  | pushBytes (n : Nat)
  | flush
deriving Repr, DecidableEq, Inhabited

def step (s : St) : Op → St × Res
  | .startPacket t => startPacket s t
  | .startFrame ft cap => startFrame s ft cap
  | .pushBytes n => pushBytes s n
  | .flush => flush s

/-- executable form of the caller discipline (`AQ.Builder.Disciplined` in
    AQ/Proofs/Builder.lean; `discB_sound` relates the two).  The driver prints
    it for every call so that checks/c13.py can confirm on real connections that
    connection.py is a disciplined caller. -/
def endOkB (s : St) : Bool :=
  match s.packet with
  | none => true
  | some p => p.inFlight || !(s.tell > s.packetStart + s.headerSize) || s.tell ≥ s.packetStart + s.headerSize + MIN_PAYLOAD

def discB (s : St) : Op → Bool
  | .startPacket _ => endOkB s
  | .flush => endOkB s
  | .startFrame ft cap =>
    decide (ft < 2 ^ 62) && decide (sizeUintVar ft ≤ cap) &&
      (!nonInFlight ft || (match s.packet with | none => true | some p => !p.inFlight))
  | .pushBytes n =>
    match s.packet with
    | none => true
    | some p => s.frameOpen && decide ((s.tell + n + s.cfg.tag : Int) ≤ s.bufferCapacity) &&
        (!p.inFlight || decide ((s.tell + n + s.cfg.tag : Int) ≤ s.flightCapacity))

/-- run a call sequence; the builder is abandoned at the first exception other
    than QuicPacketBuilderStop (that is what `datagrams_to_send` does: the
    exception propagates to the caller) -/
def run (s : St) : List Op → St × Res
  | [] => (s, .ok)
  | op :: ops =>
    match step s op with
    | (s', .err e) => (s', .err e)
    | (s', _) => run s' ops

end AQ.Builder
