/-
  Model of aioquic/quic/recovery.py (QuicPacketRecovery, QuicPacketSpace,
  QuicPacketPacer) and congestion/{base,reno,cubic}.py.

  Floating point: the model is *generic in the arithmetic* `FArith F`.  Every
  float expression of the Python code is transcribed operation by operation
  over `F`; the driver instantiates `F := Float` (IEEE double, the same C
  arithmetic CPython uses) so the correspondence is bit-exact, while the
  theorems are proved for EVERY `F` and EVERY `FArith F` (no floating-point
  assumption at all), except the CUBIC window floor which states the two
  order facts it needs as explicit hypotheses.
-/
import AQ.Base.Basic
import AQ.Base.RangeSet

namespace AQ.Recovery
open AQ AQ.RangeSet

structure FArith (F : Type) where
  add : F → F → F
  sub : F → F → F
  mul : F → F → F
  div : F → F → F
  pow : F → F → F
  neg : F → F
  abs : F → F
  lt : F → F → Bool
  le : F → F → Bool
  eq : F → F → Bool
  ofNat : Nat → F
  ofInt : Int → F
  toInt : F → Int          -- Python int(x): truncation toward zero
  inf : F

namespace FArith
variable {F : Type} (A : FArith F)
/-- Python `max(a, b)` on floats: `b if b > a else a` -/
def pmax (a b : F) : F := if A.lt a b then b else a
/-- Python `min(a, b)`: `b if b < a else a` -/
def pmin (a b : F) : F := if A.lt b a then b else a
def ratio (n d : Nat) : F := A.div (A.ofNat n) (A.ofNat d)
end FArith

/-- QuicSentPacket (the fields recovery looks at) + a ghost identity `uid`
    naming the delivery handlers of this very packet object. -/
structure Pkt (F : Type) where
  pn : Nat
  sentBytes : Nat
  inFlight : Bool
  ackEliciting : Bool
  isCrypto : Bool
  sentTime : F
  uid : Nat

inductive Delivery where
  | acked | lost
deriving Repr, DecidableEq, Inhabited

/-- QuicRttMonitor -/
structure RttMon (F : Type) where
  increases : Nat := 0
  ready : Bool := false
  filteredMin : Option F := none
  sampleIdx : Nat := 0
  sampleMax : Option F := none
  sampleMin : Option F := none
  sampleTime : F
  samples : List F

def RttMon.init {F} (A : FArith F) : RttMon F :=
  { sampleTime := A.ofNat 0, samples := List.replicate 5 (A.ofNat 0) }

def RttMon.addRtt {F} (A : FArith F) (m : RttMon F) (rtt : F) : RttMon F :=
  let samples := m.samples.set m.sampleIdx rtt
  let idx := m.sampleIdx + 1
  let (idx, ready) := if idx ≥ 5 then (0, true) else (idx, m.ready)
  let m := { m with samples := samples, sampleIdx := idx, ready := ready }
  if ready then
    match samples with
    | [] => m
    | s0 :: rest =>
      let (mn, mx) := rest.foldl (fun (p : F × F) s =>
        if A.lt s p.1 then (s, p.2) else if A.lt p.2 s then (p.1, s) else p) (s0, s0)
      { m with sampleMax := some mx, sampleMin := some mn }
  else m

/-- `is_rtt_increasing`; returns (monitor, result) -/
def RttMon.isIncreasing {F} (A : FArith F) (m : RttMon F) (now rtt : F) : RttMon F × Bool :=
  if A.lt (A.add m.sampleTime (A.ratio 1 1000)) now then
    let m := m.addRtt A rtt
    let m := { m with sampleTime := now }
    if m.ready then
      match m.sampleMax, m.sampleMin with
      | some smax, some smin =>
        let fm := match m.filteredMin with
          | none => smax
          | some f => if A.lt smax f then smax else f
        let m := { m with filteredMin := some fm }
        let delta := A.sub smin fm
        if A.le fm (A.mul delta (A.ofNat 4)) then
          let m := { m with increases := m.increases + 1 }
          if m.increases ≥ 5 then (m, true) else (m, false)
        else if A.lt (A.ofNat 0) delta then ({ m with increases := 0 }, false)
        else (m, false)
      | _, _ => (m, false)
    else (m, false)
  else (m, false)

inductive Algo where
  | reno | cubic
deriving Repr, DecidableEq, Inhabited

/-- congestion controller state (union of the Reno and CUBIC fields) -/
structure CC (F : Type) where
  algo : Algo
  mds : Nat
  bytesInFlight : Int := 0
  cwnd : Int
  ssthresh : Option Int := none
  recoveryStart : F
  rttMon : RttMon F
  -- reno
  stash : Int := 0
  -- cubic
  rtt : F
  firstSlowStart : Bool := true
  startingCA : Bool := false
  K : F
  wEst : Int := 0
  cwndEpoch : Int := 0
  tEpoch : F
  wMax : Int
  lastAck : F

def CC.init {F} (A : FArith F) (algo : Algo) (mds : Nat) : CC F :=
  { algo := algo, mds := mds, cwnd := 10 * mds, recoveryStart := A.ofNat 0,
    rttMon := RttMon.init A, rtt := A.ratio 2 100, K := A.ofNat 0, tEpoch := A.ofNat 0,
    wMax := 10 * mds, lastAck := A.ofNat 0 }

/-- CubicCongestionControl.reset -/
def CC.cubicReset {F} (A : FArith F) (c : CC F) : CC F :=
  { c with cwnd := 10 * c.mds, ssthresh := none, firstSlowStart := true, startingCA := false,
           K := A.ofNat 0, wEst := 0, cwndEpoch := 0, tEpoch := A.ofNat 0, wMax := 10 * c.mds }

def betterCubeRoot {F} (A : FArith F) (x : F) : F :=
  let third := A.div (A.ofNat 1) (A.ofNat 3)
  if A.lt x (A.ofNat 0) then A.neg (A.pow (A.neg x) third) else A.pow x third

def CC.wCubic {F} (A : FArith F) (c : CC F) (t : F) : Int :=
  let wMaxSeg := A.div (A.ofInt c.wMax) (A.ofNat c.mds)
  let d := A.sub t c.K
  let target := A.add (A.mul (A.ratio 4 10) (A.pow d (A.ofNat 3))) wMaxSeg
  A.toInt (A.mul target (A.ofNat c.mds))

def CC.calcK {F} (A : FArith F) (c : CC F) : F :=
  let wMaxSeg := A.div (A.ofInt c.wMax) (A.ofNat c.mds)
  let epochSeg := A.div (A.ofInt c.cwndEpoch) (A.ofNat c.mds)
  betterCubeRoot A (A.div (A.sub wMaxSeg epochSeg) (A.ratio 4 10))

def CC.inSlowStart {F} (c : CC F) : Bool :=
  match c.ssthresh with
  | none => true
  | some s => decide (c.cwnd < s)

/-- `on_packet_acked` -/
def CC.onPacketAcked {F} (A : FArith F) (c : CC F) (now : F) (p : Pkt F) : CC F :=
  let c := { c with bytesInFlight := c.bytesInFlight - p.sentBytes }
  match c.algo with
  | .reno =>
    if A.le p.sentTime c.recoveryStart then c else
    if c.inSlowStart then { c with cwnd := c.cwnd + p.sentBytes }
    else
      let stash := c.stash + p.sentBytes
      let count := stash / c.cwnd           -- Python // on non-negative ints
      if count ≠ 0 then
        { c with stash := stash - count * c.cwnd, cwnd := c.cwnd + count * c.mds }
      else { c with stash := stash }
  | .cubic =>
    let c := { c with lastAck := p.sentTime }
    if c.inSlowStart then { c with cwnd := c.cwnd + p.sentBytes }
    else
      let c :=
        if c.firstSlowStart ∧ ¬ c.startingCA then
          let c := { c with firstSlowStart := false, wMax := c.cwnd, tEpoch := now,
                            cwndEpoch := c.cwnd, wEst := c.cwnd }
          { c with K := c.calcK A }
        else c
      let c :=
        if c.startingCA then
          let c := { c with startingCA := false, firstSlowStart := false, tEpoch := now,
                            cwndEpoch := c.cwnd, wEst := c.cwnd }
          { c with K := c.calcK A }
        else c
      let c := { c with wEst := A.toInt (A.add (A.ofInt c.wEst)
                    (A.mul (A.ofNat c.mds) (A.div (A.ofNat p.sentBytes) (A.ofInt c.cwnd)))) }
      let t := A.sub now c.tEpoch
      let wc := c.wCubic A (A.add t c.rtt)
      let target : Int :=
        if wc < c.cwnd then c.cwnd
        else if A.lt (A.mul (A.ratio 3 2) (A.ofInt c.cwnd)) (A.ofInt wc) then
          A.toInt (A.mul (A.ofInt c.cwnd) (A.ratio 3 2))
        else wc
      if c.wCubic A t < c.wEst then { c with cwnd := c.wEst }
      else
        { c with cwnd := A.toInt (A.add (A.ofInt c.cwnd)
            (A.mul (A.ofInt (target - c.cwnd)) (A.div (A.ofNat c.mds) (A.ofInt c.cwnd)))) }

/-- `on_packet_sent` -/
def CC.onPacketSent {F} (A : FArith F) (c : CC F) (p : Pkt F) : CC F :=
  let c := { c with bytesInFlight := c.bytesInFlight + p.sentBytes }
  match c.algo with
  | .reno => c
  | .cubic =>
    if A.eq c.lastAck (A.ofNat 0) then c
    else if A.le (A.ofNat 2) (A.sub p.sentTime c.lastAck) then c.cubicReset A else c

/-- `on_packets_expired` -/
def CC.onPacketsExpired {F} (c : CC F) (ps : List (Pkt F)) : CC F :=
  { c with bytesInFlight := ps.foldl (fun b p => b - p.sentBytes) c.bytesInFlight }

/-- `on_packets_lost` -/
def CC.onPacketsLost {F} (A : FArith F) (c : CC F) (now : F) (ps : List (Pkt F)) : CC F :=
  let c := { c with bytesInFlight := ps.foldl (fun b p => b - p.sentBytes) c.bytesInFlight }
  let lostLargest := ps.foldl (fun _ p => p.sentTime) (A.ofNat 0)
  if A.lt c.recoveryStart lostLargest then
    let c := { c with recoveryStart := now }
    match c.algo with
    | .reno =>
      let w := max (A.toInt (A.mul (A.ofInt c.cwnd) (A.ratio 1 2))) (2 * c.mds)
      { c with cwnd := w, ssthresh := some w }
    | .cubic =>
      let wMax := if c.cwnd < c.wMax then
          A.toInt (A.div (A.mul (A.ofInt c.cwnd) (A.add (A.ofNat 1) (A.ratio 7 10))) (A.ofNat 2))
        else c.cwnd
      let newSs := max (A.toInt (A.mul (A.ofInt c.bytesInFlight) (A.ratio 7 10))) (2 * c.mds)
      { c with wMax := wMax, ssthresh := some newSs, cwnd := max newSs (2 * c.mds), startingCA := true }
  else c

/-- `on_rtt_measurement` -/
def CC.onRttMeasurement {F} (A : FArith F) (c : CC F) (now rtt : F) : CC F :=
  let c := match c.algo with
    | .reno => c
    | .cubic => { c with rtt := rtt }
  if c.ssthresh.isNone then
    let (m, inc) := c.rttMon.isIncreasing A now rtt
    let c := { c with rttMon := m }
    if inc then { c with ssthresh := some c.cwnd } else c
  else c

/-- QuicPacketSpace (sent side) -/
structure Space (F : Type) where
  sent : List (Pkt F) := []       -- the `sent_packets` dict, insertion order, keys = pn
  aeInFlight : Int := 0
  largestAcked : Nat := 0
  lossTime : Option F := none
  ackAt : Option F := none

/-- `d[k] = v` on an insertion-ordered dict -/
def dictSet {F} (d : List (Pkt F)) (p : Pkt F) : List (Pkt F) :=
  if d.any (fun q => q.pn = p.pn) then d.map (fun q => if q.pn = p.pn then p else q) else d ++ [p]

structure Pacer (F : Type) where
  bucketMax : F
  bucketTime : F
  evaluationTime : F
  packetTime : Option F := none

/-- `QuicPacketPacer.update_rate` -/
def Pacer.updateRate {F} (A : FArith F) (pc : Pacer F) (mds : Nat) (cwnd : Int) (srtt : F) : Pacer F :=
  let rate := A.div (A.ofInt cwnd) (A.pmax srtt (A.ratio 1 1000000))
  let pt := A.pmax (A.ratio 1 1000000) (A.pmin (A.div (A.ofNat mds) rate) (A.ofNat 1))
  let bm := A.div (A.ofInt (max (2 * (mds : Int)) (min (cwnd / 4) (16 * mds)))) rate
  let pc := { pc with packetTime := some pt, bucketMax := bm }
  if A.lt bm pc.bucketTime then { pc with bucketTime := bm } else pc

/-- QuicPacketRecovery; `log` is the ghost list of delivery callbacks fired,
    newest first. -/
structure Rec (F : Type) where
  spaces : List (Space F)
  cc : CC F
  pacer : Pacer F
  ptoCount : Nat := 0
  rttInitial : F
  rttInitialized : Bool := false
  rttLatest : F
  rttMin : F
  rttSmoothed : F
  rttVariance : F
  maxAckDelay : F
  lastAeSent : F
  probes : Nat := 0               -- number of `_send_probe()` calls (ghost)
  log : List (Nat × Delivery) := []

def Rec.init {F} (A : FArith F) (algo : Algo) (mds : Nat) (nspaces : Nat) (rttInitial : F) : Rec F :=
  { spaces := List.replicate nspaces {}, cc := CC.init A algo mds,
    pacer := { bucketMax := A.ofNat 0, bucketTime := A.ofNat 0, evaluationTime := A.ofNat 0 },
    rttInitial := rttInitial, rttLatest := A.ofNat 0, rttMin := A.inf, rttSmoothed := A.ofNat 0,
    rttVariance := A.ofNat 0, maxAckDelay := A.ratio 25 1000, lastAeSent := A.ofNat 0 }

def Rec.setSpace {F} (r : Rec F) (i : Nat) (s : Space F) : Rec F :=
  { r with spaces := r.spaces.set i s }

/-- `on_packet_sent` -/
def onPacketSent {F} (A : FArith F) (r : Rec F) (i : Nat) (p : Pkt F) : Outcome (Rec F) :=
  match r.spaces[i]? with
  | none => .error (.py .index)
  | some s =>
    let s := { s with sent := dictSet s.sent p }
    let s := if p.ackEliciting then { s with aeInFlight := s.aeInFlight + 1 } else s
    let r := r.setSpace i s
    if p.inFlight then
      let r := if p.ackEliciting then { r with lastAeSent := p.sentTime } else r
      .ok { r with cc := r.cc.onPacketSent A p }
    else .ok r

/-- `_on_packets_lost` -/
def onPacketsLost {F} (A : FArith F) (r : Rec F) (i : Nat) (now : F) (ps : List (Pkt F)) : Rec F :=
  match r.spaces[i]? with
  | none => r
  | some s =>
    let s := ps.foldl (fun (s : Space F) p =>
      let s := { s with sent := s.sent.filter (fun q => q.pn ≠ p.pn) }
      if p.ackEliciting then { s with aeInFlight := s.aeInFlight - 1 } else s) s
    let r := r.setSpace i s
    let r := { r with log := (ps.map (fun p => (p.uid, Delivery.lost))).reverse ++ r.log }
    let lostCc := ps.filter (·.inFlight)
    if lostCc ≠ [] then
      let cc := r.cc.onPacketsLost A now lostCc
      { r with cc := cc, pacer := r.pacer.updateRate A cc.mds cc.cwnd r.rttSmoothed }
    else r

/-- the loop of `_detect_loss`: returns (lost packets, loss_time) -/
def detectLoop {F} (A : FArith F) (largestAcked : Nat) (timeThreshold lossDelay : F) :
    List (Pkt F) → List (Pkt F) → Option F → List (Pkt F) × Option F
  | [], lost, lt => (lost.reverse, lt)
  | p :: rest, lost, lt =>
    if p.pn > largestAcked then (lost.reverse, lt)
    else if p.pn + 3 ≤ largestAcked ∨ A.le p.sentTime timeThreshold then
      detectLoop A largestAcked timeThreshold lossDelay rest (p :: lost) lt
    else
      let plt := A.add p.sentTime lossDelay
      let lt := match lt with
        | none => some plt
        | some l => if A.lt plt l then some plt else some l
      detectLoop A largestAcked timeThreshold lossDelay rest lost lt

/-- `_detect_loss` -/
def detectLoss {F} (A : FArith F) (r : Rec F) (i : Nat) (now : F) : Rec F :=
  match r.spaces[i]? with
  | none => r
  | some s =>
    let base := if r.rttInitialized then A.pmax r.rttLatest r.rttSmoothed else r.rttInitial
    let lossDelay := A.mul (A.ratio 9 8) base
    let timeThreshold := A.sub now lossDelay
    let (lost, lt) := detectLoop A s.largestAcked timeThreshold lossDelay s.sent [] none
    let r := r.setSpace i { s with lossTime := lt }
    onPacketsLost A r i now lost

/-- insertion sort of packets by packet number (`sorted(keys)`) -/
def sortedByPn {F} (ps : List (Pkt F)) : List (Pkt F) :=
  ps.foldr (fun p acc =>
    let rec ins (p : Pkt F) : List (Pkt F) → List (Pkt F)
      | [] => [p]
      | q :: rest => if p.pn ≤ q.pn then p :: q :: rest else q :: ins p rest
    ins p acc) []

structure AckAcc (F : Type) where
  r : Rec F
  s : Space F
  isAe : Bool := false
  largestNewly : Option Nat := none
  largestSentTime : Option F := none

/-- `on_ack_received(ack_rangeset, ack_delay, now, space)` -/
def onAckReceived {F} (A : FArith F) (r : Rec F) (i : Nat) (rs : List Rg) (ackDelay now : F) :
    Outcome (Rec F) :=
  match r.spaces[i]?, bounds rs with
  | none, _ => .error (.py .index)
  | _, none => .error (.py .index)
  | some s, some b =>
    let largestAcked : Int := (b.stop : Int) - 1
    let s := if largestAcked > s.largestAcked then { s with largestAcked := largestAcked.toNat } else s
    let acc : AckAcc F := { r := r, s := s }
    let acc := (sortedByPn s.sent).foldl (fun (acc : AckAcc F) p =>
      if (p.pn : Int) > largestAcked then acc
      else if contains p.pn rs then
        let s := { acc.s with sent := acc.s.sent.filter (fun q => q.pn ≠ p.pn) }
        let s := if p.ackEliciting then { s with aeInFlight := s.aeInFlight - 1 } else s
        let r := if p.inFlight then { acc.r with cc := acc.r.cc.onPacketAcked A now p } else acc.r
        let r := { r with log := (p.uid, Delivery.acked) :: r.log }
        { r := r, s := s, isAe := acc.isAe || p.ackEliciting, largestNewly := some p.pn,
          largestSentTime := some p.sentTime }
      else acc) acc
    let r := acc.r.setSpace i acc.s
    match acc.largestNewly, acc.largestSentTime with
    | some ln, some lst =>
      let r :=
        if largestAcked = ln ∧ acc.isAe then
          let latest := A.sub now lst
          let ackDelay := A.pmin ackDelay r.maxAckDelay
          let rl := A.pmax latest (A.ratio 1 1000)
          let rmin := if A.lt rl r.rttMin then rl else r.rttMin
          let rl := if A.lt (A.add rmin ackDelay) rl then A.sub rl ackDelay else rl
          let r := { r with rttLatest := rl, rttMin := rmin }
          let r :=
            if !r.rttInitialized then
              { r with rttInitialized := true, rttVariance := A.div latest (A.ofNat 2), rttSmoothed := latest }
            else
              { r with
                rttVariance := A.add (A.mul (A.ratio 3 4) r.rttVariance)
                                     (A.mul (A.ratio 1 4) (A.abs (A.sub r.rttMin r.rttLatest))),
                rttSmoothed := A.add (A.mul (A.ratio 7 8) r.rttSmoothed) (A.mul (A.ratio 1 8) r.rttLatest) }
          let cc := r.cc.onRttMeasurement A now latest
          { r with cc := cc, pacer := r.pacer.updateRate A cc.mds cc.cwnd r.rttSmoothed }
        else r
      let r := detectLoss A r i now
      .ok { r with ptoCount := 0 }
    | _, _ => .ok r

/-- `_get_loss_space` : index of the space with the earliest loss_time -/
def getLossSpace {F} (A : FArith F) (r : Rec F) : Option Nat :=
  let rec go (i : Nat) (best : Option (Nat × F)) : List (Space F) → Option (Nat × F)
    | [] => best
    | s :: rest =>
      match s.lossTime with
      | none => go (i + 1) best rest
      | some t =>
        match best with
        | none => go (i + 1) (some (i, t)) rest
        | some (_, bt) => if A.lt t bt then go (i + 1) (some (i, t)) rest else go (i + 1) best rest
  (go 0 none r.spaces).map (·.1)

/-- `reschedule_data` -/
def rescheduleData {F} (A : FArith F) (r : Rec F) (now : F) : Rec F :=
  let n := r.spaces.length
  let r := (List.range n).foldl (fun (r : Rec F) i =>
    match r.spaces[i]? with
    | none => r
    | some s =>
      let ps := s.sent.filter (·.isCrypto)
      if ps ≠ [] then onPacketsLost A r i now ps else r) r
  { r with probes := r.probes + 1 }

/-- `on_loss_detection_timeout` -/
def onLossDetectionTimeout {F} (A : FArith F) (r : Rec F) (now : F) : Rec F :=
  match getLossSpace A r with
  | some i => detectLoss A r i now
  | none => rescheduleData A { r with ptoCount := r.ptoCount + 1 } now

/-- `discard_space` -/
def discardSpace {F} (r : Rec F) (i : Nat) : Outcome (Rec F) :=
  match r.spaces[i]? with
  | none => .error (.py .assertion)
  | some s =>
    let cc := r.cc.onPacketsExpired (s.sent.filter (·.inFlight))
    let s := { s with sent := [], ackAt := none, aeInFlight := 0, lossTime := none }
    .ok { (r.setSpace i s) with cc := cc, ptoCount := 0 }

/-- `get_probe_timeout` -/
def getProbeTimeout {F} (A : FArith F) (r : Rec F) : F :=
  if !r.rttInitialized then A.mul (A.ofNat 2) r.rttInitial
  else A.add (A.add r.rttSmoothed (A.pmax (A.mul (A.ofNat 4) r.rttVariance) (A.ratio 1 1000))) r.maxAckDelay

/-- `get_loss_detection_time` -/
def getLossDetectionTime {F} (A : FArith F) (r : Rec F) (peerValidated : Bool) : Option F :=
  match getLossSpace A r with
  | some i => (r.spaces[i]?).bind (·.lossTime)
  | none =>
    if !peerValidated ∨ (r.spaces.foldl (fun a s => a + s.aeInFlight) 0) > 0 then
      some (A.add r.lastAeSent (A.mul (getProbeTimeout A r) (A.ofNat (2 ^ r.ptoCount))))
    else none

end AQ.Recovery
