import AQ.Model.TlsCodec
/-
  Typed bodies of the TLS extensions tls.py understands: values, the bytes the
  `push_*` helpers write for them (RFC 8446 §4.2, RFC 6066 §3, RFC 7301 §3.1)
  and the decoder tls.py applies to a body of each shape.  Core Lean only.
-/
namespace AQ.TlsCodec
open AQ

/-- the typed values -/
inductive ExtVal where
  | keyShares (l : List (Nat × Bytes))
  | versions (l : List Nat)
  | u16s (l : List Nat)
  | pskModes (l : List Nat)
  | serverName (name : Bytes)
  | alpn (l : List Bytes)
  | empty
  | offeredPsks (ids : List (Bytes × Nat)) (binders : List Bytes)
  | u16 (v : Nat)
  | keyShare (g : Nat) (k : Bytes)
  | u32 (v : Nat)
deriving Repr, DecidableEq

def encKS (p : Nat × Bytes) : Bytes := beEnc 2 p.1 ++ opqEnc 2 p.2
def encId (p : Bytes × Nat) : Bytes := opqEnc 2 p.1 ++ beEnc 4 p.2

/-- `extension_data` of each typed value -/
def ExtVal.enc : ExtVal → Bytes
  | .keyShares l => listEnc 2 encKS l
  | .versions l => listEnc 1 (beEnc 2) l
  | .u16s l => listEnc 2 (beEnc 2) l
  | .pskModes l => listEnc 1 (beEnc 1) l
  | .serverName n => opqEnc 2 (beEnc 1 0 ++ opqEnc 2 n)
  | .alpn l => listEnc 2 (opqEnc 1) l
  | .empty => []
  | .offeredPsks ids bs => listEnc 2 encId ids ++ listEnc 2 (opqEnc 1) bs
  | .u16 v => beEnc 2 v
  | .keyShare g k => beEnc 2 g ++ opqEnc 2 k
  | .u32 v => beEnc 4 v

/-- the decoder `extBodyOK` runs for a body of this shape, returning the typed value -/
def ExtVal.dec : ExtVal → Dec ExtVal
  | .keyShares _ => fun bs => (list 2 (pairDec (uintBE 2) (opq 2)) bs).map fun p => (.keyShares p.1, p.2)
  | .versions _ => fun bs => (list 1 (uintBE 2) bs).map fun p => (.versions p.1, p.2)
  | .u16s _ => fun bs => (list 2 (uintBE 2) bs).map fun p => (.u16s p.1, p.2)
  | .pskModes _ => fun bs => (list 1 (uintBE 1) bs).map fun p => (.pskModes p.1, p.2)
  | .serverName _ => fun bs => (serverNameDec bs).map fun p => (.serverName p.1, p.2)
  | .alpn _ => fun bs => (list 2 (opq 1) bs).map fun p => (.alpn p.1, p.2)
  | .empty => fun bs => some (.empty, bs)
  | .offeredPsks _ _ => fun bs =>
    (pairDec (list 2 (pairDec (opq 2) (uintBE 4))) (list 2 (opq 1)) bs).map fun p => (.offeredPsks p.1.1 p.1.2, p.2)
  | .u16 _ => fun bs => (uintBE 2 bs).map fun p => (.u16 p.1, p.2)
  | .keyShare _ _ => fun bs => (pairDec (uintBE 2) (opq 2) bs).map fun p => (.keyShare p.1.1 p.1.2, p.2)
  | .u32 _ => fun bs => (uintBE 4 bs).map fun p => (.u32 p.1, p.2)

end AQ.TlsCodec
