/-
  Model of the connection-ID bookkeeping of aioquic/quic/connection.py,
  statement by statement, WITH THE PROPOSED FIXES fixes/C18-*.diff APPLIED
  (the behaviour of today's code is kept behind two quirk flags):

    _handle_new_connection_id_frame / _consume_peer_cid / _retire_peer_cid
    change_connection_id and the "handle migration" block of receive_datagram
    _handle_retire_connection_id_frame / _replenish_connection_ids
    the NEW_CONNECTION_ID / RETIRE_CONNECTION_ID sections of _write_application
    _on_new_connection_id_delivery / _on_retire_connection_id_delivery

  Peer-issued connection IDs are represented by their sequence numbers (the ID
  bytes and the stateless-reset token are stored but never inspected by the
  code modelled here).  Locally issued IDs are (sequence number, was_sent); the
  comparison `connection_id.cid == context.host_cid` is a comparison of
  sequence numbers (the IDs are fresh 8-byte random strings; assumption
  "distinct issued IDs", checked by the harness on every run).

  Inputs of a step that the property does not depend on are parameters
  (model nondeterminism): the number of CID frames that fit into the packet
  being built (`room`, QuicPacketBuilderStop after that), which tracked frame
  the loss recovery reports and how (C08 proves once-only delivery).

  Ghost state (no counterpart attribute; tied to the sent-packet table of the
  recovery object by the harness): `retireInflight` = sequence numbers carried
  by RETIRE_CONNECTION_ID frames in packets still tracked, `retireAcked`.
-/
import AQ.Base.Basic

namespace AQ.Cid
open AQ

def FRAME_ENCODING_ERROR : Nat := 0x7
def CONNECTION_ID_LIMIT_ERROR : Nat := 0x9
def PROTOCOL_VIOLATION : Nat := 0xA
def MAX_PENDING_RETIRES : Nat := 100
def CONNECTION_ID_MAX_SIZE : Nat := 20

/-- `QuicConnectionId` of `_host_cids` -/
structure HostCid where
  seq : Nat
  wasSent : Bool
deriving Repr, DecidableEq, Inhabited

structure Cfg where
  isClient : Bool
  /-- `_local_active_connection_id_limit` (constant 8 in the code) -/
  localLimit : Nat := 8
  /-- `_remote_active_connection_id_limit` once the peer's transport
      parameters are parsed (they are rejected when it is < 2) -/
  remoteLimit : Nat
  /-- today's code: `_consume_peer_cid` pops without looking (IndexError) -/
  quirkConsume : Bool := false
  /-- today's code: a NEW_CONNECTION_ID whose sequence number is below the
      known retire-prior-to is forgotten without a RETIRE_CONNECTION_ID -/
  quirkDropReordered : Bool := false
deriving Repr, DecidableEq, Inhabited

structure State where
  /-- `_peer_cid.sequence_number` -/
  peerCid : Nat := 0
  /-- `_peer_cid_available` (arrival order) -/
  peerAvailable : List Nat := []
  /-- `_peer_cid_sequence_numbers` -/
  peerSeen : List Nat := [0]
  /-- `_peer_retire_prior_to` -/
  peerRetirePriorTo : Nat := 0
  /-- `_retire_connection_ids` -/
  retireQueue : List Nat := []
  /-- `_host_cids` -/
  hostCids : List HostCid := [⟨0, true⟩]
  /-- `_host_cid_seq` -/
  hostSeq : Nat := 1
  /-- `host_cid`, as the sequence number of the issued ID it equals
      (`none`: an ID this endpoint never issued) -/
  hostCid : Option Nat := some 0
  /-- ghost: RETIRE_CONNECTION_ID frames in tracked (unacknowledged) packets -/
  retireInflight : List Nat := []
  /-- ghost: RETIRE_CONNECTION_ID frames acknowledged -/
  retireAcked : List Nat := []
deriving Repr, DecidableEq, Inhabited

/-- state after `__init__` (+ the first packet, which sets `_peer_cid.sequence_number = 0`
    before any frame is handled) -/
def State.init : State := {}

/-- result of a step: the state the object is left in, and the exception raised (if any) -/
abbrev Res := State × Option Err

/-! ## peer-issued IDs -/

/-- `_retire_peer_cid` -/
def retirePeerCid (s : State) (seq : Nat) : State :=
  { s with retireQueue := s.retireQueue ++ [seq] }

/-- `for quic_connection_id in retire: self._retire_peer_cid(quic_connection_id)` -/
def retireAll (s : State) (l : List Nat) : State :=
  { s with retireQueue := s.retireQueue ++ l }

/-- `_consume_peer_cid`: `self._peer_cid = self._peer_cid_available.pop(0)` -/
def consumePeerCid (s : State) : Outcome State :=
  match s.peerAvailable with
  | [] => .error (.py .index)
  | a :: rest => .ok { s with peerCid := a, peerAvailable := rest }

/-- `change_connection_id` -/
def localChange (s : State) : State :=
  match s.peerAvailable with
  | [] => s
  | a :: rest =>
    { s with retireQueue := s.retireQueue ++ [s.peerCid], peerCid := a, peerAvailable := rest }

/-- the "handle migration" block of `receive_datagram` for a packet whose
    destination ID is `via` (runs after the packet's frames were handled
    without error) -/
def peerSwitched (c : Cfg) (s : State) (via : Option Nat) : State :=
  if !c.isClient ∧ via ≠ s.hostCid then localChange { s with hostCid := via } else s

/-- the two final checks of `_handle_new_connection_id_frame` -/
def ncidLimitChecks (c : Cfg) (s : State) : Res :=
  if 1 + s.peerAvailable.length > c.localLimit then (s, some (.conn CONNECTION_ID_LIMIT_ERROR))
  else if s.retireQueue.length > min (c.localLimit * 4) MAX_PENDING_RETIRES then
    (s, some (.conn CONNECTION_ID_LIMIT_ERROR))
  else (s, none)

/-- `_handle_new_connection_id_frame`, from "only accept retire_prior_to if it
    is bigger" to the end of the loop "retire previous CIDs" -/
def ncidCore (c : Cfg) (s : State) (seq rpt : Nat) : State :=
  -- only accept retire_prior_to if it is bigger than the one we know
  let r := max rpt s.peerRetirePriorTo
  -- determine which CIDs to retire
  let retire := s.peerAvailable.filter (fun x => decide (x < r))
  let retire := if s.peerCid < r then s.peerCid :: retire else retire
  -- update available CIDs
  let avail := s.peerAvailable.filter (fun x => decide (r ≤ x))
  let fresh := !s.peerSeen.contains seq
  if fresh ∧ r ≤ seq then
    { s with peerRetirePriorTo := r, peerAvailable := avail ++ [seq], peerSeen := seq :: s.peerSeen,
             retireQueue := s.retireQueue ++ retire }
  else if fresh ∧ !c.quirkDropReordered then
    -- fix C18-retire-reordered-cid: retire it straight away, once
    { s with peerRetirePriorTo := r, peerAvailable := avail, peerSeen := seq :: s.peerSeen,
             retireQueue := s.retireQueue ++ (retire ++ [seq]) }
  else
    { s with peerRetirePriorTo := r, peerAvailable := avail, retireQueue := s.retireQueue ++ retire }

/-- "assign new CID if we retired the active one" and the two limit checks -/
def ncidFinish (c : Cfg) (s1 : State) (changeCid : Bool) : Res :=
  if changeCid then
    match s1.peerAvailable with
    | [] =>
      -- fix C18-no-replacement-cid: connection error instead of IndexError
      if c.quirkConsume then (s1, some (.py .index)) else (s1, some (.conn PROTOCOL_VIOLATION))
    | a :: rest => ncidLimitChecks c { s1 with peerCid := a, peerAvailable := rest }
  else ncidLimitChecks c s1

/-- `_handle_new_connection_id_frame` after the frame is parsed -/
def rxNewConnectionId (c : Cfg) (s : State) (seq rpt cidLen : Nat) : Res :=
  if cidLen = 0 ∨ cidLen > CONNECTION_ID_MAX_SIZE then (s, some (.conn FRAME_ENCODING_ERROR))
  else if rpt > seq then (s, some (.conn PROTOCOL_VIOLATION))
  else ncidFinish c (ncidCore c s seq rpt) (decide (s.peerCid < max rpt s.peerRetirePriorTo))

/-! ## locally issued IDs -/

/-- `while len(self._host_cids) < min(8, limit): append; seq += 1` (fuel = number of iterations) -/
def replenishLoop (target : Nat) : Nat → List HostCid → Nat → List HostCid × Nat
  | 0, hs, seq => (hs, seq)
  | fuel + 1, hs, seq =>
    if hs.length < target then replenishLoop target fuel (hs ++ [⟨seq, false⟩]) (seq + 1) else (hs, seq)

/-- `_replenish_connection_ids` -/
def replenish (c : Cfg) (s : State) : State :=
  let target := min 8 c.remoteLimit
  let (hs, seq) := replenishLoop target target s.hostCids s.hostSeq
  { s with hostCids := hs, hostSeq := seq }

/-- `del self._host_cids[index]` for the first entry with this sequence number -/
def delHost (seq : Nat) : List HostCid → List HostCid
  | [] => []
  | h :: t => if h.seq = seq then t else h :: delHost seq t

def hasHost (seq : Nat) (hs : List HostCid) : Bool := hs.any (fun h => h.seq == seq)

/-- `_handle_retire_connection_id_frame`; `via` = `context.host_cid` of the carrying packet -/
def rxRetire (c : Cfg) (s : State) (seq : Nat) (via : Option Nat) : Res :=
  if seq ≥ s.hostSeq then (s, some (.conn PROTOCOL_VIOLATION))
  else if hasHost seq s.hostCids then
    if via = some seq then (s, some (.conn PROTOCOL_VIOLATION))
    else (replenish c { s with hostCids := delHost seq s.hostCids }, none)
  else (replenish c s, none)

/-- the destination-CID check of `receive_datagram`: is an incoming packet
    addressed to the issued ID number `seq` recognised -/
def accepts (s : State) (seq : Nat) : Bool := hasHost seq s.hostCids

/-! ## sending -/

/-- NEW_CONNECTION_ID section of `_write_application`; returns remaining room
    and whether QuicPacketBuilderStop was raised -/
def writeNewCids : Nat → List HostCid → Nat × List HostCid × Bool
  | room, [] => (room, [], false)
  | room, h :: t =>
    if h.wasSent then
      let (r, t', st) := writeNewCids room t
      (r, h :: t', st)
    else match room with
      | 0 => (0, h :: t, true)
      | r + 1 =>
        let (r', t', st) := writeNewCids r t
        (r', { h with wasSent := true } :: t', st)

/-- RETIRE_CONNECTION_ID section: `for seq in queue[:]: write; queue.pop(0)`;
    returns (queue left, frames written) -/
def writeRetires : Nat → List Nat → List Nat × List Nat
  | _, [] => ([], [])
  | 0, q => (q, [])
  | r + 1, x :: q =>
    let (q', w) := writeRetires r q
    (q', x :: w)

/-- both sections for one packet; `room` start_frame calls succeed, the next raises -/
def writeCid (s : State) (room : Nat) : State :=
  let (r, hs, stop) := writeNewCids room s.hostCids
  if stop then { s with hostCids := hs }
  else
    let (q, w) := writeRetires r s.retireQueue
    { s with hostCids := hs, retireQueue := q, retireInflight := s.retireInflight ++ w }

/-- `_on_new_connection_id_delivery` for the frame that carried `seq` -/
def newCidDelivery (s : State) (seq : Nat) (acked : Bool) : State :=
  if acked then s
  else { s with hostCids := s.hostCids.map (fun h => if h.seq = seq then { h with wasSent := false } else h) }

/-- `_on_retire_connection_id_delivery` for a tracked frame that carried `seq` -/
def retireDelivery (s : State) (seq : Nat) (acked : Bool) : State :=
  if s.retireInflight.contains seq then
    let infl := s.retireInflight.erase seq
    if acked then { s with retireInflight := infl, retireAcked := seq :: s.retireAcked }
    else { s with retireInflight := infl, retireQueue := s.retireQueue ++ [seq] }
  else s

/-! ## operations -/

inductive Op where
  | rxNewConnectionId (seq rpt cidLen : Nat)
  | rxRetire (seq : Nat) (via : Option Nat)
  | localChange
  | peerSwitched (via : Option Nat)
  | writeCid (room : Nat)
  | retireDelivery (seq : Nat) (acked : Bool)
  | newCidDelivery (seq : Nat) (acked : Bool)
  | replenish
deriving Repr, DecidableEq, Inhabited

def step (c : Cfg) (s : State) : Op → Res
  | .rxNewConnectionId seq rpt n => rxNewConnectionId c s seq rpt n
  | .rxRetire seq via => rxRetire c s seq via
  | .localChange => (localChange s, none)
  | .peerSwitched via => (peerSwitched c s via, none)
  | .writeCid room => (writeCid s room, none)
  | .retireDelivery seq a => (retireDelivery s seq a, none)
  | .newCidDelivery seq a => (newCidDelivery s seq a, none)
  | .replenish => (replenish c s, none)

/-- run a history; the connection is closed by the first error (the state the
    failing step left behind is returned with it) -/
def run (c : Cfg) : State → List Op → Res
  | s, [] => (s, none)
  | s, op :: rest =>
    match step c s op with
    | (s', none) => run c s' rest
    | (s', some e) => (s', some e)

end AQ.Cid
