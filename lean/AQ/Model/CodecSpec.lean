/-
  The *independent* encoders: written from the RFC text (RFC 9000 §16–19,
  RFC 9368 §3, RFC 9369 §3), not from aioquic.  They are total functions on
  protocol values (no buffers, no exceptions) and use a generic n-byte
  network-order writer instead of the per-width shifts of `_buffer.c`.
  `AQ.Props.C17` proves the model's encoders equal these; `./check C17`
  compares the real encoders' bytes with these (ops `spec.*`).
-/
import AQ.Model.Codec
import AQ.Model.FrameCodec

namespace AQ.CodecSpec
open AQ AQ.Codec

/-- `n` bytes, most significant first (network byte order) -/
def beBytes : Nat → Nat → Bytes
  | 0, _ => []
  | n + 1, v => beBytes n (v / 256) ++ [UInt8.ofNat (v % 256)]

/-- RFC 9000 §16, Table 4: 2MSB `00` → 1 byte (6 usable bits), `01` → 2 bytes
    (14 bits), `10` → 4 bytes (30 bits), `11` → 8 bytes (62 bits) -/
def varintLenCode (v : Nat) : Nat :=
  if v < 2 ^ 6 then 0 else if v < 2 ^ 14 then 1 else if v < 2 ^ 30 then 2 else 3

/-- the encoding on `2^k` bytes: the two most significant bits hold `k`, the
    remaining bits hold the value in network byte order -/
def encVarintW (k v : Nat) : Bytes := beBytes (2 ^ k) (k * 2 ^ (8 * 2 ^ k - 2) + v)

/-- the shortest encoding -/
def encVarint (v : Nat) : Bytes := encVarintW (varintLenCode v) v

/-- RFC 9000 §19.3.1 ACK Ranges below the first one, highest first.  `smallest`
    is the smallest packet number of the preceding range.
    Gap = smallest − largest_of_this − 2;  ACK Range Length = largest − smallest of this. -/
def encAckRanges (smallest : Nat) : List Rg → Bytes
  | [] => []
  | r :: rest =>
    let largest := r.stop - 1
    encVarint (smallest - largest - 2) ++ encVarint (largest - r.start) ++ encAckRanges r.start rest

/-- RFC 9000 §19.3 ACK frame body (after the type byte, without ECN counts) for a
    set of acknowledged ranges `[start, stop)` given in ascending order:
    Largest Acknowledged, ACK Delay, ACK Range Count, First ACK Range, ACK Ranges. -/
def encAck (rs : List Rg) (delay : Nat) : Bytes :=
  match rs.reverse with
  | [] => []
  | r :: lower =>
    let largest := r.stop - 1
    encVarint largest ++ encVarint delay ++ encVarint lower.length ++ encVarint (largest - r.start)
      ++ encAckRanges r.start lower

/-- Long Packet Type bits: RFC 9000 §17.2 Table 5 (version 1) and RFC 9369 §3.2 (version 2) -/
def longTypeBits (version : Nat) : PType → Nat
  | .initial => if version = 0x6b3343cf then 0b01 else 0b00
  | .zeroRtt => if version = 0x6b3343cf then 0b10 else 0b01
  | .handshake => if version = 0x6b3343cf then 0b11 else 0b10
  | .retry => if version = 0x6b3343cf then 0b00 else 0b11
  | _ => 0

/-- RFC 9000 §17.2: Header Form (1) = 1, Fixed Bit (1) = 1, Long Packet Type (2),
    Type-Specific Bits (4) -/
def longFirstByte (version : Nat) (pt : PType) (low4 : Nat) : Nat :=
  128 + 64 + 16 * longTypeBits version pt + low4

/-- RFC 9000 §17.3.1: Header Form = 0, Fixed Bit = 1, Spin Bit, Reserved (2) = 0,
    Key Phase, Packet Number Length (2) = length − 1 -/
def shortFirstByte (spin keyPhase pnLen : Nat) : Nat :=
  64 + 32 * spin + 4 * keyPhase + (pnLen - 1)

/-- RFC 9000 §17.2 long header up to and including the packet number.  The
    Length field is written on `2^lengthCode` bytes (any varint width is
    allowed by §16; aioquic always uses 2 bytes). -/
def encLongHeader (version : Nat) (pt : PType) (dcid scid token : Bytes)
    (lengthCode length pnLen pn : Nat) : Bytes :=
  [UInt8.ofNat (longFirstByte version pt (pnLen - 1))] ++ beBytes 4 version
    ++ [UInt8.ofNat dcid.length] ++ dcid ++ [UInt8.ofNat scid.length] ++ scid
    ++ (if pt = .initial then encVarint token.length ++ token else [])
    ++ encVarintW lengthCode length ++ beBytes pnLen pn

/-- RFC 9000 §17.3.1 short header -/
def encShortHeader (spin keyPhase : Nat) (dcid : Bytes) (pnLen pn : Nat) : Bytes :=
  [UInt8.ofNat (shortFirstByte spin keyPhase pnLen)] ++ dcid ++ beBytes pnLen pn

/-- RFC 9000 §17.2.5 Retry packet: first byte (Unused low 4 bits), Version,
    DCID, SCID, Retry Token, Retry Integrity Tag (128 bits) -/
def encRetry (version : Nat) (dcid scid token tag : Bytes) (unused : Nat) : Bytes :=
  [UInt8.ofNat (longFirstByte version .retry unused)] ++ beBytes 4 version
    ++ [UInt8.ofNat dcid.length] ++ dcid ++ [UInt8.ofNat scid.length] ++ scid ++ token ++ tag

/-- RFC 9000 §17.2.1 Version Negotiation: Header Form = 1, Unused (7), Version = 0,
    DCID, SCID, Supported Version (32) … -/
def encVersionNegotiation (unused7 : Nat) (dcid scid : Bytes) (versions : List Nat) : Bytes :=
  [UInt8.ofNat (128 + unused7)] ++ beBytes 4 0
    ++ [UInt8.ofNat dcid.length] ++ dcid ++ [UInt8.ofNat scid.length] ++ scid
    ++ (versions.map (beBytes 4)).flatten

/-- RFC 9000 §18.2 preferred_address value: IPv4 Address (32), IPv4 Port (16),
    IPv6 Address (128), IPv6 Port (16), CID Length (8), CID, Stateless Reset
    Token (128); an absent family is all-zero address and port -/
def encPrefAddr (p : PrefAddr) : Bytes :=
  (match p.ipv4 with
   | some (h, port) => h ++ beBytes 2 port
   | none => List.replicate 6 0)
  ++ (match p.ipv6 with
   | some (h, port) => h ++ beBytes 2 port
   | none => List.replicate 18 0)
  ++ [UInt8.ofNat p.cid.length] ++ p.cid ++ p.token

/-- RFC 9368 §3 Version Information: Chosen Version (32), Available Versions (32) … -/
def encVersionInfo (v : VInfo) : Bytes :=
  beBytes 4 v.chosen ++ (v.available.map (beBytes 4)).flatten

/-- the value field of one transport parameter -/
def encParamValue : PVal → Bytes
  | .int n => encVarint n
  | .bytes b => b
  | .flag => []
  | .pref a => encPrefAddr a
  | .vinfo v => encVersionInfo v

/-- RFC 9000 §18: Transport Parameter ID (i), Length (i), Value (..) -/
def encParam (id : Nat) (v : PVal) : Bytes :=
  let value := encParamValue v
  encVarint id ++ encVarint value.length ++ value

/-- a sequence of transport parameters, in the order given -/
def encParams : List (Nat × PVal) → Bytes
  | [] => []
  | (id, v) :: rest => encParam id v ++ encParams rest

/-! ## Frames (RFC 9000 §19, RFC 9221 §4) -/

open AQ.Frame in
/-- the Length field of CRYPTO / STREAM frames: shortest varint, or `2^k` bytes
    when `lw = some k` (§16 allows any width; aioquic writes these two on 2 bytes) -/
def encLen (lw : Option Nat) (n : Nat) : Bytes :=
  match lw with
  | none => encVarint n
  | some k => encVarintW k n

def natRg (r : IRg) : Rg := ⟨r.start.toNat, r.stop.toNat⟩

open AQ.Frame in
/-- one frame: Type (i) then the fields of its §19.x layout.
    STREAM: type 0b00001XXX with OFF = 0x04, LEN = 0x02, FIN = 0x01 (§19.8). -/
def encFrameW (lw : Option Nat) : Frame → Bytes
  | .padding more => List.replicate (more + 1) 0
  | .ping => encVarint 0x01
  | .ack rs delay none => encVarint 0x02 ++ encAck (rs.map natRg) delay
  | .ack rs delay (some (a, b, c)) =>
    encVarint 0x03 ++ encAck (rs.map natRg) delay ++ encVarint a ++ encVarint b ++ encVarint c
  | .resetStream sid err final => encVarint 0x04 ++ encVarint sid ++ encVarint err ++ encVarint final
  | .stopSending sid err => encVarint 0x05 ++ encVarint sid ++ encVarint err
  | .crypto offset data => encVarint 0x06 ++ encVarint offset ++ encLen lw data.length ++ data
  | .newToken token => encVarint 0x07 ++ encVarint token.length ++ token
  | .stream sid offset data fin hasOff hasLen =>
    encVarint (0x08 + (if hasOff then 4 else 0) + (if hasLen then 2 else 0) + (if fin then 1 else 0))
      ++ encVarint sid ++ (if hasOff then encVarint offset else [])
      ++ (if hasLen then encLen lw data.length else []) ++ data
  | .maxData v => encVarint 0x10 ++ encVarint v
  | .maxStreamData sid v => encVarint 0x11 ++ encVarint sid ++ encVarint v
  | .maxStreams uni v => encVarint (if uni then 0x13 else 0x12) ++ encVarint v
  | .dataBlocked v => encVarint 0x14 ++ encVarint v
  | .streamDataBlocked sid v => encVarint 0x15 ++ encVarint sid ++ encVarint v
  | .streamsBlocked uni v => encVarint (if uni then 0x17 else 0x16) ++ encVarint v
  | .newConnectionId seq rpt cid token =>
    encVarint 0x18 ++ encVarint seq ++ encVarint rpt ++ [UInt8.ofNat cid.length] ++ cid ++ token
  | .retireConnectionId seq => encVarint 0x19 ++ encVarint seq
  | .pathChallenge d => encVarint 0x1a ++ d
  | .pathResponse d => encVarint 0x1b ++ d
  | .transportClose err ft reason =>
    encVarint 0x1c ++ encVarint err ++ encVarint ft ++ encVarint reason.length ++ reason
  | .applicationClose err reason => encVarint 0x1d ++ encVarint err ++ encVarint reason.length ++ reason
  | .handshakeDone => encVarint 0x1e
  | .datagram d hasLen => encVarint (if hasLen then 0x31 else 0x30) ++ (if hasLen then encVarint d.length else []) ++ d

/-- shortest encoding -/
def encFrame (f : AQ.Frame.Frame) : Bytes := encFrameW none f

def encFrames (lw : Option Nat) : List AQ.Frame.Frame → Bytes
  | [] => []
  | f :: fs => encFrameW lw f ++ encFrames lw fs

/-- quic/retry.py token plaintext: three `opaque<0..255>` vectors (RFC 8446 §3.4 notation) -/
def encRetryTokenPlain (addr odcid rscid : Bytes) : Bytes :=
  [UInt8.ofNat addr.length] ++ addr ++ [UInt8.ofNat odcid.length] ++ odcid ++ [UInt8.ofNat rscid.length] ++ rscid

end AQ.CodecSpec
