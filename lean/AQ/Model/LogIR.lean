/-
  Log IR: the slice of aioquic that mentions the qlog logger / the secrets log,
  as emitted by tools/extract_log.py (AQ/Gen/LogProgram.lean), with an
  executable semantics.  Core Lean only.

  Two classes of locations:
    * `Loc.P n`  protocol state (everything a connection *does* depends on)
    * `Loc.L n`  log-only state: the logger objects, `quic_logger_frames`
                 lists, `secrets_log_file`, locals that exist only for logging.
  "Logging on" and "logging off" are two initial states that agree on every
  `P` location and differ on `L` locations (`_quic_logger` is an object or None).

  Everything the IR does not interpret is a parameter of the semantics
  (`Sem`): the function computed by each expression, whether a partial
  operation fails, what an opaque protocol statement does.  Theorems quantify
  over all `Sem`.
-/
namespace AQ.LogIR

inductive Loc where
  | P (n : Nat)
  | L (n : Nat)
deriving DecidableEq, Repr

def Loc.isP : Loc → Bool
  | .P _ => true
  | .L _ => false

/-- An expression: an uninterpreted function (identified by `fn`) of the
    locations it reads. -/
structure Expr where
  fn : Nat
  reads : List Loc
deriving DecidableEq, Repr

def Expr.low (e : Expr) : Bool := e.reads.all Loc.isP

/-- abrupt completion -/
inductive Tag where
  | brk | cont | ret
  | exc (n : Nat)
deriving DecidableEq, Repr

inductive Stmt where
  | skip
  | seq (a b : Stmt)
  /-- opaque protocol statement mentioning no log name; `mk` is a marker used
      by the path analysis (0 = none) -/
  | low (id : Nat) (mk : Nat)
  /-- `t := e` (also: a mutating method call on `t`) -/
  | assign (t : Loc) (e : Expr)
  /-- `<trace>.log_event(event=ev, data=e)`: append to the trace's event deque -/
  | logEvent (ev : Nat) (e : Expr)
  /-- a partial operation not protected by a dominating guard: raises when
      `Sem.fails` says so -/
  | check (e : Expr)
  | ite (c : Expr) (t e : Stmt)
  /-- while / for: `c` is the loop condition (the iterator) -/
  | loop (c : Expr) (body : Stmt)
  /-- try / except: `catches` identifies the set of caught exceptions -/
  | try_ (body : Stmt) (catches : Nat) (handler : Stmt)
  | abrupt (tag : Tag)
  /-- call of an in-scope function (by id) -/
  | call (f : Nat)
deriving Repr

inductive Kind where
  | normal    -- ordinary function: body runs in protocol context
  | logOnly   -- encoder / log helper: may only touch log locations
deriving DecidableEq, Repr

structure FnDecl where
  id : Nat
  kind : Kind
  body : Stmt
deriving Repr

/-! ## semantics -/

variable {Val : Type}

abbrev State (Val : Type) := Loc → Val

inductive Res (Val : Type) where
  | normal (σ : State Val)
  | abrupt (t : Tag) (σ : State Val)

structure Sem (Val : Type) [Inhabited Val] where
  interp : Nat → List Val → Val
  truthy : Val → Bool
  fails : Nat → List Val → Option Nat          -- some n = raises exception n
  lowFn : Nat → State Val → State Val × Option Tag
  catches : Nat → Nat → Bool

variable [Inhabited Val]

/-- the protocol part of a state (log locations blanked) -/
def proj (σ : State Val) : State Val := fun l => if l.isP then σ l else default

def eval (S : Sem Val) (e : Expr) (σ : State Val) : Val := S.interp e.fn (e.reads.map σ)

def upd (σ : State Val) (t : Loc) (v : Val) : State Val := fun l => if l = t then v else σ l

/-- an opaque protocol statement sees and changes the protocol part only -/
def stepLow (S : Sem Val) (id : Nat) (σ : State Val) : Res Val :=
  let r := S.lowFn id (proj σ)
  let σ' : State Val := fun l => if l.isP then r.1 l else σ l
  match r.2 with
  | none => .normal σ'
  | some t => .abrupt t σ'

def iterate (cond : State Val → Bool) (body : State Val → Res Val) : Nat → State Val → Res Val
  | 0, σ => .normal σ
  | n + 1, σ =>
    if cond σ then
      match body σ with
      | .normal σ' => iterate cond body n σ'
      | .abrupt .cont σ' => iterate cond body n σ'
      | .abrupt .brk σ' => .normal σ'
      | r => r
    else .normal σ

/-- location of the trace's event deque -/
def eventsLoc : Loc := .L 0

/-- `exec fuel callee s σ`; loops run at most `fuel` iterations, `callee`
    gives the meaning of calls -/
def exec (S : Sem Val) (fuel : Nat) (callee : Nat → State Val → Res Val) : Stmt → State Val → Res Val
  | .skip, σ => .normal σ
  | .seq a b, σ =>
    match exec S fuel callee a σ with
    | .normal σ' => exec S fuel callee b σ'
    | r => r
  | .low id _, σ => stepLow S id σ
  | .assign t e, σ => .normal (upd σ t (eval S e σ))
  | .logEvent ev e, σ => .normal (upd σ eventsLoc (S.interp ev [σ eventsLoc, eval S e σ]))
  | .check e, σ =>
    match S.fails e.fn (e.reads.map σ) with
    | some n => .abrupt (.exc n) σ
    | none => .normal σ
  | .ite c t e, σ => if S.truthy (eval S c σ) then exec S fuel callee t σ else exec S fuel callee e σ
  | .loop c b, σ => iterate (fun σ => S.truthy (eval S c σ)) (exec S fuel callee b) fuel σ
  | .try_ b k h, σ =>
    match exec S fuel callee b σ with
    | .abrupt (.exc n) σ' => if S.catches k n then exec S fuel callee h σ' else .abrupt (.exc n) σ'
    | r => r
  | .abrupt t, σ => .abrupt t σ
  | .call f, σ =>
    match callee f σ with
    | .abrupt .ret σ' => .normal σ'
    | .abrupt .brk σ' => .normal σ'
    | .abrupt .cont σ' => .normal σ'
    | r => r

def lookup (prog : List FnDecl) (f : Nat) : Option FnDecl := prog.find? (·.id == f)

/-- meaning of function `f` with call depth at most `depth` -/
def fnSem (S : Sem Val) (prog : List FnDecl) (fuel : Nat) : Nat → Nat → State Val → Res Val
  | 0, _, σ => .normal σ
  | d + 1, f, σ =>
    match lookup prog f with
    | none => .normal σ
    | some decl => exec S fuel (fnSem S prog fuel d) decl.body σ

/-- a state with protocol part `σ` and log part `lg` -/
def withLog (σ lg : State Val) : State Val := fun l => if l.isP then σ l else lg l

/-- what a run *does*: how it completes (normally / which abrupt completion,
    e.g. which exception) and the protocol part of the final state -/
def outcome : Res Val → Option Tag × State Val
  | .normal σ => (none, proj σ)
  | .abrupt t σ => (some t, proj σ)

/-! ## typing (information flow: log ↛ protocol) -/

inductive Ctx where
  | proto | log
deriving DecidableEq, Repr

def kindOf (prog : List FnDecl) (f : Nat) : Option Kind := (lookup prog f).map (·.kind)

/-- `wt prog ctx s`: in context `ctx` statement `s` never lets log state
    influence protocol state or control, and never raises because of logging -/
def wt (prog : List FnDecl) : Ctx → Stmt → Bool
  | _, .skip => true
  | c, .seq a b => wt prog c a && wt prog c b
  | c, .low _ _ => c == .proto
  | c, .assign t e => if t.isP then c == .proto && e.low else true
  | _, .logEvent _ _ => true
  | c, .check e => c == .proto && e.low
  | c, .ite g t e => if g.low then wt prog c t && wt prog c e else wt prog .log t && wt prog .log e
  | c, .loop g b => if g.low then wt prog c b else wt prog .log b
  | c, .try_ b _ h => wt prog c b && wt prog c h
  | c, .abrupt _ => c == .proto
  | c, .call f =>
    match kindOf prog f with
    | some .logOnly => true
    | some .normal => c == .proto
    | none => false

def wtDecl (prog : List FnDecl) (d : FnDecl) : Bool :=
  match d.kind with
  | .normal => wt prog .proto d.body
  | .logOnly => wt prog .log d.body

def WellTyped (prog : List FnDecl) : Bool := prog.all (wtDecl prog)

/-! ## tables emitted next to the program -/

/-- a partial operation found in log code -/
structure PartialOp where
  fn : Nat             -- function id
  line : Nat
  kind : String        -- "decode" | "subscript" | "int" | "div" | "assert" | "optional-attr" | ...
  guarded : Bool       -- protected by a dominating guard / total by table / by type
  why : String
deriving Repr

/-- JSON-typedness of an encoder result, by constructor -/
inductive JTy where
  | int | float | str | bool | null
  | opt (t : JTy)
  | list (t : JTy)
  | dict (fields : List (String × JTy))
  | dictOf (t : JTy)             -- homogeneous dict with str keys
  | union (a b : JTy)
  | unknown (what : String)      -- not built from JSON constructors
deriving Repr

mutual
def JTy.ok : JTy → Bool
  | .int | .float | .str | .bool | .null => true
  | .opt t => t.ok
  | .list t => t.ok
  | .dict fs => okFields fs
  | .dictOf t => t.ok
  | .union a b => a.ok && b.ok
  | .unknown _ => false
def okFields : List (String × JTy) → Bool
  | [] => true
  | (_, t) :: r => t.ok && okFields r
end

/-! ## path analysis -/

/-- events along a control path -/
inductive Ev where
  | mark (m : Nat)       -- marker of an opaque protocol statement
  | log (ev : Nat)       -- a log_event call
deriving DecidableEq, Repr

structure Path where
  evs : List Ev
  fin : Option Tag       -- none = fell through
deriving Repr

def prefixes : List Ev → List (List Ev)
  | [] => [[]]
  | x :: r => [] :: (prefixes r).map (x :: ·)

/-- All control paths through a statement.  A *path* is one choice of branch at
    every `ite` (whatever its guard: logging on or off), zero or one iteration
    of every inner `loop`, for `try_` either the body completing or any prefix
    of a body path followed by a handler path; an `abrupt` statement ends the
    path.  Calls are not entered (callees are analysed on their own). -/
def paths : Stmt → List Path
  | .skip => [⟨[], none⟩]
  | .seq a b =>
    (paths a).flatMap fun p =>
      match p.fin with
      | some _ => [p]
      | none => (paths b).map fun q => ⟨p.evs ++ q.evs, q.fin⟩
  | .low _ mk => if mk == 0 then [⟨[], none⟩] else [⟨[.mark mk], none⟩]
  | .assign _ _ => [⟨[], none⟩]
  | .logEvent ev _ => [⟨[.log ev], none⟩]
  | .check _ => [⟨[], none⟩]
  | .ite _ t e => paths t ++ paths e
  | .loop _ b => ⟨[], none⟩ :: (paths b).map fun p =>
      match p.fin with
      | some .brk => ⟨p.evs, none⟩
      | some .cont => ⟨p.evs, none⟩
      | _ => p
  | .try_ b _ h =>
    paths b ++ (paths b).flatMap fun p =>
      (prefixes p.evs).flatMap fun pre => (paths h).map fun q => ⟨pre ++ q.evs, q.fin⟩
  | .abrupt t => [⟨[], some t⟩]
  | .call _ => [⟨[], none⟩]

def Path.count (p : Path) (e : Ev) : Nat := p.evs.count e

/-- `paths` with logging ON: at an `ite` whose guard reads a log location
    (`if self._quic_logger is not None [and ...]:`) only the guarded branch is
    followed; protocol branches are all followed. -/
def pathsOn : Stmt → List Path
  | .skip => [⟨[], none⟩]
  | .seq a b =>
    (pathsOn a).flatMap fun p =>
      match p.fin with
      | some _ => [p]
      | none => (pathsOn b).map fun q => ⟨p.evs ++ q.evs, q.fin⟩
  | .low _ mk => if mk == 0 then [⟨[], none⟩] else [⟨[.mark mk], none⟩]
  | .assign _ _ => [⟨[], none⟩]
  | .logEvent ev _ => [⟨[.log ev], none⟩]
  | .check _ => [⟨[], none⟩]
  | .ite c t e => if c.low then pathsOn t ++ pathsOn e else pathsOn t
  | .loop _ b => ⟨[], none⟩ :: (pathsOn b).map fun p =>
      match p.fin with
      | some .brk => ⟨p.evs, none⟩
      | some .cont => ⟨p.evs, none⟩
      | _ => p
  | .try_ b _ h =>
    pathsOn b ++ (pathsOn b).flatMap fun p =>
      (prefixes p.evs).flatMap fun pre => (pathsOn h).map fun q => ⟨pre ++ q.evs, q.fin⟩
  | .abrupt t => [⟨[], some t⟩]
  | .call _ => [⟨[], none⟩]

def hasMark (mk : Nat) : Stmt → Bool
  | .seq a b => hasMark mk a || hasMark mk b
  | .low _ m => m == mk
  | .ite _ t e => hasMark mk t || hasMark mk e
  | .loop _ b => hasMark mk b
  | .try_ b _ h => hasMark mk b || hasMark mk h
  | _ => false

/-- body of the outermost loop containing marker `mk` -/
def findLoop (mk : Nat) : Stmt → Option Stmt
  | .seq a b => (findLoop mk a).orElse fun _ => findLoop mk b
  | .ite _ t e => (findLoop mk t).orElse fun _ => findLoop mk e
  | .loop _ b => if hasMark mk b then some b else none
  | .try_ b _ h => (findLoop mk b).orElse fun _ => findLoop mk h
  | _ => none

def bodyOf (prog : List FnDecl) (f : Nat) : Stmt := ((lookup prog f).map (·.body)).getD .skip

/-- event ids used by the extractor -/
def evSent : Ev := .log 1
def evReceived : Ev := .log 2
def evDropped : Ev := .log 3
def mkAuth : Ev := .mark 1        -- `crypto.decrypt_packet(...)` returned: the packet authenticated
def mkRegister : Ev := .mark 2    -- `self._loss.on_packet_sent(...)`: the packet is registered as sent

/-- every logging-on path through `s` that contains `m` has exactly `n`
    events among `evs` -/
def exactlyOn (s : Stmt) (m : Ev) (evs : List Ev) (n : Nat) : Bool :=
  (pathsOn s).all fun p => !p.evs.contains m || (evs.map p.count).sum == n

/-- every logging-on path through `s` has exactly `n` events among `evs` -/
def exactlyAll (s : Stmt) (evs : List Ev) (n : Nat) : Bool :=
  (pathsOn s).all fun p => (evs.map p.count).sum == n

end AQ.LogIR
