import AQ.Base.Basic
/-
  Option negotiation of the TLS engine and the QUIC version selection
  (statement-by-statement models, core Lean only):

    tls.negotiate(supported, offered, exc)
    connection.is_version_compatible(from_version, to_version)
    QuicConnection.connect:                        first version of the client
    QuicConnection._receive_version_negotiation_packet:   choice after a VN packet
    QuicConnection._alpn_handler:                  server's compatible-version choice
    QuicConnection._parse_transport_parameters:    version_information checks
-/
namespace AQ.TlsNeg

/-- `negotiate(supported, offered)`:
    ```
    if offered is not None:
        for c in supported:
            if c in offered: return c
    (raise exc | return None)
    ``` -/
def negotiate (supported : List Nat) (offered : Option (List Nat)) : Option Nat :=
  match offered with
  | none => none
  | some o => supported.find? fun c => o.contains c

def V1 : Nat := 0x00000001
def V2 : Nat := 0x6B3343CF

/-- `set([from_version, to_version]) == set([VERSION_1, VERSION_2])` -/
def isVersionCompatible (a b : Nat) : Bool :=
  (a == V1 && b == V2) || (a == V2 && b == V1)

/-- `connect()`: `original_version` if configured, else `supported_versions[0]` (IndexError on an empty list) -/
def clientFirstVersion (original : Option Nat) (supported : List Nat) : Outcome Nat :=
  match original with
  | some v => .ok v
  | none =>
    match supported with
    | v :: _ => .ok v
    | [] => .error (.py .index)

inductive VnResult where
  | ignored            -- the packet lists the version in use: ignored
  | retry (v : Nat)    -- reconnect with `v`
  | fail               -- "Could not find a common protocol version": connection terminated
  deriving DecidableEq, Repr

/-- `_receive_version_negotiation_packet` (client, first flight, not yet acted on a VN):
    ```
    if self._version in header.supported_versions: return
    common = [x for x in self._configuration.supported_versions if x in header.supported_versions]
    chosen_version = common[0] if common else None
    ``` -/
def vnChoice (cur : Nat) (clientSupported vnVersions : List Nat) : VnResult :=
  if vnVersions.contains cur then .ignored
  else
    match clientSupported.filter (fun x => vnVersions.contains x) with
    | v :: _ => .retry v
    | [] => .fail

/-- `_alpn_handler` (server): walk the client's `available_versions`:
    ```
    for version in available_versions:
        if version == self._version: break
        elif version in supported_versions and is_version_compatible(self._version, version):
            self._version = version; break
    ``` -/
def serverChoice (cur : Nat) (serverSupported : List Nat) : List Nat → Nat
  | [] => cur
  | v :: rest =>
    if v = cur then cur
    else if serverSupported.contains v && isVersionCompatible cur v then v
    else serverChoice cur serverSupported rest

/-- `_parse_transport_parameters`, version_information part: `true` = accepted.
    `isClient` is the role of the endpoint that PARSES the parameters. -/
def versionInfoOK (isClient : Bool) (chosen : Nat) (available : List Nat) (packetVersion : Nat) : Bool :=
  (isClient || available.contains chosen) && chosen == packetVersion

/-- version both endpoints end with for a configuration pair, following the
    listening socket's behaviour (Version Negotiation when the first version is
    not supported); `none` = no connection -/
def finalVersion (clientOriginal : Option Nat) (clientSupported serverSupported : List Nat) : Option Nat :=
  match clientFirstVersion clientOriginal clientSupported with
  | .error _ => none
  | .ok v0 =>
    let v1? : Option Nat :=
      if serverSupported.contains v0 then some v0
      else match vnChoice v0 clientSupported serverSupported with
        | .retry v => some v
        | _ => none
    match v1? with
    | none => none
    | some v1 => some (serverChoice v1 serverSupported clientSupported)

end AQ.TlsNeg
