import AQ.Base.Basic
/-
  TLS 1.3 presentation-language codecs (RFC 8446 §3) as combinators over
  `List UInt8`, and the handshake messages of tls.py at the level of their
  framing: fixed-width big-endian integers, `opaque<0..2^(8n)-1>` vectors,
  length-delimited blocks whose content must fill the declared length exactly
  (`pull_block`), lists of items inside a block (`pull_list`), extensions as
  (type, opaque extension_data<0..2^16-1>).

  Models the code WITH fixes/C17-tls-extension-length.diff applied: every
  extension body — known or not — is parsed inside its declared length.
  Core Lean only.
-/
namespace AQ.TlsCodec
open AQ

abbrev Dec (α : Type) := Bytes → Option (α × Bytes)

/-- big-endian encoding of `v` on `n` bytes -/
def beEnc : Nat → Nat → Bytes
  | 0, _ => []
  | n + 1, v => UInt8.ofNat (v / 256 ^ n) :: beEnc n (v % 256 ^ n)

def beDec : Bytes → Nat
  | [] => 0
  | b :: bs => b.toNat * 256 ^ bs.length + beDec bs

/-- `buf.pull_uintN()` / `int.from_bytes(buf.pull_bytes(n), "big")` -/
def uintBE (n : Nat) : Dec Nat := fun bs =>
  if bs.length < n then none else some (beDec (bs.take n), bs.drop n)

/-- `buf.pull_bytes(n)` -/
def bytesN (n : Nat) : Dec Bytes := fun bs =>
  if bs.length < n then none else some (bs.take n, bs.drop n)

/-- `pull_opaque(buf, n)` -/
def opq (n : Nat) : Dec Bytes := fun bs =>
  match uintBE n bs with
  | some (len, rest) => bytesN len rest
  | none => none

def opqEnc (n : Nat) (b : Bytes) : Bytes := beEnc n b.length ++ b

/-- `with pull_block(buf, n): <d>`: `d` sees ONLY the declared bytes and must
    consume all of them ("extra bytes at the end of a block") -/
def block (n : Nat) (d : Dec α) : Dec α := fun bs =>
  match opq n bs with
  | some (inner, rest) =>
    match d inner with
    | some (a, []) => some (a, rest)
    | _ => none
  | none => none

/-- items until the input is used up -/
def many (d : Dec α) : Nat → Dec (List α)
  | _, [] => some ([], [])
  | 0, _ :: _ => none
  | fuel + 1, bs@(_ :: _) =>
    match d bs with
    | some (a, rest) =>
      match many d fuel rest with
      | some (as, r) => some (a :: as, r)
      | none => none
    | none => none

/-- `pull_list(buf, n, item)` -/
def list (n : Nat) (d : Dec α) : Dec (List α) := fun bs =>
  match opq n bs with
  | some (inner, rest) =>
    match many d (inner.length + 1) inner with
    | some (as, _) => some (as, rest)
    | none => none
  | none => none

def listEnc (n : Nat) (e : α → Bytes) (as : List α) : Bytes := opqEnc n (as.flatMap e)

/-! ### handshake messages (framing level) -/

/-- an extension: type and raw `extension_data` -/
structure Ext where
  type : Nat
  data : Bytes
  deriving DecidableEq, Repr

def extEnc (x : Ext) : Bytes := beEnc 2 x.type ++ opqEnc 2 x.data
def extDec : Dec Ext := fun bs =>
  match uintBE 2 bs with
  | some (t, r1) =>
    match opq 2 r1 with
    | some (d, r2) => some (⟨t, d⟩, r2)
    | none => none
  | none => none

def Ext.valid (x : Ext) : Prop := x.type < 256 ^ 2 ∧ x.data.length < 256 ^ 2

structure Finished where
  verifyData : Bytes
  deriving DecidableEq, Repr

def Finished.enc (m : Finished) : Bytes := 20 :: opqEnc 3 m.verifyData
def Finished.dec : Dec Finished
  | 20 :: rest => (opq 3 rest).map fun p => (⟨p.1⟩, p.2)
  | _ => none

structure CertificateVerify where
  algorithm : Nat
  signature : Bytes
  deriving DecidableEq, Repr

def CertificateVerify.body (m : CertificateVerify) : Bytes := beEnc 2 m.algorithm ++ opqEnc 2 m.signature
def CertificateVerify.enc (m : CertificateVerify) : Bytes := 15 :: opqEnc 3 m.body
def CertificateVerify.decBody : Dec CertificateVerify := fun bs =>
  match uintBE 2 bs with
  | some (a, r1) =>
    match opq 2 r1 with
    | some (s, r2) => some (⟨a, s⟩, r2)
    | none => none
  | none => none
def CertificateVerify.dec : Dec CertificateVerify
  | 15 :: rest => block 3 CertificateVerify.decBody rest
  | _ => none

structure CertEntry where
  cert : Bytes
  exts : Bytes
  deriving DecidableEq, Repr

def CertEntry.enc (e : CertEntry) : Bytes := opqEnc 3 e.cert ++ opqEnc 2 e.exts
def CertEntry.dec : Dec CertEntry := fun bs =>
  match opq 3 bs with
  | some (c, r1) =>
    match opq 2 r1 with
    | some (x, r2) => some (⟨c, x⟩, r2)
    | none => none
  | none => none

structure Certificate where
  context : Bytes
  entries : List CertEntry
  deriving DecidableEq, Repr

def Certificate.body (m : Certificate) : Bytes := opqEnc 1 m.context ++ listEnc 3 CertEntry.enc m.entries
def Certificate.enc (m : Certificate) : Bytes := 11 :: opqEnc 3 m.body
def Certificate.decBody : Dec Certificate := fun bs =>
  match opq 1 bs with
  | some (c, r1) =>
    match list 3 CertEntry.dec r1 with
    | some (es, r2) => some (⟨c, es⟩, r2)
    | none => none
  | none => none
def Certificate.dec : Dec Certificate
  | 11 :: rest => block 3 Certificate.decBody rest
  | _ => none

structure EncryptedExtensions where
  exts : List Ext
  deriving DecidableEq, Repr

def EncryptedExtensions.body (m : EncryptedExtensions) : Bytes := listEnc 2 extEnc m.exts
def EncryptedExtensions.enc (m : EncryptedExtensions) : Bytes := 8 :: opqEnc 3 m.body
def EncryptedExtensions.decBody : Dec EncryptedExtensions := fun i => (list 2 extDec i).map fun p => (⟨p.1⟩, p.2)
def EncryptedExtensions.dec : Dec EncryptedExtensions
  | 8 :: rest => block 3 EncryptedExtensions.decBody rest
  | _ => none

structure ServerHello where
  random : Bytes
  sessionId : Bytes
  cipherSuite : Nat
  compression : Nat
  exts : List Ext
  deriving DecidableEq, Repr

def ServerHello.body (m : ServerHello) : Bytes :=
  beEnc 2 0x0303 ++ m.random ++ opqEnc 1 m.sessionId ++ beEnc 2 m.cipherSuite ++ beEnc 1 m.compression
    ++ listEnc 2 extEnc m.exts
def ServerHello.enc (m : ServerHello) : Bytes := 2 :: opqEnc 3 m.body
def ServerHello.decBody : Dec ServerHello := fun bs =>
  match uintBE 2 bs with
  | some (v, r0) =>
    if v ≠ 0x0303 then none else
    match bytesN 32 r0 with
    | some (rnd, r1) =>
      match opq 1 r1 with
      | some (sid, r2) =>
        match uintBE 2 r2 with
        | some (cs, r3) =>
          match uintBE 1 r3 with
          | some (cm, r4) =>
            match list 2 extDec r4 with
            | some (xs, r5) => some (⟨rnd, sid, cs, cm, xs⟩, r5)
            | none => none
          | none => none
        | none => none
      | none => none
    | none => none
  | none => none
def ServerHello.dec : Dec ServerHello
  | 2 :: rest => block 3 ServerHello.decBody rest
  | _ => none

structure ClientHello where
  random : Bytes
  sessionId : Bytes
  cipherSuites : List Nat
  compression : List Nat
  exts : List Ext
  deriving DecidableEq, Repr

def ClientHello.body (m : ClientHello) : Bytes :=
  beEnc 2 0x0303 ++ m.random ++ opqEnc 1 m.sessionId ++ listEnc 2 (beEnc 2) m.cipherSuites
    ++ listEnc 1 (beEnc 1) m.compression ++ listEnc 2 extEnc m.exts
def ClientHello.enc (m : ClientHello) : Bytes := 1 :: opqEnc 3 m.body
def ClientHello.decBody : Dec ClientHello := fun bs =>
  match uintBE 2 bs with
  | some (v, r0) =>
    if v ≠ 0x0303 then none else
    match bytesN 32 r0 with
    | some (rnd, r1) =>
      match opq 1 r1 with
      | some (sid, r2) =>
        match list 2 (uintBE 2) r2 with
        | some (cs, r3) =>
          match list 1 (uintBE 1) r3 with
          | some (cm, r4) =>
            match list 2 extDec r4 with
            | some (xs, r5) => some (⟨rnd, sid, cs, cm, xs⟩, r5)
            | none => none
          | none => none
        | none => none
      | none => none
    | none => none
  | none => none
def ClientHello.dec : Dec ClientHello
  | 1 :: rest => block 3 ClientHello.decBody rest
  | _ => none


structure NewSessionTicket where
  lifetime : Nat
  ageAdd : Nat
  nonce : Bytes
  ticket : Bytes
  exts : List Ext
  deriving DecidableEq, Repr

def NewSessionTicket.body (m : NewSessionTicket) : Bytes :=
  beEnc 4 m.lifetime ++ beEnc 4 m.ageAdd ++ opqEnc 1 m.nonce ++ opqEnc 2 m.ticket ++ listEnc 2 extEnc m.exts
def NewSessionTicket.enc (m : NewSessionTicket) : Bytes := 4 :: opqEnc 3 m.body
def NewSessionTicket.decBody : Dec NewSessionTicket := fun bs =>
  match uintBE 4 bs with
  | some (l, r1) =>
    match uintBE 4 r1 with
    | some (a, r2) =>
      match opq 1 r2 with
      | some (n, r3) =>
        match opq 2 r3 with
        | some (t, r4) =>
          match list 2 extDec r4 with
          | some (xs, r5) => some (⟨l, a, n, t, xs⟩, r5)
          | none => none
        | none => none
      | none => none
    | none => none
  | none => none
def NewSessionTicket.dec : Dec NewSessionTicket
  | 4 :: rest => block 3 NewSessionTicket.decBody rest
  | _ => none

structure CertificateRequest where
  context : Bytes
  exts : List Ext
  deriving DecidableEq, Repr

def CertificateRequest.body (m : CertificateRequest) : Bytes := opqEnc 1 m.context ++ listEnc 2 extEnc m.exts
def CertificateRequest.enc (m : CertificateRequest) : Bytes := 13 :: opqEnc 3 m.body
def CertificateRequest.decBody : Dec CertificateRequest := fun bs =>
  match opq 1 bs with
  | some (c, r1) =>
    match list 2 extDec r1 with
    | some (xs, r2) => some (⟨c, xs⟩, r2)
    | none => none
  | none => none
def CertificateRequest.dec : Dec CertificateRequest
  | 13 :: rest => block 3 CertificateRequest.decBody rest
  | _ => none

/-! ### acceptance including the bodies of the extensions tls.py understands

`pull_*` parses the body of a known extension inside its declared length (a
block of capacity 2 around it).  `strict d data` = `d` accepts `data` and uses
all of it. -/

def strict (d : Dec α) (data : Bytes) : Bool :=
  match d data with
  | some (_, []) => true
  | _ => false

def pairDec (d1 : Dec α) (d2 : Dec β) : Dec (α × β) := fun bs =>
  match d1 bs with
  | some (a, r1) =>
    match d2 r1 with
    | some (b, r2) => some ((a, b), r2)
    | none => none
  | none => none

def isAscii (b : Bytes) : Bool := b.all fun c => c.toNat < 128

def serverNameDec : Dec Bytes := block 2 fun i =>
  match uintBE 1 i with
  | some (0, r) =>
    match opq 2 r with
    | some (n, r2) => if isAscii n then some (n, r2) else none
    | none => none
  | _ => none

def emptyDec : Dec Unit := fun bs => some ((), bs)

inductive Kind where
  | clientHello | serverHello | newSessionTicket | encryptedExtensions | certificateRequest
  deriving DecidableEq, Repr

/-- body of extension `t` in message kind `k` is well-formed (`true` for types tls.py keeps raw) -/
def extBodyOK (k : Kind) (x : Ext) : Bool :=
  match k, x.type with
  | .clientHello, 51 => strict (list 2 (pairDec (uintBE 2) (opq 2))) x.data
  | .clientHello, 43 => strict (list 1 (uintBE 2)) x.data
  | .clientHello, 13 => strict (list 2 (uintBE 2)) x.data
  | .clientHello, 10 => strict (list 2 (uintBE 2)) x.data
  | .clientHello, 45 => strict (list 1 (uintBE 1)) x.data
  | .clientHello, 0 => strict serverNameDec x.data
  | .clientHello, 16 => strict (list 2 (opq 1)) x.data
  | .clientHello, 42 => strict emptyDec x.data
  | .clientHello, 41 => strict (pairDec (list 2 (pairDec (opq 2) (uintBE 4))) (list 2 (opq 1))) x.data
  | .serverHello, 43 => strict (uintBE 2) x.data
  | .serverHello, 51 => strict (pairDec (uintBE 2) (opq 2)) x.data
  | .serverHello, 41 => strict (uintBE 2) x.data
  | .newSessionTicket, 42 => strict (uintBE 4) x.data
  | .encryptedExtensions, 16 =>
    match list 2 (opq 1) x.data with
    | some (names, []) => (names.filter isAscii).length != 0
    | _ => false
  | .encryptedExtensions, 42 => strict emptyDec x.data
  | .certificateRequest, 13 => strict (list 2 (uintBE 2)) x.data
  | _, _ => true

/-- `pre_shared_key` must be the last ClientHello extension -/
def pskLast : List Ext → Bool
  | [] => true
  | x :: rest => if x.type = 41 then rest.isEmpty else pskLast rest

/-- does tls.py (with the C17 / C05 fixes) accept these bytes as one handshake message? -/
def accepts (bs : Bytes) : Bool :=
  match bs with
  | 1 :: _ =>
    match ClientHello.dec bs with
    | some (m, []) => m.exts.all (extBodyOK .clientHello) && pskLast m.exts
    | _ => false
  | 2 :: _ =>
    match ServerHello.dec bs with
    | some (m, []) => m.exts.all (extBodyOK .serverHello)
    | _ => false
  | 4 :: _ =>
    match NewSessionTicket.dec bs with
    | some (m, []) => m.exts.all (extBodyOK .newSessionTicket)
    | _ => false
  | 8 :: _ =>
    match EncryptedExtensions.dec bs with
    | some (m, []) => m.exts.all (extBodyOK .encryptedExtensions)
    | _ => false
  | 11 :: _ => strict Certificate.dec bs
  | 13 :: _ =>
    match CertificateRequest.dec bs with
    | some (m, []) => m.exts.all (extBodyOK .certificateRequest)
    | _ => false
  | 15 :: _ => strict CertificateVerify.dec bs
  | 20 :: _ => strict Finished.dec bs
  | _ => false

end AQ.TlsCodec
