/-
  `QuicConnection.receive_datagram` (src/aioquic/quic/connection.py) from its
  first statement up to and including the decrypt decision and the duplicate
  discard, statement by statement, with
  fixes/C02-vn-echo-check.diff applied (a Version Negotiation packet must echo
  our Destination Connection ID).

  Everything that happens to a packet AFTER it passed the gate (reserved bits,
  `_payload_received`, TLS, streams, events, closing …) and the handlers of an
  accepted Retry / Version Negotiation packet are parameters (`Handlers`): the
  property is about packets that do NOT pass.

  What the header parser and the cryptographic gate answer for each packet of
  the datagram is an input of the step (`Pkt`): `parse` is the outcome of
  `pull_quic_header`, `dec` the outcome of `crypto.decrypt_packet` under the
  connection's current keys and expected packet number (modelled in
  AQ.Model.PacketProt), `retryTagOk` the comparison with
  `get_retry_integrity_tag` (AQ.PacketProt.retryAccept).
-/
import AQ.Base.Basic

namespace AQ.RecvGate
open AQ

inductive PType where
  | initial | zeroRtt | handshake | retry | versionNegotiation | oneRtt
  deriving Repr, DecidableEq

inductive CState where
  | firstflight | connected | closing | draining | terminated
  deriving Repr, DecidableEq

/-- `END_STATES` -/
def CState.isEnd : CState → Bool
  | .closing | .draining | .terminated => true
  | _ => false

/-- the fields of `QuicHeader` the gate looks at -/
structure Hdr where
  ptype : PType
  version : Option Nat
  dcid : Bytes
  scid : Bytes
  deriving Repr, DecidableEq

/-- outcome of `crypto.decrypt_packet` -/
inductive Dec where
  | keyUnavailable
  | cryptoError
  | ok (pn : Nat) (plainHeader payload : Bytes)
  deriving Repr, DecidableEq

/-- The part of the connection the property speaks about, plus what the gate
    reads.  `rest` is everything the gate never touches itself: event queue, TLS
    state machine, streams, packet spaces (expected packet numbers, ack queues),
    close flags, keys installed by TLS.  `fresh` records the arguments of the
    last `_initialize(peer_cid)` / `self._version = header.version` executed by
    a server that has not accepted any packet yet: its TLS context, Initial keys
    and packet spaces are exactly the fresh ones for these arguments. -/
structure Core (σ : Type) where
  rest : σ
  isClient : Bool
  state : CState
  hostCids : List Bytes
  hostCid : Bytes
  peerCid : Bytes
  supportedVersions : List Nat
  retryCount : Nat
  vnIncompatible : Bool
  fresh : Option (Bytes × Option Nat)

/-- what moves even when every packet is dropped -/
structure Aux where
  pathValidated : Bool
  bytesReceived : Nat          -- network_path.bytes_received (anti-amplification)
  closeAt : Option Nat         -- idle deadline (time in µs)
  idleTimeout : Nat
  cryptoRetransmitted : Bool
  rescheduled : Nat            -- number of `_loss.reschedule_data` calls
  deriving Repr, DecidableEq

structure Conn (σ : Type) where
  core : Core σ
  aux : Aux

/-- one packet of the datagram as seen by the gate -/
structure Pkt (σ : Type) where
  parse : Option Hdr                       -- none: `pull_quic_header` raised ValueError
  dec : Core σ → Dec
  retryTagOk : Bytes → Bool                -- argument: `self._peer_cid.cid`

structure Handlers (σ : Type) where
  /-- `packet_number < space.ack_queue_start or packet_number in space.ack_queue` -/
  isDuplicate : Core σ → PType → Nat → Bool
  /-- everything after the duplicate discard; `true` = `return` -/
  process : Core σ → Hdr → Nat → Bytes → Bytes → Core σ × Bool
  /-- body of `_receive_version_negotiation_packet` once its guard holds -/
  versionNegotiation : Core σ → Hdr → Core σ
  /-- body of `_receive_retry_packet` once its guard holds -/
  retry : Core σ → Hdr → Core σ

def SMALLEST_MAX_DATAGRAM_SIZE : Nat := 1200

inductive Flow where
  | continue_ | return_
  deriving DecidableEq

/-- where the checks before the cryptographic gate send a packet -/
inductive Pre where
  | drop                       -- `return` (packet_dropped …)
  | versionNegotiation (h : Hdr)
  | retry (h : Hdr)
  | crypto (h : Hdr)           -- on to "Server initialization" / decrypt
  deriving DecidableEq

/-- the statements of the loop body from `pull_quic_header` down to
    "Handle retry packet" -/
def preChecks {σ : Type} (payloadLength : Nat) (c : Core σ) (p : Pkt σ) : Pre :=
  match p.parse with
  | none => .drop                                                    -- header_parse_error
  | some h =>
    -- RFC 9000 §14.1: servers drop Initials in small datagrams
    if !c.isClient && h.ptype == .initial && payloadLength < SMALLEST_MAX_DATAGRAM_SIZE then .drop
    -- destination CID check
    else if (c.isClient || h.ptype == .handshake) && !(c.hostCids.contains h.dcid) then .drop
    else if h.ptype == .versionNegotiation then
      -- guard of `_receive_version_negotiation_packet`
      if c.isClient && c.state == .firstflight && !c.vnIncompatible && h.scid == c.peerCid then .versionNegotiation h
      else .drop
    else if h.version.isSome && !(c.supportedVersions.contains (h.version.getD 0)) then .drop
    else if h.ptype == .retry then
      -- guard of `_receive_retry_packet`
      if c.isClient && c.retryCount == 0 && h.dcid == c.hostCid && p.retryTagOk c.peerCid then .retry h
      else .drop
    else if !c.isClient && c.state == .firstflight && h.ptype != .initial then .drop      -- unexpected_packet
    else .crypto h

/-- "Server initialization": `self._version = header.version; self._initialize(header.destination_cid)` -/
def serverInit {σ : Type} (c : Core σ) (h : Hdr) : Core σ :=
  if !c.isClient && c.state == .firstflight then { c with fresh := some (h.dcid, h.version) } else c

/-- decrypt decision, duplicate discard, and (for a packet that passes) the rest -/
def cryptoStep {σ : Type} (H : Handlers σ) (c : Conn σ) (p : Pkt σ) (h : Hdr) : Conn σ × Flow :=
  let core1 := serverInit c.core h
  match p.dec core1 with
  | .keyUnavailable =>
    if core1.isClient && (h.ptype == .handshake || h.ptype == .oneRtt) && !c.aux.cryptoRetransmitted then
      ({ core := core1, aux := { c.aux with cryptoRetransmitted := true, rescheduled := c.aux.rescheduled + 1 } }, .continue_)
    else ({ core := core1, aux := c.aux }, .continue_)
  | .cryptoError => ({ core := core1, aux := c.aux }, .continue_)             -- payload_decrypt_error
  | .ok pn ph pl =>
    if H.isDuplicate core1 h.ptype pn then ({ core := core1, aux := c.aux }, .continue_)   -- duplicate
    else
      let r := H.process core1 h pn ph pl
      ({ core := r.1, aux := c.aux }, if r.2 then .return_ else .continue_)

/-- one iteration of `while not buf.eof()` -/
def stepPacket {σ : Type} (H : Handlers σ) (payloadLength : Nat) (c : Conn σ) (p : Pkt σ) : Conn σ × Flow :=
  match preChecks payloadLength c.core p with
  | .drop => (c, .return_)
  | .versionNegotiation h => ({ c with core := H.versionNegotiation c.core h }, .return_)
  | .retry h => ({ c with core := H.retry c.core h }, .return_)
  | .crypto h => cryptoStep H c p h

def loop {σ : Type} (H : Handlers σ) (payloadLength : Nat) (c : Conn σ) : List (Pkt σ) → Conn σ
  | [] => c
  | p :: ps =>
    match stepPacket H payloadLength c p with
    | (c', .return_) => c'
    | (c', .continue_) => loop H payloadLength c' ps

/-- `receive_datagram(data, addr, now)`; `pkts` are the packets `pull_quic_header`
    finds one after the other -/
def receiveDatagram {σ : Type} (H : Handlers σ) (c : Conn σ) (payloadLength now : Nat) (pkts : List (Pkt σ)) : Conn σ :=
  if c.core.state.isEnd then c
  else
    let aux1 := if !c.aux.pathValidated then { c.aux with bytesReceived := c.aux.bytesReceived + payloadLength } else c.aux
    let aux2 := if aux1.closeAt.isNone then { aux1 with closeAt := some (now + aux1.idleTimeout) } else aux1
    loop H payloadLength { c with aux := aux2 } pkts

end AQ.RecvGate
