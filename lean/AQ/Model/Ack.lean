/-
  Model of the acknowledgement machinery of aioquic/quic/connection.py:
    * tail of `receive_datagram` for one packet that authenticated
      (duplicate discard, payload effects = ACK-of-ACK deliveries, "record
      packet as received": `ack_queue.add`, `largest_received_*`, `ack_at`);
    * `_on_ack_delivery`, `recovery.discard_space` (ack part);
    * `_write_ack_frame` + `packet.push_ack_frame` (values of the varints);
    * the ACK decisions of `_write_handshake` / `_write_application`;
    * the ack part of `get_timer`.

  Time is generic (`FArith F`, as in AQ.Model.Recovery): `now + self._ack_delay`
  is one float addition; comparisons are the float comparisons.  Inputs of a
  step that come from elsewhere (builder space, pacer, key availability,
  `int(ack_delay * 1e6) >> exponent`) are arguments of the step.

  Follows the code WITH fixes/C12-ack-frame-fits.diff (push_ack_frame max_size),
  fixes/C12-ack-pacing.diff (`ack_at > now`) and fixes/C08-ack-first.diff applied.
-/
import AQ.Base.Basic
import AQ.Base.RangeSet
import AQ.Model.Recovery
import AQ.Model.Builder

namespace AQ.Ack
open AQ AQ.RangeSet AQ.Recovery
open AQ.Builder (sizeUintVar)

/-- QuicPacketSpace (receive side) -/
structure Space (F : Type) where
  ackAt : Option F := none
  ackQueue : List Rg := []
  ackQueueStart : Nat := 0
  discarded : Bool := false
  largestReceived : Int := -1
  largestReceivedTime : Option F := none
  /-- ghost: packet numbers that authenticated in this space -/
  received : List Nat := []
  /-- ghost: `handler_args` highest of every ACK frame written -/
  sentAcks : List Int := []

/-- `_on_ack_delivery(ACKED, space, highest_acked)` -/
def onAckDelivery {F} (s : Space F) (h : Int) : Outcome (Space F) :=
  -- RangeSet.subtract asserts stop > start
  if h + 1 ≤ 0 then .error (.py .assertion) else
    let b := (h + 1).toNat
    .ok { s with ackQueue := subtract 0 b s.ackQueue,
                 ackQueueStart := if b > s.ackQueueStart then b else s.ackQueueStart }

def deliverAll {F} (s : Space F) : List Int → Outcome (Space F)
  | [] => .ok s
  | h :: hs => do
    let s ← onAckDelivery s h
    deliverAll s hs

/-- what happened to a received packet -/
inductive RxRes where
  | duplicate | closed | recorded
deriving Repr, DecidableEq, Inhabited

/-- "discard packets which were already processed" -/
def isDuplicate {F} (s : Space F) (pn : Nat) : Bool := pn < s.ackQueueStart || contains pn s.ackQueue

/-- "record packet as received" -/
def record {F} (A : FArith F) (delay : F) (s : Space F) (pn : Nat) (ackEliciting : Bool) (now : F) : Space F :=
  if s.discarded then s else
    let s := if (pn : Int) > s.largestReceived then
               { s with largestReceived := pn, largestReceivedTime := some now } else s
    let s := { s with ackQueue := add pn (pn + 1) s.ackQueue }
    if ackEliciting && s.ackAt.isNone then { s with ackAt := some (A.add now delay) } else s

/-- one packet that decrypted in this space, when its payload only causes
    ACK-of-ACK deliveries `acked` for this same space (in order);
    `accepted = false` when payload processing closed the connection
    (`return` before the record). -/
def rxPacket {F} (A : FArith F) (delay : F) (s : Space F) (pn : Nat) (ackEliciting : Bool) (now : F)
    (accepted : Bool) (acked : List Int) : Outcome (Space F × RxRes) :=
  let s := { s with received := pn :: s.received }
  if isDuplicate s pn then .ok (s, .duplicate) else do
    let s ← deliverAll s acked
    if !accepted then pure (s, .closed) else pure (record A delay s pn ackEliciting now, .recorded)

/-- `QuicPacketRecovery.discard_space` (ack part) + `space.discarded = True` -/
def discard {F} (s : Space F) : Space F := { s with ackAt := none, discarded := true }

/-- the `while first > 0` loop of the fixed `push_ack_frame`: how many older
    ranges (walking down from the newest) still fit.  `older` is newest-first. -/
def fitOlder (maxSize : Int) : (size : Int) → (start : Int) → (older : List Rg) → Nat
  | _, _, [] => 0
  | size, start, r :: rest =>
    let size := size + sizeUintVar (start - r.stop - 1).toNat + sizeUintVar (r.stop - r.start - 1)
    if size > maxSize then 0 else 1 + fitOlder maxSize size r.start rest

/-- number of older ranges written: all of them without `max_size` -/
def ackCount (r : Rg) (older : List Rg) (delay : Nat) : Option Int → Nat
  | none => older.length
  | some m =>
    fitOlder m (sizeUintVar (r.stop - 1) + sizeUintVar delay + sizeUintVar older.length
                  + sizeUintVar (r.stop - 1 - r.start)) r.start older

/-- the gap / length values pushed for the older ranges (newest first), as
    Python ints -/
def olderRaw : (start : Int) → List Rg → List Int
  | _, [] => []
  | start, r :: rest => (start - r.stop - 1) :: ((r.stop : Int) - r.start - 1) :: olderRaw r.start rest

/-- `push_ack_frame(buf, rangeset, delay, max_size)`: the varint values written,
    and the number of ranges.  `rangeset[-1]` on an empty set is IndexError;
    `push_uint_var` of a negative value raises (never for a well-formed set). -/
def pushAckFrame (rs : List Rg) (delay : Nat) (maxSize : Option Int) : Outcome (List Nat × Nat) :=
  match rs.reverse with
  | [] => .error (.py .index)
  | r :: older =>
    let k := ackCount r older delay maxSize
    let raw : List Int :=
      ((r.stop : Int) - 1) :: (delay : Int) :: (k : Int) :: ((r.stop : Int) - 1 - r.start)
        :: olderRaw r.start (older.take k)
    if raw.all (fun v => decide (0 ≤ v)) then .ok (raw.map Int.toNat, k + 1) else .error (.py .value)

/-- the ACK frame as the connection registers it -/
structure AckFrame where
  values : List Nat        -- varints after the frame type
  ranges : Nat
  highest : Int            -- handler argument
deriving Repr, DecidableEq, Inhabited

/-- `_write_ack_frame` after `start_frame` succeeded -/
def writeAck {F} (s : Space F) (delayEnc : Nat) (maxSize : Option Int) : Outcome (Space F × AckFrame) :=
  match s.largestReceivedTime with
  | none => .error (.py .typeErr)          -- `now - None`
  | some _ => do
    let (vals, n) ← pushAckFrame s.ackQueue delayEnc maxSize
    pure ({ s with ackAt := none, sentAcks := s.largestReceived :: s.sentAcks },
          { values := vals, ranges := n, highest := s.largestReceived })

/-- result of a `_write_*` call as far as ACKs are concerned -/
inductive TxRes where
  | nothing                 -- no packet was started / the call returned before
  | stopped                 -- QuicPacketBuilderStop before an ACK could be written
  | noAck                   -- a packet was started, no ACK frame was due
  | ack (f : AckFrame)
deriving Repr, DecidableEq, Inhabited

/-- `_write_handshake(builder, epoch, now)`, first loop iteration up to the ACK -/
def txHandshake {F} (s : Space F) (keysValid startOk ackFits : Bool) (delayEnc : Nat) (maxSize : Option Int) :
    Outcome (Space F × TxRes) :=
  if !keysValid then .ok (s, .nothing)
  else if !startOk then .ok (s, .stopped)
  else if s.ackAt.isSome then
    if !ackFits then .ok (s, .stopped) else
      match writeAck s delayEnc maxSize with
      | .ok (s', f) => .ok (s', .ack f)
      | .error e => .error e
  else .ok (s, .noAck)

/-- `space.ack_at is None or space.ack_at > now`: pacing applies [fix C12-ack-pacing] -/
def paced {F} (A : FArith F) (s : Space F) (now : F) : Bool :=
  match s.ackAt with
  | none => true
  | some a => A.lt now a

/-- `space.ack_at is not None and space.ack_at <= now` -/
def ackDue {F} (A : FArith F) (s : Space F) (now : F) : Bool :=
  match s.ackAt with
  | none => false
  | some a => A.le a now

/-- `_write_application`, first loop iteration up to the ACK -/
def txApplication {F} (A : FArith F) (s : Space F) (now : F) (hsComplete keysValid pacerWait startOk ackFits : Bool)
    (delayEnc : Nat) (maxSize : Option Int) : Outcome (Space F × TxRes) :=
  if !keysValid then .ok (s, .nothing)
  -- apply pacing, except if we have ACKs to send
  else if paced A s now && pacerWait then .ok (s, .nothing)
  else if !startOk then .ok (s, .stopped)
  else if hsComplete && ackDue A s now then
    if !ackFits then .ok (s, .stopped) else
      match writeAck s delayEnc maxSize with
      | .ok (s', f) => .ok (s', .ack f)
      | .error e => .error e
  else .ok (s, .noAck)

/-- the ack part of `get_timer`: `timer_at` after the loop over the spaces -/
def ackTimer {F} (A : FArith F) (closeAt : F) : List (Space F) → F
  | [] => closeAt
  | s :: rest =>
    let t := match s.ackAt with
      | some a => if A.lt a closeAt then a else closeAt
      | none => closeAt
    ackTimer A t rest

/-- RFC 9000 §19.3.1 reading of the values of an ACK frame: the acknowledged
    ranges [lo, hi] (inclusive), newest first -/
def wireRangesAux : (smallest : Int) → List Nat → List (Int × Int)
  | sm, g :: l :: rest =>
    let hi := sm - g - 2
    (hi - l, hi) :: wireRangesAux (hi - l) rest
  | _, _ => []

def wireRanges : List Nat → List (Int × Int)
  | largest :: _ :: _ :: first :: rest =>
    ((largest : Int) - first, (largest : Int)) :: wireRangesAux ((largest : Int) - first) rest
  | _ => []

/-! connection level: the three spaces -/
structure Conn (F : Type) where
  spaces : List (Space F)
  delay : F

/-- what the payload of a packet does to the ack state of the spaces, in order -/
inductive Eff where
  | aoa (sp : Nat) (h : Int)      -- an ACK frame we sent was acknowledged
  | discard (sp : Nat)            -- `_discard_epoch`
deriving Repr, DecidableEq, Inhabited

inductive Op (F : Type) where
  | rx (sp pn : Nat) (ae : Bool) (now : F) (accepted : Bool) (effects : List Eff)
  | ackOfAck (sp : Nat) (h : Int)
  | discard (sp : Nat)
  | txHs (sp : Nat) (keysValid startOk ackFits : Bool) (delayEnc : Nat) (maxSize : Option Int)
  | txApp (sp : Nat) (now : F) (hsComplete keysValid pacerWait startOk ackFits : Bool) (delayEnc : Nat) (maxSize : Option Int)

inductive Out where
  | rx (r : RxRes) | tx (r : TxRes) | unit
deriving Repr, DecidableEq, Inhabited

def setSpace {F} (c : Conn F) (i : Nat) (s : Space F) : Conn F := { c with spaces := c.spaces.set i s }

def applyEff {F} (c : Conn F) : Eff → Outcome (Conn F)
  | .aoa sp h =>
    match c.spaces[sp]? with
    | none => .error (.py .index)
    | some s => do
      let s ← onAckDelivery s h
      pure (setSpace c sp s)
  | .discard sp =>
    match c.spaces[sp]? with
    | none => .error (.py .index)
    | some s => pure (setSpace c sp (discard s))

def applyEffs {F} (c : Conn F) : List Eff → Outcome (Conn F)
  | [] => .ok c
  | e :: es => do
    let c ← applyEff c e
    applyEffs c es

def step {F} (A : FArith F) (c : Conn F) : Op F → Outcome (Conn F × Out)
  | .rx sp pn ae now acc effects =>
    match c.spaces[sp]? with
    | none => .error (.py .index)
    | some s =>
      let s := { s with received := pn :: s.received }
      let c := setSpace c sp s
      if isDuplicate s pn then .ok (c, .rx .duplicate) else do
        let c ← applyEffs c effects
        if !acc then pure (c, .rx .closed) else
        match c.spaces[sp]? with
        | none => .error (.py .index)
        | some s => pure (setSpace c sp (record A c.delay s pn ae now), .rx .recorded)
  | .ackOfAck sp h => do
    let c ← applyEff c (.aoa sp h)
    pure (c, .unit)
  | .discard sp => do
    let c ← applyEff c (.discard sp)
    pure (c, .unit)
  | .txHs sp kv so af de ms =>
    match c.spaces[sp]? with
    | none => .error (.py .index)
    | some s => do
      let (s, r) ← txHandshake s kv so af de ms
      pure (setSpace c sp s, .tx r)
  | .txApp sp now hc kv pw so af de ms =>
    match c.spaces[sp]? with
    | none => .error (.py .index)
    | some s => do
      let (s, r) ← txApplication A s now hc kv pw so af de ms
      pure (setSpace c sp s, .tx r)

end AQ.Ack
