/-
  Constants of packet protection written from the RFCs (NOT from the source):
  RFC 9001 §5.2 (initial salt, "client in"/"server in"), §5.1 (labels
  "quic key|iv|hp"), §6.1 ("quic ku"), §5.8 (Retry key / nonce), §5.3/§5.4.1
  (AEAD and header-protection algorithm per TLS cipher suite), RFC 9369 §3.3.1
  (version 2 salt, labels "quicv2 key|iv|hp|ku"), §3.3.3 (Retry key / nonce),
  §3.2 (long header packet type bits), RFC 9000 §17.2 (type bits, header form,
  fixed bit).  `AQ.Gen.CryptoTables` is regenerated from crypto.py / packet.py
  on every run and `AQ.Props.C02b.tables_match_rfc` proves both agree.
-/
import AQ.Base.Basic

namespace AQ.PacketProt.Spec
open AQ

/-- (TLS cipher suite id, header-protection cipher, AEAD cipher, key length) -/
def cipherSuites : List (Nat × String × String × Nat) :=
  [ (0x1301, "aes-128-ecb", "aes-128-gcm", 16),
    (0x1302, "aes-256-ecb", "aes-256-gcm", 32),
    (0x1303, "chacha20", "chacha20-poly1305", 32) ]

/-- the suite used for Initial packets (RFC 9001 §5.2: AEAD_AES_128_GCM, SHA-256) -/
def initialCipherSuite : Nat := 0x1301

def ivLength : Nat := 12
def sampleSize : Nat := 16
def retryTagSize : Nat := 16
def packetNumberMaxSize : Nat := 4

def version1 : Nat := 0x00000001
def version2 : Nat := 0x6b3343cf

/-- HKDF labels [key, iv, hp, ku] -/
def labelsV1 : List String := ["quic key", "quic iv", "quic hp", "quic ku"]
def labelsV2 : List String := ["quicv2 key", "quicv2 iv", "quicv2 hp", "quicv2 ku"]
def clientInitialLabel : String := "client in"
def serverInitialLabel : String := "server in"

def initialSaltV1 : Bytes := [0x38, 0x76, 0x2c, 0xf7, 0xf5, 0x59, 0x34, 0xb3, 0x4d, 0x17, 0x9a, 0xe6, 0xa4, 0xc8, 0x0c, 0xad, 0xcc, 0xbb, 0x7f, 0x0a]
def initialSaltV2 : Bytes := [0x0d, 0xed, 0xe3, 0xde, 0xf7, 0x00, 0xa6, 0xdb, 0x81, 0x93, 0x81, 0xbe, 0x6e, 0x26, 0x9d, 0xcb, 0xf9, 0xbd, 0x2e, 0xd9]
def retryKeyV1 : Bytes := [0xbe, 0x0c, 0x69, 0x0b, 0x9f, 0x66, 0x57, 0x5a, 0x1d, 0x76, 0x6b, 0x54, 0xe3, 0x68, 0xc8, 0x4e]
def retryNonceV1 : Bytes := [0x46, 0x15, 0x99, 0xd3, 0x5d, 0x63, 0x2b, 0xf2, 0x23, 0x98, 0x25, 0xbb]
def retryKeyV2 : Bytes := [0x8f, 0xb4, 0xb0, 0x1b, 0x56, 0xac, 0x48, 0xe2, 0x60, 0xfb, 0xcb, 0xce, 0xad, 0x7c, 0xcc, 0x92]
def retryNonceV2 : Bytes := [0xd8, 0x69, 0x69, 0xbc, 0x2d, 0x7c, 0x6d, 0x99, 0x90, 0xef, 0xb0, 0x4a]

/-- long header type bits (bits 4-5 of the first byte): [Initial, 0-RTT, Handshake, Retry] -/
def longTypesV1 : List Nat := [0, 1, 2, 3]
def longTypesV2 : List Nat := [1, 2, 3, 0]

def headerFormBit : Nat := 0x80
def fixedBit : Nat := 0x40

end AQ.PacketProt.Spec
