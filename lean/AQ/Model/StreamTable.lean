/-
  The connection-level stream table (property C01, multi-stream part): both
  endpoints' `_streams` / `_streams_queue` / `_streams_finished` as a finite map
  of independent one-direction instances `AQ.StreamSys.Sys`.

  A QuicStream object of endpoint `ep` for stream `id` is the pair
      sender half   = send half of the directed stream (id, ep)      (ep sends)
      receiver half = receive half of the directed stream (id, ¬ep)  (peer sends)
  Modelled from connection.py:
  * `_get_or_create_stream_for_send` (`api`): a discarded id raises ValueError
    ("fix: refuse to send on a stream whose state was already discarded"),
    otherwise the stream is created on first use and appended to `_streams_queue`;
  * `_get_or_create_stream` (`arrive`): a discarded id raises StreamFinishedError
    (frame ignored), otherwise created on first use and appended to the queue;
  * the delivery handlers (`report`), which keep the stream object alive;
  * the stream loop of `_write_application` (`serve`): for the streams of
    `_streams_queue` in order — `stream.is_finished` → pop from `_streams`, add to
    `_streams_finished` (discard); `reset_pending` → RESET_STREAM; `not
    buffer_is_empty` → `_write_stream_frame` — then the queue is rebuilt: streams
    neither discarded nor served first, the served ones (`used > 0`) moved to the
    end.  `sent` is a Python set: the order of the moved tail is an INPUT
    (`tail`), as are the number of loop iterations before QuicPacketBuilderStop
    (`n`) and the builder space / flow-control cap each `_write_stream_frame`
    saw (`inputs`).
  Out of scope (C06): `is_blocked`, STOP_SENDING, the direction / initiator /
  stream-limit ValueErrors of the two `_get_or_create_*` functions.
-/
import AQ.Model.StreamSys

namespace AQ.StreamTable
open AQ AQ.Stream AQ.StreamSys

/-- a directed stream: (stream id, `true` = the CLIENT is the sender) -/
abbrev Key := Nat × Bool

inductive AppCall where
  | write (data : Bytes) (fin : Bool)
  | reset (code : Nat)
deriving Repr, DecidableEq

inductive Arrival where
  | frame (i : Nat)
  | reset (j : Nat)
deriving Repr, DecidableEq

inductive Report where
  | ack (i : Nat) | lose (i : Nat) | ackReset | loseReset
deriving Repr, DecidableEq

def AppCall.op : AppCall → StreamSys.Op
  | .write d f => .appWrite d f
  | .reset c => .appReset c

def Arrival.op : Arrival → StreamSys.Op
  | .frame i => .deliver i
  | .reset j => .deliverReset j

def Report.op : Report → StreamSys.Op
  | .ack i => .ackFrame i
  | .lose i => .loseFrame i
  | .ackReset => .ackReset
  | .loseReset => .loseReset

structure Table where
  /-- directed streams touched so far (first match wins); absent = `init id` -/
  sys : List (Key × Sys) := []
  /-- ids of the client's / server's `_streams_queue` (= keys of `_streams`) -/
  queueC : List Nat := []
  queueS : List Nat := []
  /-- the client's / server's `_streams_finished` -/
  finC : List Nat := []
  finS : List Nat := []
deriving Repr

def Table.get (t : Table) (k : Key) : Sys :=
  match t.sys.lookup k with
  | some s => s
  | none => init k.1

def Table.set (t : Table) (k : Key) (s : Sys) : Table := { t with sys := (k, s) :: t.sys }

def Table.queue (t : Table) (ep : Bool) : List Nat := if ep then t.queueC else t.queueS
def Table.fin (t : Table) (ep : Bool) : List Nat := if ep then t.finC else t.finS
def Table.setQueue (t : Table) (ep : Bool) (q : List Nat) : Table :=
  if ep then { t with queueC := q } else { t with queueS := q }
def Table.addFin (t : Table) (ep : Bool) (id : Nat) : Table :=
  if ep then { t with finC := id :: t.finC } else { t with finS := id :: t.finS }

/-- apply one per-stream step to the directed stream `k` -/
def Table.on (t : Table) (k : Key) (op : StreamSys.Op) : Table × Out :=
  let r := StreamSys.step (t.get k) op
  (t.set k r.1, r.2)

/-- creation on first use: the new QuicStream is appended to `_streams_queue` -/
def Table.ensure (t : Table) (ep : Bool) (id : Nat) : Table :=
  if id ∈ t.fin ep ∨ id ∈ t.queue ep then t else t.setQueue ep (t.queue ep ++ [id])

/-- `_stream_can_send`: everything but a peer-initiated unidirectional stream
    (ids ≡ 0,1 mod 4 are bidirectional, 2 / 3 client- / server-initiated
    unidirectional).  The sender half of a stream that cannot send is created
    with `writable=False`: finished from the start, never used. -/
def canSend (ep : Bool) (id : Nat) : Bool :=
  if id % 4 = 2 then ep else if id % 4 = 3 then !ep else true

/-- bookkeeping of one run of the stream loop -/
structure Loop where
  t : Table
  discarded : List Nat := []
  sent : List Nat := []

/-- one iteration of `for stream in self._streams_queue` at endpoint `ep` -/
def serveOne (ep : Bool) (inputs : List (Nat × Int × Nat)) (l : Loop) (id : Nat) : Loop :=
  let so := l.t.get (id, ep)
  let si := l.t.get (id, !ep)
  if (so.send.finished ∨ canSend ep id = false) ∧ si.recv.finished then
    -- if stream.is_finished: pop from _streams, add to _streams_finished
    let t1 := (l.t.on (id, ep) .discardSend).1
    let t2 := (t1.on (id, !ep) .discardRecv).1
    { l with t := t2.addFin ep id, discarded := id :: l.discarded }
  else if so.send.resetPending then
    { l with t := (l.t.on (id, ep) .emitReset).1 }
  else if so.send.bufferIsEmpty then l
  else
    match inputs.lookup id with
    | none => l       -- malformed op: no input recorded for a stream that is served
    | some (space, mo) =>
      let r := l.t.on (id, ep) (.emit space mo)
      match r.2 with
      | .wrote (.ret _ used) => { l with t := r.1, sent := if used > 0 then id :: l.sent else l.sent }
      | _ => { l with t := r.1 }

inductive Op where
  /-- `send_stream_data` / `reset_stream` at endpoint `ep` -/
  | api (ep : Bool) (id : Nat) (c : AppCall)
  /-- a STREAM / RESET_STREAM frame of stream `id` handled at endpoint `ep` -/
  | arrive (ep : Bool) (id : Nat) (a : Arrival)
  /-- a delivery handler of the sender of stream `id` at endpoint `ep` -/
  | report (ep : Bool) (id : Nat) (r : Report)
  /-- one run of the stream loop at `ep`: `n` iterations, then the queue rebuild -/
  | serve (ep : Bool) (n : Nat) (inputs : List (Nat × Int × Nat)) (tail : List Nat)
deriving Repr

def step (t : Table) : Op → Table × List Out
  | .api ep id c =>
    let r := (t.ensure ep id).on (id, ep) c.op
    (r.1, [r.2])
  | .arrive ep id a =>
    let r := (t.ensure ep id).on (id, !ep) a.op
    (r.1, [r.2])
  | .report ep id rp =>
    let r := t.on (id, ep) rp.op
    (r.1, [r.2])
  | .serve ep n inputs tail =>
    let l := ((t.queue ep).take n).foldl (serveOne ep inputs) { t := t }
    let kept := (t.queue ep).filter (fun x => x ∉ l.discarded ∧ x ∉ l.sent)
    let moved := if tail.Perm l.sent then tail else l.sent.reverse
    (l.t.setQueue ep (kept ++ moved), [])

def run (t : Table) (ops : List Op) : Table := ops.foldl (fun t op => (step t op).1) t

/-- the environment's contract: a delivery report names an emitted frame of that
    stream whose delivery was not reported yet (C08), see `StreamSys.okOp` -/
def okOp (t : Table) : Op → Prop
  | .report ep id rp => StreamSys.okOp (t.get (id, ep)) rp.op
  | _ => True

def WF (t : Table) : List Op → Prop
  | [] => True
  | op :: rest => okOp t op ∧ WF (step t op).1 rest

instance (t : Table) (op : Op) : Decidable (okOp t op) := by
  cases op <;> simp only [okOp] <;> infer_instance

instance decWF : (t : Table) → (ops : List Op) → Decidable (WF t ops)
  | _, [] => isTrue trivial
  | t, op :: rest =>
    have := decWF (step t op).1 rest
    by unfold WF; infer_instance

end AQ.StreamTable
