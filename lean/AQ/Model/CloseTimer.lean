/-
  Model of the close / idle-timer machinery of aioquic/quic/connection.py:

    _state / END_STATES, _close_at, _close_event, _close_pending,
    close(), connect()/_connect(), datagrams_to_send() (END-state return,
    the `_close_pending` branch, `_close_begin`), get_timer(), handle_timer(),
    next_event(), _close_begin(), _close_end(),
    _handle_connection_close_frame(), the END-state guard / `_close_at` arming /
    `self.close(...)` on QuicConnectionError / "update idle timeout" of
    receive_datagram(), _receive_version_negotiation_packet(),
    _receive_retry_packet().

  The model follows the code WITH fixes/C09-timer-none.diff and
  fixes/C09-no-network-path.diff applied:
    * get_timer(): `if timer_at is not None and self._state not in END_STATES`
    * handle_timer(): `if self._close_at is None: return`
    * datagrams_to_send(): END-state return first, then
      `if not self._network_paths: return []`
  and the close branch as it is now: the anti-amplification budget applies to
  CONNECTION_CLOSE packets, the reason phrase is shortened to fit and the epoch
  loop is wrapped in `try/except QuicPacketBuilderStop`, so the branch builds
  between 0 and one-per-epoch closing packets (input `npk`), never raises and
  always reaches `_close_begin` — closing starts whether or not a packet could
  be built.

  Time is generic: `T` with the arithmetic `FArith T` of AQ.Model.Recovery
  (the driver instantiates Float = IEEE double, bit-exact with CPython).
  Inputs of the steps (model nondeterminism, never guessed):
    * `idle`  — the value `_idle_timeout()` returned at that statement
    * `pto`   — the value `_loss.get_probe_timeout()` returned in `_close_begin`
    * ack/loss/pacing deadlines read by get_timer()
    * per packet of a datagram, what the packet is (`Pkt`): dropped, version
      negotiation (does it list our version / a common version), Retry (valid
      or not), reserved bits set, or a payload: number of events appended
      before / after a CONNECTION_CLOSE frame (if any) and the
      QuicConnectionError raised by frame handling (if any)
    * send-key validity per epoch, handshake-confirmed flag, number of
      datagrams/packets/events the ordinary send path produced.
-/
import AQ.Base.Basic
import AQ.Model.Recovery

namespace AQ.CloseTimer
open AQ AQ.Recovery

/-- QuicConnectionState -/
inductive CState where
  | firstflight | connected | closing | draining | terminated
deriving Repr, DecidableEq, Inhabited

/-- `state in END_STATES` -/
def CState.isEnd : CState → Bool
  | .closing | .draining | .terminated => true
  | _ => false

def CState.name : CState → String
  | .firstflight => "FIRSTFLIGHT"
  | .connected => "CONNECTED"
  | .closing => "CLOSING"
  | .draining => "DRAINING"
  | .terminated => "TERMINATED"

/-- events.ConnectionTerminated(error_code, frame_type, reason_phrase) -/
structure CloseEv where
  code : Nat
  frameType : Option Nat
  reason : String
deriving Repr, DecidableEq, Inhabited

/-- handle_timer: INTERNAL_ERROR / PADDING / "Idle timeout" -/
def idleEv : CloseEv := ⟨1, some 0, "Idle timeout"⟩
/-- _receive_version_negotiation_packet: no common version -/
def vnEv : CloseEv := ⟨1, some 0, "Could not find a common protocol version"⟩
/-- receive_datagram: reserved bits -/
def reservedEv : CloseEv := ⟨10, some 0, "Reserved bits must be zero"⟩

/-- what is appended to `self._events`: `self._close_event` (an Optional in the
    code) by `_close_end`, anything else by frame handlers / the send path -/
inductive Ev where
  | terminated (e : Option CloseEv)
  | other
deriving Repr, DecidableEq, Inhabited

def Ev.isTerm : Ev → Bool
  | .terminated _ => true
  | .other => false

structure Conn (T : Type) where
  isClient : Bool
  state : CState := .firstflight
  closeAt : Option T := none            -- _close_at
  closeEvent : Option CloseEv := none   -- _close_event
  closePending : Bool := false          -- _close_pending
  connectCalled : Bool := false         -- _connect_called
  hasPath : Bool := false               -- bool(_network_paths)
  vnDone : Bool := false                -- _version_negotiated_incompatible
  retryCount : Nat := 0                 -- _retry_count
  lossAt : Option T := none             -- _loss_at (cached by get_timer)
  events : List Ev := []                -- _events (deque)
  -- ghost state (no counterpart read by the code)
  started : Bool := false               -- connect() or receive_datagram() was called
  log : List Ev := []                   -- everything ever appended to _events
  lossFired : Nat := 0                  -- calls of _loss.on_loss_detection_timeout
  closeBuilds : Nat := 0                -- datagrams_to_send calls that ran the close branch
  closePkts : Nat := 0                  -- closing packets built so far

variable {T : Type}

def Conn.init (isClient : Bool) : Conn T := { isClient := isClient }

/-- `self._events.append(...)` n times for events other than the final one -/
def addOther (s : Conn T) (n : Nat) : Conn T :=
  { s with events := s.events ++ List.replicate n .other,
           log := s.log ++ List.replicate n .other }

/-- _close_begin -/
def closeBegin (A : FArith T) (s : Conn T) (isInitiator : Bool) (now pto : T) : Conn T :=
  { s with closeAt := some (A.add now (A.mul (A.ofNat 3) pto)),
           state := if isInitiator then .closing else .draining }

/-- _close_end (appends `self._close_event`, whatever it is) -/
def closeEnd (s : Conn T) : Conn T :=
  { s with closeAt := none,
           events := s.events ++ [.terminated s.closeEvent],
           log := s.log ++ [.terminated s.closeEvent],
           state := .terminated }

/-- _connect: `self._close_at = now + self._idle_timeout()` -/
def connectInner (A : FArith T) (s : Conn T) (now idle : T) : Conn T :=
  { s with closeAt := some (A.add now idle) }

/-- close() -/
def apiClose (s : Conn T) (e : CloseEv) : Conn T :=
  if s.closeEvent.isNone ∧ ¬ s.state.isEnd then
    { s with closeEvent := some e, closePending := true }
  else s

/-- connect() -/
def connect (A : FArith T) (s : Conn T) (now idle : T) : Outcome (Conn T) :=
  if s.isClient ∧ ¬ s.connectCalled then
    .ok (connectInner A { s with connectCalled := true, hasPath := true, started := true } now idle)
  else .error (.py .assertion)

/-- one packet of a datagram, as far as the close machinery can tell -/
inductive Pkt (T : Type) where
  /-- dropped by a `continue` (no keys, decryption failure, duplicate) -/
  | drop
  /-- dropped by a `return` (header parse error, small Initial, unknown CID,
      unsupported version, non-Initial first packet) -/
  | dropRet
  /-- reached `_receive_version_negotiation_packet` -/
  | vn (ours common : Bool) (idle : T)
  /-- reached `_receive_retry_packet`; `valid` = CID and integrity tag match -/
  | retry (valid : Bool) (idle : T)
  /-- decrypted, reserved bits set -/
  | reserved
  /-- decrypted, `_payload_received` ran: `pre` events, then a CONNECTION_CLOSE
      frame `pc` (with the PTO `_close_begin` would read), then `post` events,
      then possibly QuicConnectionError `err`; `idle` is `_idle_timeout()` at
      "update idle timeout" -/
  | payload (pre : Nat) (pc : Option CloseEv) (pto : T) (post : Nat) (err : Option CloseEv) (idle : T)

/-- "Server initialization": `self._network_paths = [network_path]` -/
def serverInit (s : Conn T) : Conn T :=
  if ¬ s.isClient ∧ s.state = .firstflight then { s with hasPath := true } else s

/-- _handle_connection_close_frame -/
def handleCloseFrame (A : FArith T) (s : Conn T) (e : CloseEv) (now pto : T) : Conn T :=
  if s.closeEvent.isNone then closeBegin A { s with closeEvent := some e } false now pto else s

/-- body of the `while not buf.eof()` loop for one packet; `(s, true)` = the
    loop goes on, `(s, false)` = `return` -/
def rxPkt (A : FArith T) (s : Conn T) (now : T) : Pkt T → Conn T × Bool
  | .drop => (serverInit s, true)
  | .dropRet => (s, false)
  | .vn ours common idle =>
    if s.isClient ∧ s.state = .firstflight ∧ ¬ s.vnDone then
      if ours then (s, false)
      else if ¬ common then (closeEnd { s with closeEvent := some vnEv }, false)
      else (connectInner A { s with vnDone := true } now idle, false)
    else (s, false)
  | .retry valid idle =>
    if s.isClient ∧ s.retryCount = 0 ∧ valid then
      (connectInner A { s with retryCount := s.retryCount + 1 } now idle, false)
    else (s, false)
  | .reserved => (apiClose (serverInit s) reservedEv, false)
  | .payload pre pc pto post err idle =>
    let s := serverInit s
    let s := if s.state = .firstflight then { s with state := .connected } else s
    let s := addOther s pre
    let s := match pc with
      | some e => handleCloseFrame A s e now pto
      | none => s
    let s := addOther s post
    let s := match err with
      | some e => apiClose s e
      | none => s
    if s.state.isEnd ∨ s.closePending then (s, false)
    else ({ s with closeAt := some (A.add now idle) }, true)

def rxPkts (A : FArith T) (s : Conn T) (now : T) : List (Pkt T) → Conn T
  | [] => s
  | p :: ps =>
    match rxPkt A s now p with
    | (s', true) => rxPkts A s' now ps
    | (s', false) => s'

/-- receive_datagram.  `idle0` = `_idle_timeout()` at "arm the idle timeout on
    the first datagram". -/
def rx (A : FArith T) (s : Conn T) (now idle0 : T) (pkts : List (Pkt T)) : Conn T :=
  let s := { s with started := true }
  if s.state.isEnd then s else
  let s := if s.closeAt.isNone then { s with closeAt := some (A.add now idle0) } else s
  rxPkts A s now pkts

/-- inputs of datagrams_to_send -/
structure SendIn (T : Type) where
  hsConfirmed : Bool       -- _handshake_confirmed
  keyI : Bool              -- _cryptos[INITIAL].send.is_valid()
  keyH : Bool
  key1 : Bool
  pto : T                  -- get_probe_timeout() in _close_begin
  ndg : Nat                -- datagrams the builder flushed
  npk : Nat                -- packets the builder emitted (either branch)
  evs : Nat                -- events the ordinary path appended (ConnectionIdIssued)

structure Sent where
  datagrams : Nat := 0
  closing : Nat := 0       -- packets carrying only CONNECTION_CLOSE
  data : Nat := 0          -- any other packet
deriving Repr, DecidableEq

def b2n (b : Bool) : Nat := if b then 1 else 0

/-- number of packets the `_close_pending` branch builds -/
def closePacketCount (i : SendIn T) : Nat :=
  (if ¬ i.hsConfirmed then b2n i.keyI + b2n i.keyH else 0) + b2n i.key1

/-- datagrams_to_send -/
def datagramsToSend (A : FArith T) (s : Conn T) (now : T) (i : SendIn T) : Conn T × Sent :=
  if s.state.isEnd then (s, {})
  else if ¬ s.hasPath then (s, {})
  else if s.closePending then
    -- one `start_packet` + CONNECTION_CLOSE per epoch with valid send keys;
    -- the builder may emit fewer (byte limits), never more
    let n := min i.npk (closePacketCount i)
    let s := { s with closePending := false, closeBuilds := s.closeBuilds + 1,
                      closePkts := s.closePkts + n }
    (closeBegin A s true now i.pto, { datagrams := if n = 0 then 0 else i.ndg, closing := n })
  else
    (addOther s i.evs, { datagrams := i.ndg, data := i.npk })

/-- one `if x is not None and x < timer_at: timer_at = x` -/
def minOpt (A : FArith T) (t : T) : Option T → T
  | some x => if A.lt x t then x else t
  | none => t

/-- get_timer -/
def getTimer (A : FArith T) (s : Conn T) (acks : List (Option T)) (loss pacing : Option T) :
    Conn T × Option T :=
  match s.closeAt with
  | none => (s, none)
  | some c =>
    if s.state.isEnd then (s, some c) else
    let t := acks.foldl (minOpt A) c
    let s := { s with lossAt := loss }
    let t := minOpt A t loss
    let t := minOpt A t pacing
    (s, some t)

/-- handle_timer -/
def handleTimer (A : FArith T) (s : Conn T) (now : T) : Conn T :=
  match s.closeAt with
  | none => s
  | some c =>
    if A.le c now then
      let s := if s.closeEvent.isNone then { s with closeEvent := some idleEv } else s
      closeEnd s
    else
      match s.lossAt with
      | some l => if A.le l now then { s with lossFired := s.lossFired + 1 } else s
      | none => s

/-- next_event -/
def nextEvent (s : Conn T) : Conn T × Option Ev :=
  match s.events with
  | [] => (s, none)
  | e :: es => ({ s with events := es }, some e)

/-- the operations of the public API the property quantifies over -/
inductive Op (T : Type) where
  | connect (now idle : T)
  | rx (now idle0 : T) (pkts : List (Pkt T))
  | close (e : CloseEv)
  | send (now : T) (i : SendIn T)
  | timer (acks : List (Option T)) (loss pacing : Option T)
  | fire (now : T)
  | next

/-- one API call; a raising call leaves the state unchanged -/
def step (A : FArith T) (s : Conn T) : Op T → Conn T
  | .connect now idle =>
    match connect A s now idle with
    | .ok s' => s'
    | .error _ => s
  | .rx now idle0 pkts => rx A s now idle0 pkts
  | .close e => apiClose s e
  | .send now i => (datagramsToSend A s now i).1
  | .timer acks loss pacing => (getTimer A s acks loss pacing).1
  | .fire now => handleTimer A s now
  | .next => (nextEvent s).1

def run (A : FArith T) (s : Conn T) (ops : List (Op T)) : Conn T := ops.foldl (step A) s

/-- documented usage: a client calls connect() before it is fed datagrams
    ("This method can only be called for clients and a single time", and the
    connection has no peer before it) -/
def Op.usageOk (s : Conn T) : Op T → Prop
  | .rx _ _ _ => s.isClient = true → s.connectCalled = true
  | _ => True

/-- every op of the sequence respects `usageOk` in the state it is applied to -/
def Usage (A : FArith T) : Conn T → List (Op T) → Prop
  | _, [] => True
  | s, op :: ops => op.usageOk s ∧ Usage A (step A s op) ops

end AQ.CloseTimer
