/-
  Symbolic two-party view of the Finished exchange (C03 agreement / byte flip).
  Hash, MAC and key derivation are uninterpreted; their security properties are
  HYPOTHESES of the theorems (never axioms).

  What each endpoint does around the Finished messages is what the generated
  machine does (`AQ.Props.C03.transcript_coverage`): it MACs its own transcript
  prefix with the read key and completes only if the received verify_data is
  equal (VerifyFinished), and it sends the MAC of its own prefix under the write
  key (ComputeMac enc; PushMessage FINISHED).
-/
namespace AQ.TlsSym

structure Prims (Msg H K Tag : Type) where
  hash : List Msg → H
  mac : K → H → Tag

/-- one endpoint's handling of the two Finished messages -/
structure View (Msg K Tag : Type) where
  /-- own transcript when the peer's Finished is checked -/
  prefixIn : List Msg
  keyIn : K
  /-- verify_data of the Finished that arrived -/
  received : Tag
  /-- own transcript when the own Finished is computed -/
  prefixOut : List Msg
  keyOut : K
  sent : Tag

variable {Msg H K Tag : Type}

/-- VerifyFinished passed -/
def View.accepts (P : Prims Msg H K Tag) (v : View Msg K Tag) : Prop :=
  v.received = P.mac v.keyIn (P.hash v.prefixIn)

/-- the endpoint computes its Finished as the code does -/
def View.honest (P : Prims Msg H K Tag) (v : View Msg K Tag) : Prop :=
  v.sent = P.mac v.keyOut (P.hash v.prefixOut)

/-- hash collision freedom -/
def HashInjective (P : Prims Msg H K Tag) : Prop := ∀ a b, P.hash a = P.hash b → a = b

/-- MAC collision freedom -/
def MacInjective (P : Prims Msg H K Tag) : Prop :=
  ∀ k k' h h', P.mac k h = P.mac k' h' → k = k' ∧ h = h'

/-- unforgeability, symbolically: the only verify_data valid under the receiver's
    read key that can reach it is the one its peer sent (nobody else holds the key) -/
def Unforgeable (P : Prims Msg H K Tag) (r s : View Msg K Tag) : Prop :=
  ∀ h, r.received = P.mac r.keyIn h → r.received = s.sent

/-- replace position `i` of a transcript -/
def alter (l : List Msg) (i : Nat) (m : Msg) : List Msg := l.set i m

end AQ.TlsSym
