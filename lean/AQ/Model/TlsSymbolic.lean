/-
  Symbolic two-party view of the Finished exchange (C03 agreement / byte flip).
  Hash, MAC and key derivation are uninterpreted; their security properties are
  HYPOTHESES of the theorems (never axioms).

  What each endpoint does around the Finished messages is what the generated
  machine does (`AQ.Props.C03.transcript_coverage`): it MACs its own transcript
  prefix with the read key and completes only if the received verify_data is
  equal (VerifyFinished), and it sends the MAC of its own prefix under the write
  key (ComputeMac enc; PushMessage FINISHED).
-/
namespace AQ.TlsSym

structure Prims (Msg H K Tag : Type) where
  hash : List Msg → H
  mac : K → H → Tag

/-- one endpoint's handling of the two Finished messages -/
structure View (Msg K Tag : Type) where
  /-- own transcript when the peer's Finished is checked -/
  prefixIn : List Msg
  keyIn : K
  /-- verify_data of the Finished that arrived -/
  received : Tag
  /-- own transcript when the own Finished is computed -/
  prefixOut : List Msg
  keyOut : K
  sent : Tag

variable {Msg H K Tag : Type}

/-- VerifyFinished passed -/
def View.accepts (P : Prims Msg H K Tag) (v : View Msg K Tag) : Prop :=
  v.received = P.mac v.keyIn (P.hash v.prefixIn)

/-- the endpoint computes its Finished as the code does -/
def View.honest (P : Prims Msg H K Tag) (v : View Msg K Tag) : Prop :=
  v.sent = P.mac v.keyOut (P.hash v.prefixOut)

/-- hash collision freedom -/
def HashInjective (P : Prims Msg H K Tag) : Prop := ∀ a b, P.hash a = P.hash b → a = b

/-- MAC collision freedom -/
def MacInjective (P : Prims Msg H K Tag) : Prop :=
  ∀ k k' h h', P.mac k h = P.mac k' h' → k = k' ∧ h = h'

/-- unforgeability, symbolically: the only verify_data valid under the receiver's
    read key that can reach it is the one its peer sent (nobody else holds the key) -/
def Unforgeable (P : Prims Msg H K Tag) (r s : View Msg K Tag) : Prop :=
  ∀ h, r.received = P.mac r.keyIn h → r.received = s.sent

/-- replace position `i` of a transcript -/
def alter (l : List Msg) (i : Nat) (m : Msg) : List Msg := l.set i m


/-! ### what the endpoints report, as functions of the transcript

The transcript starts ClientHello, ServerHello, EncryptedExtensions (RFC 8446 §2;
`AQ.Props.C03.order_matches_rfc` for tls.py).  Everything the two QUIC
endpoints report about the handshake is read from (client) or was written into
(server) one of these three messages:

  cipher suite, resumption (pre_shared_key selected)      ServerHello
  ALPN protocol, 0-RTT accepted (early_data)              EncryptedExtensions
  client transport parameters incl. version_information,
  0-RTT offered (early_data)                              ClientHello extensions
  server transport parameters incl. version_information   EncryptedExtensions extensions

(QUIC transport parameters travel in the `quic_transport_parameters` extension,
so they are part of the transcript, RFC 9001 §8.2.) -/

structure Fields (Msg Suite Alpn TP : Type) where
  cipherSuite : Msg → Suite
  pskSelected : Msg → Bool
  alpn : Msg → Alpn
  earlyData : Msg → Bool
  transportParams : Msg → TP

structure Report (Suite Alpn TP : Type) where
  cipherSuite : Suite
  resumed : Bool
  alpn : Alpn
  earlyDataOffered : Bool
  earlyDataAccepted : Bool
  clientTransportParams : TP
  serverTransportParams : TP

def report {Suite Alpn TP : Type} (F : Fields Msg Suite Alpn TP) : List Msg → Option (Report Suite Alpn TP)
  | ch :: sh :: ee :: _ =>
    some ⟨F.cipherSuite sh, F.pskSelected sh, F.alpn ee, F.earlyData ch, F.earlyData ee,
          F.transportParams ch, F.transportParams ee⟩
  | _ => none

/-- the secrets of RFC 8446 §7.1 as functions of the input keying material
    ((EC)DHE output, PSK) and of transcript prefixes: early (ClientHello),
    handshake (..ServerHello), application (..server Finished), resumption
    (..client Finished) -/
structure Secrets (Sec : Type) where
  early : Sec
  handshake : Sec
  application : Sec
  resumption : Sec

/-- `t` = the endpoint's transcript up to (excluding) the client Finished, `n` =
    number of messages before the server Finished, `cfin` = the client Finished -/
def secrets {IKM PSK Sec : Type} (P : Prims Msg H K Tag) (kdf : IKM → PSK → H → Nat → Sec)
    (ikm : IKM) (psk : PSK) (t : List Msg) (n : Nat) (cfin : Msg) : Secrets Sec :=
  ⟨kdf ikm psk (P.hash (t.take 1)) 0,
   kdf ikm psk (P.hash (t.take 2)) 1,
   kdf ikm psk (P.hash (t.take (n + 1))) 2,
   kdf ikm psk (P.hash (t ++ [cfin])) 3⟩

end AQ.TlsSym
