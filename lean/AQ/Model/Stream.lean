/-
  Model of aioquic/quic/stream.py: QuicStreamReceiver and QuicStreamSender,
  statement by statement.  Python exceptions are outcomes.
-/
import AQ.Base.Basic
import AQ.Base.RangeSet

namespace AQ.Stream
open AQ AQ.RangeSet

/-- a STREAM frame as seen by the receive half -/
structure Frame where
  offset : Nat
  data : Bytes
  fin : Bool
deriving Repr, DecidableEq, Inhabited

def Frame.stop (f : Frame) : Nat := f.offset + f.data.length

/-- events.StreamDataReceived(data, end_stream) -/
structure DataEv where
  data : Bytes
  endStream : Bool
deriving Repr, DecidableEq, Inhabited

/-! ## Receiver -/

structure Recv where
  highest : Nat := 0
  finished : Bool := false
  buffer : Bytes := []
  bufStart : Nat := 0
  finalSize : Option Nat := none
  ranges : List Rg := []
deriving Repr, DecidableEq, Inhabited

/-- `_pull_data` -/
def pullData (s : Recv) : Recv × Bytes :=
  match s.ranges with
  | [] => (s, [])
  | r :: rest =>
    if r.start = s.bufStart then
      let pos := r.stop - r.start
      ({ s with ranges := rest, buffer := s.buffer.drop pos, bufStart := r.stop }, s.buffer.take pos)
    else (s, [])

/-- the final-size guard of `handle_frame` -/
def frameFinalSizeError (fs : Option Nat) (f : Frame) : Bool :=
  match fs with
  | none => false
  | some z => decide (f.stop > z) || (f.fin && decide (f.stop ≠ z))

/-- `QuicStreamReceiver.handle_frame` -/
def handleFrame (s : Recv) (f : Frame) : Outcome (Recv × Option DataEv) :=
  let count := f.data.length
  let frameEnd := f.offset + count
  if frameFinalSizeError s.finalSize f then .error .finalSize else
  let s := if f.fin then { s with finalSize := some frameEnd } else s
  let s := if frameEnd > s.highest then { s with highest := frameEnd } else s
  -- fast path: new in-order chunk
  if f.offset = s.bufStart ∧ count ≠ 0 ∧ s.buffer = [] then
    let s := { s with bufStart := s.bufStart + count }
    let s := if f.fin then { s with finished := true } else s
    .ok (s, some ⟨f.data, f.fin⟩)
  else
  -- discard duplicate data  (pos < 0)
  let (data, offset, pos) :=
    if f.offset < s.bufStart then (f.data.drop (s.bufStart - f.offset), s.bufStart, 0)
    else (f.data, f.offset, f.offset - s.bufStart)
  -- mark received range
  let s := if frameEnd > offset then { s with ranges := add offset frameEnd s.ranges } else s
  -- add new data
  let buf := if pos > s.buffer.length then s.buffer ++ List.replicate (pos - s.buffer.length) 0 else s.buffer
  let s := { s with buffer := sliceAssign buf pos data }
  -- return data from the front of the buffer
  let (s, out) := pullData s
  let endStream := decide (some s.bufStart = s.finalSize)
  let s := if endStream then { s with finished := true } else s
  if out ≠ [] ∨ endStream then .ok (s, some ⟨out, endStream⟩) else .ok (s, none)

/-- `QuicStreamReceiver.handle_reset(final_size)`: returns the new state (a
    StreamReset event is always produced on success). -/
def handleReset (s : Recv) (finalSize : Nat) : Outcome Recv :=
  match s.finalSize with
  | some z => if finalSize ≠ z then .error .finalSize
              else .ok { s with finalSize := some finalSize, finished := true,
                                highest := max s.highest finalSize }
  | none => .ok { s with finalSize := some finalSize, finished := true,
                         highest := max s.highest finalSize }

/-! ## Sender -/

inductive Delivery where
  | acked | lost
deriving Repr, DecidableEq, Inhabited

structure Send where
  bufferIsEmpty : Bool := true
  highest : Nat := 0
  finished : Bool := false
  resetPending : Bool := false
  acked : List Rg := []
  ackedFin : Bool := false
  buffer : Bytes := []
  bufFin : Option Nat := none
  bufStart : Nat := 0
  bufStop : Nat := 0
  pending : List Rg := []
  pendingEof : Bool := false
  resetCode : Option Nat := none
deriving Repr, DecidableEq, Inhabited

def Send.init (writable : Bool) : Send := { finished := !writable }

/-- `next_offset` property -/
def nextOffset (s : Send) : Nat :=
  match s.pending with
  | [] => s.bufStop
  | r :: _ => r.start

/-- a frame produced by `get_frame` (data may be empty for a FIN-only frame) -/
structure OutFrame where
  offset : Nat
  data : Bytes
  fin : Bool
deriving Repr, DecidableEq, Inhabited

/-- `QuicStreamSender.get_frame(max_size, max_offset)`.  A FIN-only frame with
    `_buffer_fin = None` cannot be built by the real code (offset=None) – the
    model reports it as `TypeError` (unreachable: `pendingEof → bufFin.isSome`). -/
def getFrame (s : Send) (maxSize : Nat) (maxOffset : Option Nat) : Outcome (Send × Option OutFrame) :=
  if s.resetCode.isSome then .error (.py .assertion) else
  match s.pending with
  | [] =>
    if s.pendingEof then
      match s.bufFin with
      | some z => .ok ({ s with pendingEof := false }, some ⟨z, [], true⟩)
      | none => .error (.py .typeErr)
    else .ok ({ s with bufferIsEmpty := true }, none)
  | r :: _ =>
    let start := r.start
    let stop := min r.stop (start + maxSize)
    let stop := match maxOffset with
      | some mo => if stop > mo then mo else stop
      | none => stop
    if stop ≤ start then .ok (s, none) else
    let data := pySlice s.buffer ((start : Int) - s.bufStart) ((stop : Int) - s.bufStart)
    let s := { s with pending := subtract start stop s.pending }
    let s := if stop > s.highest then { s with highest := stop } else s
    if s.bufFin = some stop then
      .ok ({ s with pendingEof := false }, some ⟨start, data, true⟩)
    else .ok (s, some ⟨start, data, false⟩)

/-- `get_reset_frame` : returns (state, final_size) -/
def getResetFrame (s : Send) : Send × Nat := ({ s with resetPending := false }, s.highest)

/-- `on_data_delivery(delivery, start, stop, fin)` -/
def onDataDelivery (s : Send) (d : Delivery) (start stop : Nat) (fin : Bool) : Outcome Send :=
  if fin ∧ some stop ≠ s.bufFin then .error (.py .assertion) else
  if s.resetCode.isSome then .ok s else
  match d with
  | .acked =>
    let s :=
      if stop > start then
        let acked := add start stop s.acked
        match acked with
        | [] => { s with acked := acked }   -- unreachable (add never returns [])
        | fr :: rest =>
          if fr.start = s.bufStart then
            let size := fr.stop - fr.start
            { s with acked := rest, bufStart := s.bufStart + size, buffer := s.buffer.drop size }
          else { s with acked := acked }
      else s
    let s := if fin then { s with ackedFin := true } else s
    if some s.bufStart = s.bufFin ∧ s.ackedFin then .ok { s with finished := true } else .ok s
  | .lost =>
    let s := if stop > start then
      { s with bufferIsEmpty := false, pending := add start stop s.pending } else s
    let s := if fin then { s with bufferIsEmpty := false, pendingEof := true } else s
    .ok s

/-- `on_reset_delivery` -/
def onResetDelivery (s : Send) (d : Delivery) : Send :=
  match d with
  | .acked => { s with finished := true }
  | .lost => { s with resetPending := true }

/-- `reset(error_code)` -/
def reset (s : Send) (code : Nat) : Send :=
  if s.resetCode.isNone then
    { s with resetCode := some code, resetPending := true, bufferIsEmpty := true }
  else s

/-- `write(data, end_stream)` -/
def write (s : Send) (data : Bytes) (endStream : Bool) : Outcome Send :=
  if s.bufFin.isSome then .error (.py .assertion) else
  if s.resetCode.isSome then .error (.py .assertion) else
  let size := data.length
  let s := if size ≠ 0 then
    { s with bufferIsEmpty := false,
             pending := add s.bufStop (s.bufStop + size) s.pending,
             buffer := s.buffer ++ data, bufStop := s.bufStop + size } else s
  let s := if endStream then
    { s with bufferIsEmpty := false, bufFin := some s.bufStop, pendingEof := true } else s
  .ok s

end AQ.Stream
