/-
  Model of `aioquic.h0.connection.H0Connection.handle_event` (HTTP/0.9 over
  QUIC, "hq-interop").  Core Lean only.
-/
import AQ.Base.Basic
namespace AQ.H0

inductive Event where
  /-- `HeadersReceived(headers, stream_ended=False, stream_id)` -/
  | headers (hs : List (Bytes × Bytes)) (streamId : Nat)
  /-- `DataReceived(data, stream_ended, stream_id)` -/
  | data (d : Bytes) (streamId : Nat) (ended : Bool)
  deriving Repr, DecidableEq, Inhabited

structure State where
  isClient : Bool := false
  /-- quirk (`true` = unchanged tree): `method, path = data.rstrip().split(b" ", 1)`
      raises ValueError when the request line has no space -/
  splitRaises : Bool := false
  /-- `self._buffer` -/
  buffer : List (Nat × Bytes) := []
  /-- stream ids with `self._headers_received[id] = True` -/
  headersReceived : List Nat := []
  deriving Repr, DecidableEq, Inhabited

/-- ASCII whitespace stripped by `bytes.rstrip()` -/
def isWs (b : UInt8) : Bool :=
  b = 0x20 || b = 0x09 || b = 0x0a || b = 0x0d || b = 0x0b || b = 0x0c

def rstrip (b : Bytes) : Bytes := (b.reverse.dropWhile isWs).reverse

/-- `b.split(b" ", 1)` when it yields two parts -/
def splitSp : Bytes → Option (Bytes × Bytes)
  | [] => none
  | x :: r =>
    if x = 0x20 then some ([], r)
    else match splitSp r with
      | some (a, b) => some (x :: a, b)
      | none => none

def endsCRLF (b : Bytes) : Bool := b.reverse.take 2 = [0x0a, 0x0d]

def popBuf (sid : Nat) : List (Nat × Bytes) → Bytes × List (Nat × Bytes)
  | [] => ([], [])
  | (i, d) :: r => if i = sid then (d, r) else let (x, r') := popBuf sid r; (x, (i, d) :: r')

def kMethod : Bytes := [0x3a, 0x6d, 0x65, 0x74, 0x68, 0x6f, 0x64]
def kPath : Bytes := [0x3a, 0x70, 0x61, 0x74, 0x68]

/-- `H0Connection.handle_event(StreamDataReceived(stream_id, data, end_stream))` -/
def handleEvent (s : State) (sid : Nat) (data : Bytes) (fin : Bool) : Outcome (State × List Event) :=
  if sid % 4 ≠ 0 then .ok (s, [])
  else
    let (old, buf) := popBuf sid s.buffer
    let d := old ++ data
    if s.headersReceived.contains sid then .ok ({ s with buffer := buf }, [.data d sid fin])
    else if s.isClient then
      .ok ({ s with buffer := buf, headersReceived := sid :: s.headersReceived },
           [.headers [] sid, .data d sid fin])
    else if endsCRLF d || fin then
      match splitSp (rstrip d) with
      | some (m, p) =>
        .ok ({ s with buffer := buf, headersReceived := sid :: s.headersReceived },
             [.headers [(kMethod, m), (kPath, p)] sid, .data [] sid fin])
      | none =>
        if s.splitRaises then .error (.py .value)
        else
          .ok ({ s with buffer := buf, headersReceived := sid :: s.headersReceived },
               [.headers [(kMethod, rstrip d), (kPath, [])] sid, .data [] sid fin])
    else .ok ({ s with buffer := buf ++ [(sid, d)] }, [])

end AQ.H0
