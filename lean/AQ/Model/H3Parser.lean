/-
  Executable model of the receive side of `aioquic.h3.connection.H3Connection`
  (`handle_event`, `_receive_stream_data`, `_receive_request_or_push_data`,
  `_receive_stream_data_uni`, `_handle_request_or_push_frame`,
  `_handle_control_frame`, `_receive_datagram`, `parse_settings`,
  `parse_max_push_id`, `_validate_settings`, `_get_or_create_stream`) in the
  `Outcome` style.  Core Lean only.

  * `.error (.h3 code)`     a `ProtocolError` subclass (caught by `handle_event`,
                            turned into `quic.close(code)` and `_is_done`)
  * any other `.error`      an exception that ESCAPES `handle_event`
                            (`handle_event` catches only `ProtocolError`)

  pylsqpack, the header validators (`validate_*`, modelled by C15) and
  CPython's UTF-8 codec (used by the qlog encoder) are PARAMETERS: an
  `Oracle σ` with its own state `σ` (the QPACK dynamic table, …).

  `Quirks`: every field `false` = required behaviour (= the behaviour after the
  proposed fix diff in `fixes/`); `true` = what the unchanged code does.
-/
import AQ.Base.Basic
namespace AQ.H3

abbrev Header := Bytes × Bytes
abbrev Headers := List Header

/-! ## varints (RFC 9000 §16), local copy; codec laws are C17's business -/

def varintLen (b : UInt8) : Nat :=
  match b.toNat / 64 with
  | 0 => 1
  | 1 => 2
  | 2 => 4
  | _ => 8

def beNat (acc : Nat) : Bytes → Nat
  | [] => acc
  | b :: r => beNat (acc * 256 + b.toNat) r

/-- `Buffer.pull_uint_var`: `none` = `BufferReadError`. -/
def pullVarint : Bytes → Option (Nat × Bytes)
  | [] => none
  | b :: rest =>
    if rest.length < varintLen b - 1 then none
    else some (beNat (b.toNat % 64) (rest.take (varintLen b - 1)), rest.drop (varintLen b - 1))

/-- big-endian bytes of `v` on `n` bytes -/
def beBytes : Nat → Nat → Bytes
  | 0, _ => []
  | n + 1, v => UInt8.ofNat (v / 256 ^ n % 256) :: beBytes n v

/-- `Buffer.push_uint_var` / `encode_uint_var` (`none` = ValueError, too big). -/
def encVarint (v : Nat) : Option Bytes :=
  if v < 2 ^ 6 then some [UInt8.ofNat v]
  else if v < 2 ^ 14 then some (UInt8.ofNat (v / 256 + 0x40) :: beBytes 1 v)
  else if v < 2 ^ 30 then some (UInt8.ofNat (v / 256 ^ 3 + 0x80) :: beBytes 3 v)
  else if v < 2 ^ 62 then some (UInt8.ofNat (v / 256 ^ 7 + 0xC0) :: beBytes 7 v)
  else none

/-- `encode_frame(frame_type, frame_data)` -/
def encodeFrame (t : Nat) (d : Bytes) : Option Bytes := do
  let a ← encVarint t
  let b ← encVarint d.length
  pure (a ++ b ++ d)

/-- one complete frame off the front: type, payload, rest -/
def parseFrame (b : Bytes) : Option (Nat × Bytes × Bytes) :=
  match pullVarint b with
  | none => none
  | some (t, r1) =>
    match pullVarint r1 with
    | none => none
    | some (n, r2) => if r2.length < n then none else some (t, r2.take n, r2.drop n)

/-! ## events -/

inductive Event where
  | headers (hs : Headers) (streamId : Nat) (ended : Bool) (pushId : Option Nat)
  | data (d : Bytes) (streamId : Nat) (ended : Bool) (pushId : Option Nat)
  | pushPromise (hs : Headers) (pushId : Nat) (streamId : Nat)
  | wt (d : Bytes) (streamId : Nat) (ended : Bool) (sessionId : Nat)
  | datagram (d : Bytes) (streamId : Nat)
  deriving Repr, DecidableEq, Inhabited

/-! ## quirks: `true` = behaviour of the unchanged tree -/

structure Quirks where
  /-- C14 (b)/(d): the end of a stream in the middle of a frame is not an error
      and is reported differently by the DATA-fragment shortcut (never
      `stream_ended`), the lone-FIN path (`stream_ended` even in mid-frame) and
      the frame loop (`stream_ended` on a partial DATA chunk) -/
  truncatedNoError : Bool := false
  /-- C14 (a): a final frame that produces no event carrying `stream_ended`
      (unknown/grease type, PUSH_PROMISE) loses the end of the stream -/
  silentFrameNoEnd : Bool := false
  /-- C14 (c): a PUSH_PROMISE blocked on the encoder stream is resumed as if it
      had been a HEADERS frame -/
  blockedPushAsHeaders : Bool := false
  /-- C16: `parse_max_push_id` asserts / lets BufferReadError escape -/
  maxPushIdRaises : Bool := false
  /-- C16: `parse_settings` lets BufferReadError escape on a truncated pair -/
  settingsBufferRead : Bool := false
  /-- C16: PUSH_PROMISE push id `pull_uint_var` lets BufferReadError escape -/
  pushPromiseBufferRead : Bool := false
  /-- C16: `self._stream[stream_id]` for an unblocked id not in the table -/
  unblockedKeyError : Bool := false
  /-- C16/C20: qlog `_encode_http3_headers` decodes header bytes strictly -/
  logDecode : Bool := false
  deriving Repr, DecidableEq, Inhabited

/-- what the unchanged tree does -/
def Quirks.current : Quirks :=
  { truncatedNoError := true, silentFrameNoEnd := true, blockedPushAsHeaders := true,
    maxPushIdRaises := true, settingsBufferRead := true, pushPromiseBufferRead := true,
    unblockedKeyError := true, logDecode := true }

structure Cfg where
  isClient : Bool
  /-- `quic._quic_logger is not None` -/
  logging : Bool := false
  /-- `quic._remote_max_datagram_frame_size is not None` -/
  hasRemoteDatagram : Bool := false
  k : Quirks := {}
  deriving Repr, DecidableEq, Inhabited

/-! ## oracle: pylsqpack + validators + utf-8 -/

inductive DecodeResult where
  | blocked                 -- pylsqpack.StreamBlocked
  | headers (hs : Headers)
  | failed                  -- pylsqpack.DecompressionFailed
  deriving Repr, DecidableEq, Inhabited

inductive ResumeResult where
  | headers (hs : Headers)
  | failed
  deriving Repr, DecidableEq, Inhabited

inductive EncResult where
  /-- the ids in the iteration order of the Python `set` built from the answer -/
  | unblocked (ids : List Nat)
  | error                   -- pylsqpack.EncoderStreamError
  deriving Repr, DecidableEq, Inhabited

inductive HKind where
  | request | response | trailers | pushPromise
  deriving Repr, DecidableEq, Inhabited

inductive VResult where
  /-- accepted; `cl` = the content-length the validator stored on the stream -/
  | ok (cl : Option Nat)
  | invalid                 -- MessageError
  deriving Repr, DecidableEq, Inhabited

structure Oracle (σ : Type) where
  decode : σ → Nat → Bytes → DecodeResult × σ       -- Decoder.feed_header
  resume : σ → Nat → ResumeResult × σ               -- Decoder.resume_header
  feedEncoder : σ → Bytes → EncResult × σ           -- Decoder.feed_encoder
  feedDecoder : σ → Bytes → Bool × σ                -- Encoder.feed_decoder (false = DecoderStreamError)
  validate : σ → HKind → Headers → VResult × σ      -- validate_*_headers
  logOk : σ → Headers → Bool × σ                    -- strict utf-8 decoding of every name/value succeeds

/-! ## per-stream state (`H3Stream`) -/

inductive HState where
  | initial | afterHeaders | afterTrailers
  deriving Repr, DecidableEq, Inhabited

/-- the attributes of `H3Stream` that `_handle_request_or_push_frame` and
    `_check_content_length` read or write -/
structure PState where
  streamId : Nat
  pushId : Option Nat := none
  /-- `headers_recv_state` -/
  recvState : HState := .initial
  /-- `expected_content_length` -/
  expectedCL : Option Nat := none
  /-- `content_length` -/
  contentLength : Nat := 0
  deriving Repr, DecidableEq, Inhabited

/-- `H3Stream` (= `p` + the attributes only the stream parsers touch) -/
structure Stream where
  p : PState
  blocked : Bool := false
  blockedFrameSize : Option Nat := none
  buffer : Bytes := []
  receivingEnded : Bool := false
  sendingEnded : Bool := false
  frameSize : Option Nat := none
  frameType : Option Nat := none
  sendState : HState := .initial
  sessionId : Option Nat := none
  streamType : Option Nat := none
  /-- only in the fixed code (`blockedPushAsHeaders = false`): push id of the
      PUSH_PROMISE frame this stream is blocked on -/
  blockedPush : Option Nat := none
  deriving Repr, DecidableEq, Inhabited

@[reducible] def Stream.streamId (s : Stream) : Nat := s.p.streamId
@[reducible] def Stream.pushId (s : Stream) : Option Nat := s.p.pushId
@[reducible] def Stream.recvState (s : Stream) : HState := s.p.recvState
@[reducible] def Stream.expectedCL (s : Stream) : Option Nat := s.p.expectedCL
@[reducible] def Stream.contentLength (s : Stream) : Nat := s.p.contentLength

/-- `H3Stream(stream_id)` -/
def Stream.new (sid : Nat) : Stream := { p := { streamId := sid } }

def Stream.isEnded (s : Stream) : Bool := s.sendingEnded && s.receivingEnded && !s.blocked

/-- `_check_content_length` -/
def checkCL (s : PState) : Outcome Unit :=
  match s.expectedCL with
  | some n => if s.contentLength = n then .ok () else .error (.h3 0x10E)
  | none => .ok ()

section
variable {σ : Type} (o : Oracle σ) (cfg : Cfg)

/-- the qlog `frame_parsed` event for a header block -/
def logStep (q : σ) (hs : Headers) : Outcome σ :=
  if cfg.logging then
    if (o.logOk q hs).1 = false ∧ cfg.k.logDecode = true then .error (.py .unicode)
    else .ok (o.logOk q hs).2
  else .ok q

/-- a frame that emitted no event with `stream_ended` still has to end the stream -/
def endOfSilent (s : PState) (ended : Bool) : Outcome (List Event) :=
  if ended = true ∧ cfg.k.silentFrameNoEnd = false then
    match checkCL s with
    | .error e => .error e
    | .ok _ => .ok [.data [] s.streamId true s.pushId]
  else .ok []

/-- `stream.expected_content_length = content_length` done by `validate_headers`
    (only the request/response validators are given the stream) -/
def setExpectedCL (s : PState) (cl : Option Nat) : PState :=
  if s.recvState = .initial then
    match cl with
    | some n => { s with expectedCL := some n }
    | none => s
  else s

/-- HEADERS frame after QPACK decoding: validate, check content-length, log, emit -/
def finishHeaders (s : PState) (q : σ) (hs : Headers) (ended : Bool) :
    Outcome (PState × σ × List Event) :=
  let kind : HKind :=
    if s.recvState = .initial then (if cfg.isClient then .response else .request) else .trailers
  match o.validate q kind hs with
  | (.invalid, _) => .error (.h3 0x10E)
  | (.ok cl, q1) =>
    let s1 : PState := setExpectedCL s cl
    match (if ended then checkCL s1 else .ok ()) with
    | .error e => .error e
    | .ok _ =>
      match logStep o cfg q1 hs with
      | .error e => .error e
      | .ok q2 =>
        .ok ({ s1 with recvState := if s1.recvState = .initial then .afterHeaders else .afterTrailers },
             q2, [.headers hs s.streamId ended s.pushId])

/-- PUSH_PROMISE frame after QPACK decoding -/
def finishPush (s : PState) (q : σ) (pid : Nat) (hs : Headers) (ended : Bool) :
    Outcome (PState × σ × List Event) :=
  match o.validate q .pushPromise hs with
  | (.invalid, _) => .error (.h3 0x10E)
  | (.ok _, q1) =>
    match logStep o cfg q1 hs with
    | .error e => .error e
    | .ok q2 =>
      match endOfSilent cfg s ended with
      | .error e => .error e
      | .ok tail => .ok (s, q2, .pushPromise hs pid s.streamId :: tail)

inductive FrameRes (σ : Type) where
  | done (s : PState) (q : σ) (evs : List Event)
  /-- pylsqpack.StreamBlocked propagated; `pp` = push id when the frame was a PUSH_PROMISE -/
  | blocked (q : σ) (pp : Option Nat)

/-- frame types that are errors on a request/push stream -/
def forbiddenOnRequest (t : Nat) : Bool :=
  t = 2 || t = 3 || t = 4 || t = 5 || t = 7 || t = 0xD || t = 0xE

/-- `_handle_request_or_push_frame` with `frame_data is not None` -/
def handleFrame (ftype : Option Nat) (fdata : Bytes) (s : PState) (q : σ) (ended : Bool) :
    Outcome (FrameRes σ) :=
  match ftype with
  | some 0 =>
    if s.recvState ≠ .afterHeaders then .error (.h3 0x105)
    else
      let s1 := { s with contentLength := s.contentLength + fdata.length }
      match (if ended then checkCL s1 else .ok ()) with
      | .error e => .error e
      | .ok _ =>
        .ok (.done s1 q (if ended = true ∨ fdata ≠ [] then [.data fdata s.streamId ended s.pushId] else []))
  | some 1 =>
    if s.recvState = .afterTrailers then .error (.h3 0x105)
    else
      match o.decode q s.streamId fdata with
      | (.blocked, q1) => .ok (.blocked q1 none)
      | (.failed, _) => .error (.h3 0x200)
      | (.headers hs, q1) =>
        match finishHeaders o cfg s q1 hs ended with
        | .error e => .error e
        | .ok (s2, q2, evs) => .ok (.done s2 q2 evs)
  | some t =>
    if t = 5 ∧ s.pushId = none then
      if cfg.isClient = false then .error (.h3 0x105)
      else
        match pullVarint fdata with
        | none => if cfg.k.pushPromiseBufferRead then .error .bufferRead else .error (.h3 0x106)
        | some (pid, rest) =>
          match o.decode q s.streamId rest with
          | (.blocked, q1) => .ok (.blocked q1 (if cfg.k.blockedPushAsHeaders then none else some pid))
          | (.failed, _) => .error (.h3 0x200)
          | (.headers hs, q1) =>
            match finishPush o cfg s q1 pid hs ended with
            | .error e => .error e
            | .ok (s2, q2, evs) => .ok (.done s2 q2 evs)
    else if forbiddenOnRequest t then .error (.h3 0x105)
    else
      match endOfSilent cfg s ended with
      | .error e => .error e
      | .ok evs => .ok (.done s q evs)
  | none =>
    match endOfSilent cfg s ended with
    | .error e => .error e
    | .ok evs => .ok (.done s q evs)

/-- `_handle_request_or_push_frame(..., frame_data=None)` for an unblocked stream;
    `blockedPush` = `Stream.blockedPush` -/
def resumeFrame (s : PState) (blockedPush : Option Nat) (q : σ) (ended : Bool) :
    Outcome (PState × σ × List Event) :=
  match blockedPush with
  | some pid =>
    match o.resume q s.streamId with
    | (.failed, _) => .error (.h3 0x200)
    | (.headers hs, q1) => finishPush o cfg s q1 pid hs ended
  | none =>
    if s.recvState = .afterTrailers then .error (.h3 0x105)
    else
      match o.resume q s.streamId with
      | (.failed, _) => .error (.h3 0x200)
      | (.headers hs, q1) => finishHeaders o cfg s q1 hs ended

/-! ## request / push stream parser -/

inductive LoopRes (σ : Type) where
  /-- left the `while` loop; `rest` = `stream.buffer[consumed:]` -/
  | brk (s : Stream) (q : σ) (rest : Bytes) (evs : List Event)
  /-- `return http_events` from inside the loop (WEBTRANSPORT_STREAM) -/
  | ret (s : Stream) (q : σ) (evs : List Event)

def LoopRes.prepend (pre : List Event) : LoopRes σ → LoopRes σ
  | .brk s q rest evs => .brk s q rest (pre ++ evs)
  | .ret s q evs => .ret s q (pre ++ evs)

/-- "fetch next frame header" -/
inductive HdrRes where
  /-- `break` (BufferReadError); `stream.frame_type` may have been assigned -/
  | stuck (s : Stream)
  /-- WEBTRANSPORT_STREAM: `return http_events` -/
  | wt (s : Stream) (evs : List Event)
  /-- header known (just parsed, or a frame is in progress); `rest` = bytes after it -/
  | go (s : Stream) (rest : Bytes)

def frameHeader (endedArg : Bool) (s : Stream) (rest : Bytes) : HdrRes :=
  match s.frameSize with
  | some _ => .go s rest
  | none =>
    match pullVarint rest with
    | none => .stuck s
    | some (t, r1) =>
      match pullVarint r1 with
      | none => .stuck { s with frameType := some t }
      | some (sz, r2) =>
        if t = 0x41 then
          .wt { s with frameType := some t, sessionId := some sz, frameSize := none, buffer := [] }
            (if r2 ≠ [] ∨ endedArg = true then [.wt r2 s.streamId endedArg sz] else [])
        else .go { s with frameType := some t, frameSize := some sz } r2

/-- "check how much data is available … read available data … handle frame" -/
inductive BodyRes (σ : Type) where
  /-- `break`: a non-DATA frame is not complete yet -/
  | brk
  /-- pylsqpack.StreamBlocked: `stream.blocked = True; break` -/
  | blocked (s : Stream) (q : σ) (rest : Bytes)
  | next (s : Stream) (q : σ) (rest : Bytes) (evs : List Event)

def frameBody (s : Stream) (q : σ) (rest : Bytes) : Outcome (BodyRes σ) :=
  match s.frameSize with
  | none => .ok .brk   -- not reachable: `frameHeader` answered `go`
  | some sz =>
    let chunk := min sz rest.length
    if s.frameType ≠ some 0 ∧ chunk < sz then .ok .brk
    else
      let fdata := rest.take chunk
      let rest' := rest.drop chunk
      let s1 : Stream :=
        if sz - chunk = 0 then { s with frameSize := none, frameType := none }
        else { s with frameSize := some (sz - chunk) }
      let ended := s1.receivingEnded && rest'.isEmpty &&
        (cfg.k.truncatedNoError || s1.frameSize.isNone)
      match handleFrame o cfg s.frameType fdata s1.p q ended with
      | .error e => .error e
      | .ok (.blocked q1 pp) =>
        .ok (.blocked { s1 with blocked := true, blockedFrameSize := some fdata.length, blockedPush := pp } q1 rest')
      | .ok (.done p2 q2 evs2) => .ok (.next { s1 with p := p2 } q2 rest' evs2)

/-- the frame loop of `_receive_request_or_push_data`; `rest` is the part of the
    buffer after `consumed` (the `buffer` attribute itself is only read before
    and written after the loop) -/
def reqLoop (endedArg : Bool) : Nat → Stream → σ → Bytes → Outcome (LoopRes σ)
  | 0, s, q, rest => .ok (.brk s q rest [])
  | fuel + 1, s, q, rest =>
    if rest = [] then .ok (.brk s q rest [])
    else
      match frameHeader endedArg s rest with
      | .stuck s1 => .ok (.brk s1 q rest [])
      | .wt s1 evs => .ok (.ret s1 q evs)
      | .go s1 r =>
        match frameBody o cfg s1 q r with
        | .error e => .error e
        | .ok .brk => .ok (.brk s1 q r [])
        | .ok (.blocked s2 q2 r2) => .ok (.brk s2 q2 r2 [])
        | .ok (.next s2 q2 r2 evs2) =>
          match reqLoop endedArg fuel s2 q2 r2 with
          | .error e => .error e
          | .ok res => .ok (res.prepend evs2)

/-- after the loop: "remove processed data from buffer" (+ the truncated-frame
    check of the fixed code) -/
def loopPost (r : Outcome (LoopRes σ)) : Outcome (Stream × σ × List Event) :=
  match r with
  | .error e => .error e
  | .ok (.ret s1 q1 evs) => .ok (s1, q1, evs)
  | .ok (.brk s1 q1 rest evs) =>
    if cfg.k.truncatedNoError = false ∧ s1.receivingEnded = true ∧ s1.blocked = false ∧
        (rest ≠ [] ∨ s1.frameSize.isSome) then .error (.h3 0x106)
    else .ok ({ s1 with buffer := rest }, q1, evs)

/-- "handle lone FIN" -/
def loneFin (s : Stream) (q : σ) : Outcome (Stream × σ × List Event) :=
  if cfg.k.truncatedNoError = false ∧ s.frameSize.isSome then .error (.h3 0x106)
  else
    match checkCL s.p with
    | .error e => .error e
    | .ok _ => .ok (s, q, [.data [] s.streamId true s.pushId])

/-- lone FIN and frame loop of `_receive_request_or_push_data` (after the shortcuts) -/
def recvReqMain (s : Stream) (q : σ) (endedArg : Bool) : Outcome (Stream × σ × List Event) :=
  if endedArg = true ∧ s.buffer = [] then loneFin cfg s q
  else loopPost cfg (reqLoop o cfg endedArg (s.buffer.length + 1) { s with buffer := [] } q s.buffer)

/-- `_receive_request_or_push_data(stream, data, stream_ended)` -/
def recvReq (s : Stream) (q : σ) (data : Bytes) (endedArg : Bool) : Outcome (Stream × σ × List Event) :=
  let s : Stream := { s with buffer := s.buffer ++ data, receivingEnded := s.receivingEnded || endedArg }
  if s.blocked then .ok (s, q, [])
  else
    match s.frameType, s.sessionId with
    | some 0x41, some sess =>
      .ok ({ s with buffer := [] }, q, [.wt s.buffer s.streamId endedArg sess])
    | _, _ =>
      match s.frameType, s.frameSize with
      | some 0, some sz =>
        if s.buffer.length < sz then
          if cfg.k.truncatedNoError = false ∧ endedArg = true then .error (.h3 0x106)
          else
            .ok ({ s with p := { s.p with contentLength := s.contentLength + s.buffer.length },
                          frameSize := some (sz - s.buffer.length), buffer := [] }, q,
                 [.data s.buffer s.streamId false s.pushId])
        else recvReqMain o cfg s q endedArg
      | _, _ => recvReqMain o cfg s q endedArg

/-! ## connection -/

structure Conn (σ : Type) where
  cfg : Cfg
  isDone : Bool := false
  closeCode : Option Nat := none
  settingsReceived : Bool := false
  receivedSettings : Option (List (Nat × Nat)) := none
  peerControl : Option Nat := none
  peerDecoder : Option Nat := none
  peerEncoder : Option Nat := none
  maxPushId : Option Nat := none
  /-- `self._stream` (insertion order) -/
  streams : List (Nat × Stream) := []
  q : σ

def Conn.init (cfg : Cfg) (q : σ) : Conn σ :=
  { cfg := cfg, maxPushId := if cfg.isClient then some 8 else none, q := q }

def lookupS (sid : Nat) : List (Nat × Stream) → Option Stream
  | [] => none
  | (i, s) :: r => if i = sid then some s else lookupS sid r

def setS (sid : Nat) (s : Stream) : List (Nat × Stream) → List (Nat × Stream)
  | [] => [(sid, s)]
  | (i, x) :: r => if i = sid then (i, s) :: r else (i, x) :: setS sid s r

def eraseS (sid : Nat) : List (Nat × Stream) → List (Nat × Stream)
  | [] => []
  | (i, x) :: r => if i = sid then r else (i, x) :: eraseS sid r

/-- `parse_settings`: the pairs in order; reserved / duplicate identifiers are
    SettingsError; a truncated pair is a BufferReadError -/
def parseSettings (k : Quirks) : Nat → Bytes → List (Nat × Nat) → Outcome (List (Nat × Nat))
  | 0, _, acc => .ok acc
  | fuel + 1, b, acc =>
    if b = [] then .ok acc
    else
      match pullVarint b with
      | none => if k.settingsBufferRead then .error .bufferRead else .error (.h3 0x106)
      | some (id, r1) =>
        match pullVarint r1 with
        | none => if k.settingsBufferRead then .error .bufferRead else .error (.h3 0x106)
        | some (v, r2) =>
          if id = 0 ∨ id = 2 ∨ id = 3 ∨ id = 4 ∨ id = 5 then .error (.h3 0x109)
          else if (acc.lookup id).isSome then .error (.h3 0x109)
          else parseSettings k fuel r2 (acc ++ [(id, v)])

/-- `parse_max_push_id` -/
def parseMaxPushId (k : Quirks) (b : Bytes) : Outcome Nat :=
  match pullVarint b with
  | none => if k.maxPushIdRaises then .error .bufferRead else .error (.h3 0x106)
  | some (v, r) =>
    if r = [] then .ok v
    else if k.maxPushIdRaises then .error (.py .assertion) else .error (.h3 0x106)

def bool01 (v : Option Nat) : Bool := v = none || v = some 0 || v = some 1

/-- `_validate_settings` -/
def validateSettings (cfg : Cfg) (st : List (Nat × Nat)) : Outcome Unit :=
  if !(bool01 (st.lookup 0x8)) || !(bool01 (st.lookup 0x2B603742)) || !(bool01 (st.lookup 0x33)) then
    .error (.h3 0x109)
  else if st.lookup 0x33 = some 1 ∧ cfg.hasRemoteDatagram = false then .error (.h3 0x109)
  else if st.lookup 0x2B603742 = some 1 ∧ st.lookup 0x33 ≠ some 1 then .error (.h3 0x109)
  else .ok ()

/-- `_handle_control_frame` -/
def handleControlFrame (c : Conn σ) (ftype : Nat) (fdata : Bytes) : Outcome (Conn σ) :=
  if ftype ≠ 4 ∧ c.settingsReceived = false then .error (.h3 0x10A)
  else if ftype = 4 then
    if c.settingsReceived then .error (.h3 0x105)
    else
      match parseSettings c.cfg.k (fdata.length + 1) fdata [] with
      | .error e => .error e
      | .ok st =>
        match validateSettings c.cfg st with
        | .error e => .error e
        | .ok _ => .ok { c with receivedSettings := some st, settingsReceived := true }
  else if ftype = 0xD then
    if c.cfg.isClient then .error (.h3 0x105)
    else
      match parseMaxPushId c.cfg.k fdata with
      | .error e => .error e
      | .ok v => .ok { c with maxPushId := some v }
  else if ftype = 0 ∨ ftype = 1 ∨ ftype = 5 ∨ ftype = 0xE then .error (.h3 0x105)
  else .ok c

/-- `_receive_datagram` -/
def recvDatagram (data : Bytes) : Outcome (List Event) :=
  match pullVarint data with
  | none => .error (.h3 0x33)
  | some (v, r) => .ok [.datagram r (v * 4)]

inductive UniRes (σ : Type) where
  /-- left the `while` loop -/
  | brk (c : Conn σ) (s : Stream) (rest : Bytes) (unb : List Nat)
  /-- `return` from inside the loop (push / WebTransport stream) -/
  | ret (c : Conn σ) (s : Stream) (evs : List Event)

def isLoopingType (t : Option Nat) : Bool := t = some 1 || t = some 0 || t = some 0x54

/-- stream-type prefix of a unidirectional stream: `none` = `break` -/
def uniType (c : Conn σ) (s : Stream) (rest : Bytes) : Outcome (Option (Conn σ × Stream × Bytes)) :=
  match s.streamType with
  | some _ => .ok (some (c, s, rest))
  | none =>
    match pullVarint rest with
    | none => .ok none
    | some (t, r) =>
      let s1 := { s with streamType := some t }
      if t = 0 then
        if c.peerControl.isSome then .error (.h3 0x103)
        else .ok (some ({ c with peerControl := some s.streamId }, s1, r))
      else if t = 3 then
        if c.peerDecoder.isSome then .error (.h3 0x103)
        else .ok (some ({ c with peerDecoder := some s.streamId }, s1, r))
      else if t = 2 then
        if c.peerEncoder.isSome then .error (.h3 0x103)
        else .ok (some ({ c with peerEncoder := some s.streamId }, s1, r))
      else .ok (some (c, s1, r))

/-- the `while` loop of `_receive_stream_data_uni` -/
def uniLoop (endedArg : Bool) : Nat → Conn σ → Stream → Bytes → List Nat → Outcome (UniRes σ)
  | 0, c, s, rest, unb => .ok (.brk c s rest unb)
  | fuel + 1, c, s, rest, unb =>
    if isLoopingType s.streamType = false ∧ rest = [] then .ok (.brk c s rest unb)
    else
      match uniType c s rest with
      | .error e => .error e
      | .ok none => .ok (.brk c s rest unb)
      | .ok (some (c, s, rest)) =>
        match s.streamType with
        | some 0 =>
          if endedArg then .error (.h3 0x104)
          else
            match parseFrame rest with
            | none => .ok (.brk c s rest unb)
            | some (ft, fd, r) =>
              match handleControlFrame c ft fd with
              | .error e => .error e
              | .ok c1 => uniLoop endedArg fuel c1 s r unb
        | some 1 =>
          let r : Option (Stream × Bytes) :=
            match s.pushId with
            | some _ => some (s, rest)
            | none =>
              match pullVarint rest with
              | none => none
              | some (pid, r) => some ({ s with p := { s.p with pushId := some pid } }, r)
          match r with
          | none => .ok (.brk c s rest unb)
          | some (s1, r) =>
            match recvReq o c.cfg { s1 with buffer := r } c.q [] endedArg with
            | .error e => .error e
            | .ok (s2, q2, evs) => .ok (.ret { c with q := q2 } s2 evs)
        | some 0x54 =>
          let r : Option (Stream × Bytes) :=
            match s.sessionId with
            | some _ => some (s, rest)
            | none =>
              match pullVarint rest with
              | none => none
              | some (p, r) => some ({ s with sessionId := some p }, r)
          match r with
          | none => .ok (.brk c s rest unb)
          | some (s1, r) =>
            match s1.sessionId with
            | none => .ok (.brk c s rest unb)  -- not reachable: set just above
            | some sess =>
              .ok (.ret c { s1 with buffer := [] }
                (if r ≠ [] ∨ endedArg = true then [.wt r s.streamId s1.receivingEnded sess] else []))
        | some 3 =>
          match o.feedDecoder c.q rest with
          | (false, _) => .error (.h3 0x202)
          | (true, q1) => uniLoop endedArg fuel { c with q := q1 } s [] unb
        | some 2 =>
          match o.feedEncoder c.q rest with
          | (.error, _) => .error (.h3 0x201)
          | (.unblocked ids, q1) => uniLoop endedArg fuel { c with q := q1 } s [] (unb ++ ids)
        | _ => uniLoop endedArg fuel c s [] unb

/-- body of `for stream_id in unblocked_streams:` for one stream: "resume headers",
    reset the blocked state, "resume processing" of what was buffered meanwhile -/
def resumeStream (cfg : Cfg) (st : Stream) (q : σ) : Outcome (Stream × σ × List Event) :=
  match resumeFrame o cfg st.p st.blockedPush q (st.receivingEnded && st.buffer.isEmpty) with
  | .error e => .error e
  | .ok (p1, q1, ev1) =>
    let st2 : Stream := { st with p := p1, blocked := false, blockedFrameSize := none, blockedPush := none }
    if st2.buffer = [] then .ok (st2, q1, ev1)
    else
      match recvReq o cfg st2 q1 [] st2.receivingEnded with
      | .error e => .error e
      | .ok (st3, q2, ev2) => .ok (st3, q2, ev1 ++ ev2)

/-- `for stream_id in unblocked_streams:` of `_receive_stream_data_uni` -/
def processUnblocked : List Nat → Conn σ → List Event → Outcome (Conn σ × List Event)
  | [], c, evs => .ok (c, evs)
  | id :: ids, c, evs =>
    match lookupS id c.streams with
    | none => if c.cfg.k.unblockedKeyError then .error (.py .key) else processUnblocked ids c evs
    | some st =>
      -- `if stream is None or not stream.blocked: continue` (the fixed code)
      if c.cfg.k.unblockedKeyError = false ∧ st.blocked = false then processUnblocked ids c evs
      else
      match resumeStream o c.cfg st c.q with
      | .error e => .error e
      | .ok (st3, q2, ev) =>
        processUnblocked ids { c with q := q2, streams := setS id st3 c.streams } (evs ++ ev)

/-- `_receive_stream_data_uni(stream, data, stream_ended)`; the stream is written
    back to the table under its id -/
def recvUni (c : Conn σ) (s : Stream) (data : Bytes) (endedArg : Bool) : Outcome (Conn σ × List Event) :=
  let s : Stream := { s with buffer := s.buffer ++ data, receivingEnded := s.receivingEnded || endedArg }
  -- the `buffer` attribute is read before the loop (`Buffer(data=stream.buffer)`) and written
  -- after it: the loop state carries an empty one
  match uniLoop o endedArg (s.buffer.length + 2) c { s with buffer := [] } s.buffer [] with
  | .error e => .error e
  | .ok (.ret c1 s1 evs) => .ok ({ c1 with streams := setS s1.streamId s1 c1.streams }, evs)
  | .ok (.brk c1 s1 rest unb) =>
    let s2 : Stream := { s1 with buffer := rest }
    processUnblocked o unb { c1 with streams := setS s2.streamId s2 c1.streams } []

def isUni (sid : Nat) : Bool := sid % 4 = 2 || sid % 4 = 3

/-- the `finally:` of `_get_or_create_stream`: "delete stream objects when they
    are done" — `if stream.is_ended(): self._stream.pop(stream_id)` -/
def popIfEnded (c : Conn σ) (sid : Nat) : Conn σ :=
  match lookupS sid c.streams with
  | some s1 => if s1.isEnded then { c with streams := eraseS sid c.streams } else c
  | none => c

/-- `_receive_stream_data` including `_get_or_create_stream` -/
def recvStreamData (c : Conn σ) (sid : Nat) (data : Bytes) (fin : Bool) : Outcome (Conn σ × List Event) :=
  let s : Stream := match lookupS sid c.streams with
    | some s => s
    | none => Stream.new sid
  let c0 : Conn σ := { c with streams := setS sid s c.streams }
  let r : Outcome (Conn σ × List Event) :=
    if isUni sid then recvUni o c0 s data fin
    else
      match recvReq o c0.cfg s c0.q data fin with
      | .error e => .error e
      | .ok (s1, q1, evs) => .ok ({ c0 with q := q1, streams := setS sid s1 c0.streams }, evs)
  match r with
  | .error e => .error e
  | .ok (c1, evs) => .ok (popIfEnded c1 sid, evs)

inductive QuicEvent where
  | streamData (sid : Nat) (data : Bytes) (fin : Bool)
  | datagram (data : Bytes)
  /-- any other QUIC event -/
  | other
  deriving Repr, DecidableEq, Inhabited

/-- the `try:` body of `handle_event` -/
def dispatch (c : Conn σ) (ev : QuicEvent) : Outcome (Conn σ × List Event) :=
  match ev with
  | .streamData sid d f => recvStreamData o c sid d f
  | .datagram d =>
    match recvDatagram d with
    | .error e => .error e
    | .ok evs => .ok (c, evs)
  | .other => .ok (c, [])

/-- `H3Connection.handle_event`: `.error` = an exception escaped -/
def handleEvent (c : Conn σ) (ev : QuicEvent) : Outcome (Conn σ × List Event) :=
  if c.isDone then .ok (c, [])
  else
    match dispatch o c ev with
    | .ok x => .ok x
    | .error (.h3 code) => .ok ({ c with isDone := true, closeCode := some code }, [])
    | .error e => .error e

end

/-! ## sending-side framing (state effects of `send_headers` / `send_data`) -/

/-- `send_headers(stream_id, headers, end_stream)`: state effect on the stream and
    the frame written (given the encoded header block) -/
def sendHeaders (s : Stream) (block : Bytes) (endStream : Bool) : Outcome (Stream × Option Bytes) :=
  if s.sendState = .afterTrailers then .error (.h3 0x105)
  else if endStream = true ∧ s.sendingEnded = true then .error (.h3 0x105)
  else
    .ok ({ s with sendingEnded := s.sendingEnded || endStream,
                  sendState := if s.sendState = .initial then .afterHeaders else .afterTrailers },
         encodeFrame 1 block)

/-- `send_data(stream_id, data, end_stream)` -/
def sendData (s : Stream) (data : Bytes) (endStream : Bool) : Outcome (Stream × Option Bytes) :=
  if s.sendState ≠ .afterHeaders then .error (.h3 0x105)
  else if endStream = true ∧ s.sendingEnded = true then .error (.h3 0x105)
  else .ok ({ s with sendingEnded := s.sendingEnded || endStream }, encodeFrame 0 data)

end AQ.H3
